"""C01 — compiled WebAssembly behaves as the source semantics prescribe (DESIGN.md section 4, C01)."""
import json
import os

from gen.progs import gen_builtin_program, gen_infer_program, gen_layout_program, gen_order_program, gen_program, layout_search_programs
from gen.rng import Rng
from lib.e2e import run_pipeline, same_behaviour
from lib.vlib import WORK, Check, build_harness, check_props, coq_eval, coq_result, vh

PID = 'C01'
COMPARABLE = ('return', 'panic')


def load_corpus(pid):
    out = []
    d = os.path.join('/verif/corpus', pid)
    if os.path.isdir(d):
        for fn in sorted(os.listdir(d)):
            if fn.endswith('.sam'):
                out.append({'sources': {'Main': open(os.path.join(d, fn)).read()}, 'entry': 'Main', 'features': ['corpus:' + fn]})
    return out


def compare_src_wasm(ck, prog, rec, label):
    """The C01 oracle for one program. Returns True if a comparison was made."""
    src, wasm = rec['src'], rec['wasm']
    if rec['compile'] != 'ok' or src is None or wasm is None:
        return False
    sk, wk = src['ending']['kind'], wasm['ending']['kind']
    ck.count('src:' + sk + ('/' + src['ending']['detail'][:24] if sk == 'excluded' else ''))
    if sk == 'excluded' and src['ending']['detail'] == 'call-order':
        return compare_call_order(ck, prog, wasm, label)
    if sk in ('excluded', 'out-of-fuel', 'stack-overflow', 'interpreter-error', 'rejected'):
        return False
    if wk in ('stack-overflow',):
        ck.count('wasm-stack-overflow-skipped')
        return False
    inp = {'sources': prog['sources'], 'entry': prog['entry'], 'label': label}
    if sk == 'vec-bounds':
        # the documented Vec bounds panics: $__Process$panic with a fixed message in libsam.wat
        if wk != 'panic' or wasm['ending'].get('detail') not in ('Vec index out of bounds', 'pop from empty Vec') \
                or wasm['lines'] != src['lines']:
            ck.property_failure('source semantics: Vec bounds panic after %d lines; wasm: %s after %d lines'
                                % (len(src['lines']), wasm['ending'], len(wasm['lines'])), inp, expected=src, observed=wasm)
        return True
    d = same_behaviour(src, wasm)
    if d:
        ck.property_failure('emitted WebAssembly differs from the source semantics: ' + d, inp,
                            expected={'lines': src['lines'][:50], 'ending': src['ending']},
                            observed={'lines': wasm['lines'][:50], 'ending': wasm['ending']},
                            how='./check C01 --replay <this file>')
    return True


KNOWN_ORDER = 'C01-callee-evaluated-before-arguments'


def src_run_with_order(prog, order):
    import subprocess
    _, binp, _ = build_harness('debug')
    d = os.path.join(WORK, 'c01_order')
    os.makedirs(d, exist_ok=True)
    req = os.path.join(d, 'req_%d_%s.json' % (os.getpid(), order))
    with open(req, 'w') as f:
        json.dump({'sources': prog['sources'], 'entry': prog['entry'], 'fuel': 30000000, 'max_depth': 20000}, f)
    p = subprocess.run([binp, 'src-run', '--json', req], stdout=subprocess.PIPE, stderr=subprocess.PIPE, timeout=120, text=True,
                       env=dict(os.environ, SRCSEM_CALL_ORDER=order))
    line = [l for l in p.stdout.splitlines() if l.startswith('{')]
    return json.loads(line[-1]) if line else None


def compare_call_order(ck, prog, wasm, label):
    """Runs on which the order 'arguments, then callee' (spec 6.7.5 / 6.15) and the textual order 'callee / receiver, then
    arguments' can be told apart. The compiler implements the textual order (open finding); the emitted code must follow one of
    the two readings exactly - a third behaviour is a failure."""
    spec = src_run_with_order(prog, 'args-first')
    text = src_run_with_order(prog, 'callee-first')
    inp = {'sources': prog['sources'], 'entry': prog['entry'], 'label': label}
    comparable = lambda o: o is not None and o['ending']['kind'] in ('return', 'panic')
    if not comparable(spec) or not comparable(text):
        return False
    if same_behaviour(spec, wasm) is None:
        ck.count('call-order:as-the-specification-says')
        return True
    if same_behaviour(text, wasm) is None:
        ck.count('call-order:textual')
        ck.property_failure('the callee / receiver expression is evaluated before the arguments; the specification (6.7.5, 6.15) says after',
                            inp, expected={'lines': spec['lines'][:40]}, observed={'lines': wasm['lines'][:40]}, klass=KNOWN_ORDER)
        return True
    ck.property_failure('emitted WebAssembly follows neither the specified order of evaluation (arguments, then callee) nor the textual one: '
                        + (same_behaviour(text, wasm) or ''), inp,
                        expected={'textual_order': text['lines'][:50], 'specified_order': spec['lines'][:50]},
                        observed={'lines': wasm['lines'][:50], 'ending': wasm['ending']}, how='./check C01 --replay <this file>')
    return True


def layout_correspondence(ck, progs):
    """Layer B: the layouts the real compiler chose (vh mir-types) satisfy the boolean well-formedness check
    whose soundness is a theorem (C01_wf_layoutsb_sound), i.e. the hypotheses of C01_discriminate_correct /
    C01_encode_injective hold for what the compiler actually did."""
    import re
    jobs = [{'id': i, 'sources': p['sources'], 'entry': p['entry']} for i, p in enumerate(progs)]
    rc, out = vh(['mir-types'], input='\n'.join(json.dumps(j) for j in jobs) + '\n', timeout=900)
    dumps = {}
    for line in out.splitlines():
        if line.startswith('{'):
            d = json.loads(line)
            dumps[d['id']] = d
    cases = []
    for i, p in enumerate(progs):
        d = dumps.get(i)
        if not d or 'types' not in d:
            continue
        names = {t['name']: k for k, t in enumerate(d['types']) if 'struct' in t or 'enum' in t}

        def ty(x):
            if x in ('int', 'i31'):
                return 'TInt'
            if x in names:
                return 'TId %d' % names[x]
            return 'TStr'          # strings, closures, Vec: opaque references, never unboxed payloads
        env, lay = [], []
        nun = 0
        for t in d['types']:
            if t['name'] not in names:
                continue
            k = names[t['name']]
            if t.get('enum') == []:
                # builtin reference types (_Str) are registered as enums without variants: always pointers
                env.append('(%d, DStruct [])' % k)
                continue
            if 'struct' in t:
                env.append('(%d, DStruct [%s])' % (k, '; '.join(ty(x) for x in t['struct'])))
                continue
            vs, ls = [], []
            for v in t['enum']:
                if v == 'i31':
                    vs.append('[]')
                    ls.append('RInt31')
                elif 'unboxed' in v:
                    nun += 1
                    vs.append('[%s]' % ty(v['unboxed']))
                    ls.append('RUnboxed %d' % names.get(v['unboxed'], 99999))
                else:
                    fs = '; '.join(ty(x) for x in v['boxed'][1:])      # field 0 is the i32 tag
                    vs.append('[%s]' % fs)
                    ls.append('RBoxed [%s]' % fs)
            env.append('(%d, DEnum [%s])' % (k, '; '.join(vs)))
            lay.append('(%d, [%s])' % (k, '; '.join(ls)))
        cases.append((i, '([%s], [%s])' % ('; '.join(env), '; '.join(lay)), nun, d['types']))
        ck.count('layout:enums', len(lay))
        ck.count('layout:unboxed_variants', nun)
    if not cases:
        return
    body = ('From Coq Require Import List. Import ListNotations.\nFrom SV Require Import C01.Model C01.Corr.\n'
            'Definition dumps : list (env * layouts) := [\n%s].\n'
            'Eval vm_compute in (map (fun c => check_dump (fst c) (snd c)) dumps).\n' % ';\n'.join(c[1] for c in cases))
    rc, out = coq_eval('c01_layouts', body)
    res = coq_result(out) if rc == 0 else None
    if res is None:
        ck.obligation('model-evaluation(layouts)', False, out[-600:])
        return
    flags = re.findall(r'true|false', res)
    if len(flags) != len(cases):
        ck.obligation('model-evaluation(layouts)', False, 'could not parse results')
        return
    for (i, _, nun, types), f in zip(cases, flags):
        ck.case(['layout', progs[i]['sources']], nun > 0)
        if f != 'true':
            ck.disagree('C01.Corr.check_dump (well-formed layouts) on the type definitions the compiler produced',
                        {'sources': progs[i]['sources'], 'entry': progs[i]['entry']}, 'wf_layoutsb = true', {'types': types})
    ck.obligation('layout correspondence ran', True, '%d programs' % len(cases))


def run(tier, seed, replay=None):
    ck = Check(PID, tier, seed, level='proof')
    ck.checker_cmd = 'make -C /verif/coq theories/C01/Props.vo (coqc 8.16.1) + Print Assumptions per theorem'
    ck.trusted = [
        'Coq 8.16.1 kernel; no axioms',
        'hand-written model theories/C01/*.v of the enum representation decision (mir_generics_specialization.rs rewrite_id_type / '
        'type_permit_enum_boxed_optimization) and of encoding / discrimination of enum values; tie: layouts the real compiler '
        'chose for generated declarations are compared with the model',
        'reference interpreter of the source language harness/src/srcsem.rs (oracle for end-to-end behaviour; validated against '
        'tests/snapshot.txt), headless Chrome 147 via puppeteer as the WebAssembly engine',
        'not covered by any theorem: HIR lowering of expressions and closures, generics specialisation of function bodies, type '
        'deduplication, constant-parameter elimination, tail-recursion rewrite, LIR lowering, instruction selection, libsam.wat '
        '- compared end to end only (testing)',
    ]
    if os.path.exists('/verif/coq/theories/C01/Props.v'):
        check_props(ck, 'theories/C01/Props.v')
    if replay:
        rp = json.load(open(replay))
        progs = [{'sources': rp['input']['sources'], 'entry': rp['input']['entry'], 'features': ['replay']}]
    else:
        n = 120 if tier == 'quick' else 2500
        rng = Rng(seed)
        progs = load_corpus(PID)
        for i in range(n):
            r = rng.fork()
            opts = {'big': i % 7 == 0, 'nfun': 4 + i % 3, 'depth': 2 + i % 3}
            progs.append(gen_builtin_program(r) if i % 12 == 4 else gen_order_program(r) if i % 12 == 7 else gen_infer_program(r) if i % 12 == 10 else gen_layout_program(r) if i % 3 == 2 else gen_program(r, opts))
    if not replay:
        from gen.progs import oob_programs
        progs = progs + oob_programs()      # Vec accesses that leave the bounds at chosen places (always run)
    ck.rule = ('generated well-typed programs (recursive/generic enums, structs, interfaces with bounded generics, closures, tuples, '
               'nested and or-patterns, tail/non-tail recursion, Str/Vec/Process builtins) with inputs fed through Str.toInt; '
               'distinct = distinct program text; non-trivial = accepted, compiled and compared (run not excluded)')
    layout_correspondence(ck, progs)
    if not replay:
        # loop lowering (lir_lowering While): Gallina model + simulation theorem, tied to every real loop
        from checks import c01_loop
        c01_loop.loop(ck, tier, seed)
        # pattern lowering (hir_lowering lower_matching_pattern / match / if-let / let): Gallina model + theorem, tied to the real HIR
        from checks import c01_pat
        c01_pat.pat(ck, tier, seed)
        # pre-optimiser MIR stages (constant-parameter elimination, tail-recursion rewrite): Gallina mirrors + preservation
        # theorems, tied term for term to the real stages through hooks
        from checks import c01_mir
        c01_mir.mir(ck, tier, seed)
        # expression lowering (hir_lowering lower / lower_binary / lower_if_else / lower_block / lower_lambda): Gallina mirror,
        # soundness theorem against a source semantics, tied body by body to the real HIR
        from checks import c01_expr
        c01_expr.expr(ck, tier, seed)
    if ck.corr_fail and not replay:
        # the model no longer describes what the compiler does: search for a program on which the difference is observable
        # (every type of the generator's catalogue up to two generic levels, applied to every constructor path)
        progs = progs + layout_search_programs(2 if tier == 'quick' else 3)
        ck.notes.append('layout correspondence failed: %d search programs added' % len(layout_search_programs(2 if tier == 'quick' else 3)))
    recs = run_pipeline(progs, 'c01', want_ts=False)
    compared = 0
    for prog, rec in zip(progs, recs):
        for f in prog.get('features', []):
            ck.count('feature:' + f.split(':')[0])
        if not rec['engine_ok']:
            ck.notes.append('WebAssembly engine unavailable: end-to-end comparison skipped')
            break
        ok = compare_src_wasm(ck, prog, rec, prog.get('features'))
        compared += 1 if ok else 0
        ck.case(prog['sources'], ok)
        if rec['compile'] != 'ok':
            ck.count('not-compiled:' + str(rec['compile'])[:20])
    ck.extra_cov['programs'] = len(progs)
    ck.extra_cov['programs_compared'] = compared
    if progs:
        ck.sample({'program': progs[-1]['sources']['Main'][:1500], 'src': recs[-1]['src'], 'wasm': recs[-1]['wasm']})
    return ck.finish()
