"""C01, expression-lowering slice (coq/theories/C01expr): hir_lowering.rs `ExpressionLoweringManager::lower` and the
functions it dispatches to (lower_binary incl. the && / || / :: arms, lower_if_else, lower_block, lower_unary,
lower_fn_call, lower_method_access, lower_field_access, lower_tuple, lower_lambda + create_synthetic_lambda_function,
lower_match, `if let`, literals, variables; `let` with any pattern; the pattern statements are the model of
theories/C01pat, embedded).

Layer A: theories/C01expr/Props.v: for every expression of the fragment, every environment and every world, running the
  statements `Lower.lower` emits in HirSem gives the value and the history of oracle calls SrcSem prescribes (or both
  end the same way), for match / `if let` / `let p` through C01pat_lower_guard_correct carried over to HirSem by a
  simulation (C01expr_guard_sound); the synthetic function of a lambda computes what the lambda's body computes; short-circuit
  operands run exactly when the left operand does not decide; the statements of every live sub-expression are present
  in evaluation order; the seeded shortcut C01-7, the spec's argument-first call order and a rebinding `let` are
  refuted by vm_compute.
Layer B: `vh hirexpr-dump` compiles generated programs (gen/progs.py gen_order_program, gen_program, gen_infer_program)
  and two fixed programs to HIR through the hook `samlang_compiler::verif::compile_sources_to_hir` and prints, per class
  member, the checked source expression of the body next to the HIR function produced for it, and the synthetic
  functions of the lambdas.  Bodies inside the fragment are translated to Gallina terms; inside coqc (vm_compute,
  sharded) `Lower.lower_body` of the source term must EQUAL the real statements and result expression, and
  `Lower.lambda_fn` the real synthetic function of every lambda (paired through the ClosureInit statements; a body with a
  lambda whose ClosureInit is dropped - a dead operand of && / || - asks the model which lambdas survive: Corr.surviving).
  Temporaries: `Heap::alloc_temp_str` names them after the size of the string table, so the names of one body are
  increasing but not consecutive, and a temporary that is drawn and never used leaves no trace; the supply handed to
  the model maps the temporaries that OCCUR in its output, in increasing order, to those that occur in the real
  statements (Corr.supply).  The hypothesis of the theorem (no `let` rebinds a visible name) is evaluated on every
  body; SrcSem of the body is compared with HirSem of the REAL statements on small environments and worlds (instances
  of the theorem on the real output).  Fragment coverage (bodies, expression nodes, per constructor, reasons outside)
  is reported in the evidence (`c01expr_fragment`).  A body that disagrees is also compared with the model of the
  seeded change C01-7 (Lower.Seeded7) and the disagreement says so when that one matches.

`expr(ck, tier, seed)` is the library entry (call it from checks/c01.py); `run()` is a standalone wrapper whose
evidence / replay files go under /verif/work/c01expr (never /verif/evidence).
"""
import concurrent.futures
import json
import os
import re

from gen import progs
from gen.rng import Rng
from lib.vlib import Check, NCPU, check_props, coq_eval_many, coq_result, g_bytes, vh
import lib.vlib as vlib

THEORY = os.environ.get('C01EXPR_THEORY', 'C01expr')
HEADER = ('From Coq Require Import ZArith NArith List Bool. Import ListNotations.\n'
          + 'From SV Require Import Common.Int32 %s.Syntax %s.SrcSem %s.HirSem %s.Lower %s.Corr.\n' % ((THEORY,) * 5)
          + 'Open Scope Z_scope.\n')

BINOPS = {'*': 'MUL', '/': 'DIV', '%': 'MOD', '+': 'PLUS', '-': 'MINUS', '<': 'LT', '<=': 'LE', '>': 'GT', '>=': 'GE',
          '==': 'EQ', '!=': 'NE', '&': 'LAND', '|': 'LOR', '<<': 'SHL', '>>>': 'SHR', '^': 'XOR'}


class Outside(Exception):
    pass


class Names:
    """variables: `_t<K>` -> 2K+1, every other name -> an even number; function names -> FUser k / FInit k / FConcat"""

    def __init__(self, constructors, concat):
        self.vars = {}
        self.funs = {}
        self.constructors = set(constructors)
        self.concat = concat
        self.lams = None

    def var(self, x):
        m = re.fullmatch(r'_t(\d+)', x)
        if m:
            return '%d%%N' % (2 * int(m.group(1)) + 1)
        if x == '_this':
            return '0%N'                      # Syntax.this_name
        if x not in self.vars:
            self.vars[x] = 2 * (len(self.vars) + 1)
        return '%d%%N' % self.vars[x]

    def fid(self, f):
        if f not in self.funs:
            self.funs[f] = len(self.funs) + 1
        return self.funs[f]

    def fun(self, f, hir_args=None):
        m = re.fullmatch(r'M:\._GenFn\.(\d+)', f)
        if m:
            return '(FLam %d%%N)' % int(m.group(1))
        if f == 'M:.Process.panic':
            return 'FPanic'
        if f in self.constructors:
            return '(FInit %d%%N)' % self.fid(f)
        if f == self.concat and hir_args == 2:
            return 'FConcat'
        return '(FUser %d%%N)' % self.fid(f)


# ------------------------------------------------------------------ lambdas <-> synthetic functions
def closure_numbers(ss, out):
    """the numbers k of the ClosureInit statements that name a synthetic function `_GenFn.k`, in statement order"""
    for s in ss:
        if s[0] == 'closure':
            m = re.fullmatch(r'M:\._GenFn\.(\d+)', s[2])
            if m:
                out.append(int(m.group(1)))
        elif s[0] == 'if':
            closure_numbers(s[2], out)
            closure_numbers(s[3], out)
        elif s[0] == 'destr':
            closure_numbers(s[4], out)
            closure_numbers(s[5], out)
    return out


def count_lambdas_top(x):
    """the lambdas of a body that are not inside another lambda, as the translation meets them"""
    k = x[0]
    if k == 'lambda':
        return 1
    if k in ('int', 'bool', 'str', 'var', 'class'):
        return 0
    if k == 'tuple':
        return sum(count_lambdas_top(y) for y in x[2])
    if k in ('field', 'method'):
        return count_lambdas_top(x[1])
    if k == 'un':
        return count_lambdas_top(x[2])
    if k == 'call':
        return count_lambdas_top(x[1]) + sum(count_lambdas_top(y) for y in x[2])
    if k == 'bin':
        return count_lambdas_top(x[2]) + count_lambdas_top(x[3])
    if k == 'if':
        return count_lambdas_top(x[1][-1]) + count_lambdas_top(x[2]) + count_lambdas_top(x[3])
    if k == 'match':
        return count_lambdas_top(x[1]) + sum(count_lambdas_top(b) for _, _, b in x[2])
    if k == 'block':
        return sum(count_lambdas_top(st[-1]) for st in x[1]) + (count_lambdas_top(x[2]) if x[2] is not None else 0)
    return 0


class Lams:
    """The lambdas of one body get the numbers of the synthetic functions in the order of the ClosureInit statements of
    the real body (a wrong pairing shows as a disagreement of the statements); a nested lambda is numbered from the
    statements of the synthetic function it lives in.  `cases` collects one Corr.lcase per lambda."""

    DUMMY = [0]

    def __init__(self, real_stmts, synthetic, cases, assign=None):
        self.ks = closure_numbers(real_stmts, [])
        self.pos = 0
        self.synthetic = synthetic
        self.cases = cases
        self.assign = assign      # None: pair with the real statements; 'prov': provisional numbers 900000+i;
                                  # 'dummy': numbers nobody compares; a list: the number (or None = dropped) per lambda

    def next(self):
        i = self.pos
        self.pos += 1
        if self.assign == 'prov':
            return ('x', 900000 + i)
        if self.assign == 'dummy':
            Lams.DUMMY[0] += 1
            return ('x', 800000 + Lams.DUMMY[0])
        if isinstance(self.assign, list):
            if i >= len(self.assign):
                raise Outside(MISMATCH)
            if self.assign[i] is None:
                Lams.DUMMY[0] += 1
                return ('x', 800000 + Lams.DUMMY[0])
            return self.assign[i]
        if i >= len(self.ks):
            raise Outside(MISMATCH)
        return self.ks[i]

    def done(self):
        if self.assign is None and self.pos != len(self.ks):
            raise Outside(MISMATCH)


MISMATCH = 'lambda count differs from the ClosureInit statements (a lambda lowered in dropped code)'


# ------------------------------------------------------------------ source expression -> Gallina (Syntax.expr)
def count_nodes(x, acc):
    """every expression node of the source body, by constructor (fragment or not)"""
    k = x[0]
    if k == 'bin':
        acc['bin ' + x[1]] = acc.get('bin ' + x[1], 0) + 1
    elif k == 'un':
        acc['un ' + x[1]] = acc.get('un ' + x[1], 0) + 1
    elif k == 'call':
        kk = 'call method/function' if x[1][0] == 'method' else 'call value'
        acc[kk] = acc.get(kk, 0) + 1
    else:
        acc[k] = acc.get(k, 0) + 1
    if k in ('int', 'bool', 'str', 'var', 'class'):
        return
    if k == 'tuple':
        for y in x[2]:
            count_nodes(y, acc)
    elif k in ('field', 'method'):
        count_nodes(x[1], acc)
    elif k == 'un':
        count_nodes(x[2], acc)
    elif k == 'call':
        if x[1][0] == 'method':
            count_nodes(x[1][1], acc)      # the method access of a call is part of the call node
        else:
            count_nodes(x[1], acc)
        for y in x[2]:
            count_nodes(y, acc)
    elif k == 'bin':
        count_nodes(x[2], acc)
        count_nodes(x[3], acc)
    elif k == 'if':
        c = x[1]
        if c[0] == 'guard':
            acc['if-let guard'] = acc.get('if-let guard', 0) + 1
        count_nodes(c[-1], acc)
        count_nodes(x[2], acc)
        count_nodes(x[3], acc)
    elif k == 'match':
        count_nodes(x[1], acc)
        for _, _, b in x[2]:
            count_nodes(b, acc)
    elif k == 'lambda':
        count_nodes(x[3], acc)
    elif k == 'block':
        for st in x[1]:
            if st[0] == 'let':
                kk = 'let ' + ('var' if st[1][0] == 'var' else 'wildcard' if st[1][0] == 'wild' else
                               'flat tuple' if st[1][0] == 'tuple' and all(q[0] in ('var', 'wild') for q in st[1][1]) else 'pattern')
                acc[kk] = acc.get(kk, 0) + 1
            count_nodes(st[-1], acc)
        if x[2] is not None:
            count_nodes(x[2], acc)


def g_src(x, nm):
    k = x[0]
    if k == 'int':
        return '(EInt (%d))' % x[1]
    if k == 'bool':
        return '(EBool %s)' % ('true' if x[1] else 'false')
    if k == 'str':
        return '(EStr %s)' % g_bytes(x[1])
    if k == 'var':
        return '(EVar %s)' % nm.var(x[1])
    if k == 'class':
        return 'EClass'
    if k == 'un':
        return '(EUn %s %s)' % ('UNot' if x[1] == '!' else 'UNeg', g_src(x[2], nm))
    if k == 'bin':
        op, a, b, kd = x[1], x[2], x[3], x[4]
        if op == '&&':
            return '(EAnd %s %s)' % (g_src(a, nm), g_src(b, nm))
        if op == '||':
            return '(EOr %s %s)' % (g_src(a, nm), g_src(b, nm))
        if op == '::':
            return '(EConcat %s %s)' % (g_src(a, nm), g_src(b, nm))
        if op in ('==', '!=') and kd not in ('int', 'bool', 'unit', 'str'):
            raise Outside('== / != on operands that are not int, bool, unit or Str')
        return '(EBin %s %s %s)' % (BINOPS[op], g_src(a, nm), g_src(b, nm))
    if k == 'call':
        callee, args, void = x[1], x[2], x[3]
        # receiver / callee first, then the arguments: the lambdas are numbered in lowering order
        if callee[0] == 'method':
            if callee[2].startswith('?'):
                raise Outside('receiver type is neither nominal nor generic')
            go = g_src(callee[1], nm)
            ga = g_exprs([g_src(a, nm) for a in args])
            return '(ECallM %s %s %s %s)' % (go, nm.fun(callee[2]), ga, 'true' if void else 'false')
        gc = g_src(callee, nm)
        ga = g_exprs([g_src(a, nm) for a in args])
        return '(ECallC %s %s %s)' % (gc, ga, 'true' if void else 'false')
    if k == 'method':
        if x[2].startswith('?'):
            raise Outside('receiver type is neither nominal nor generic')
        return '(EMethod %s %s)' % (g_src(x[1], nm), nm.fun(x[2]))
    if k == 'field':
        return '(EField %s %d%%nat)' % (g_src(x[1], nm), x[2])
    if k == 'tuple':
        if x[1] not in nm.constructors:
            raise Outside('tuple whose init is not a struct constructor')
        return '(ETuple %d%%N %s)' % (nm.fid(x[1]), g_exprs([g_src(a, nm) for a in x[2]]))
    if k == 'if':
        c = x[1]
        if c[0] != 'cond':
            if not top_ok(c[1]):
                raise Outside('if let with a variable pattern at the top')
            ge = g_src(c[3], nm)
            gp, gk = g_pat(c[1], nm), g_keys(c[2], nm)
            g1 = g_src(x[2], nm)
            g2 = g_src(x[3], nm)
            return '(EIfLet %s %s %s %s %s)' % (gp, gk, ge, g1, g2)
        return '(EIf %s %s %s)' % (g_src(c[1], nm), g_src(x[2], nm), g_src(x[3], nm))
    if k == 'block':
        return '(EBlock %s)' % g_blk(x[1], x[2], nm)
    if k == 'match':
        ge = g_src(x[1], nm)
        arms = []
        for p, ks, body in x[2]:
            if not top_ok(p):
                raise Outside('match arm with a variable pattern at the top')
            arms.append((g_pat(p, nm), g_keys(ks, nm), g_src(body, nm)))      # written order = order of the statements
        out = 'ANil'
        for gp, gk, gb in reversed(arms):
            out = '(ACons %s %s %s %s)' % (gp, gk, gb, out)
        return '(EMatch %s %s)' % (ge, out)
    if k == 'lambda':
        lams = nm.lams
        if lams is None:
            raise Outside('lambda')
        kf = lams.next()
        params, caps = x[1], x[2]
        gp = '[%s]' % '; '.join(nm.var(p) for p in params)
        gc = '[%s]' % '; '.join(nm.var(c) for c in caps)
        if isinstance(kf, tuple):
            # provisional / dropped: no synthetic function to compare with; the lambdas inside get numbers nobody compares
            nm.lams = Lams([], lams.synthetic, lams.cases, assign='dummy')
            try:
                gb = g_src(x[3], nm)
            finally:
                nm.lams = lams
            return '(ELambda %d%%N %s %s %s)' % (kf[1], gc, gp, gb)
        fn = lams.synthetic.get('M:._GenFn.%d' % kf)
        if fn is None:
            raise Outside('lambda: synthetic function not in the dump')
        inner = Lams(fn['stmts'], lams.synthetic, lams.cases)
        nm.lams = inner
        try:
            gb = g_src(x[3], nm)
            inner.done()
        finally:
            nm.lams = lams
        try:
            lams.cases.append(('(%s, %s, %s, [%s], %s, %s)' % (gc, gp, gb, '; '.join(nm.var(p) for p in fn['params']),
                                                             g_hstmts(fn['stmts'], nm), g_hexpr(fn['ret'], nm)), kf))
        except NotInModel as e:
            raise Outside('lambda body lowered to a statement outside the model: %s' % e)
        return '(ELambda %d%%N %s %s %s)' % (kf, gc, gp, gb)
    raise Outside('unknown node ' + k)


def g_pat(p, nm):
    k = p[0]
    if k == 'wild':
        return 'PWild'
    if k == 'var':
        return '(PVar %s)' % nm.var(p[1])
    if k == 'tuple':
        return '(PTuple [%s])' % '; '.join(g_pat(q, nm) for q in p[1])
    if k == 'object':
        return '(PObject [%s])' % '; '.join('(%d%%nat, %s)' % (i, g_pat(q, nm)) for i, q in p[1])
    if k == 'variant':
        return '(PVariant %d%%nat [%s])' % (p[1], '; '.join(g_pat(q, nm) for q in p[2]))
    if k == 'or':
        return '(POr [%s])' % '; '.join(g_pat(q, nm) for q in p[1])
    raise Outside('unknown pattern ' + k)


def structured(p):
    if p[0] in ('tuple', 'object', 'variant'):
        return True
    if p[0] == 'or':
        return bool(p[1]) and all(structured(q) for q in p[1])
    return False


def top_ok(p):
    return p[0] == 'wild' or structured(p)


def g_keys(ks, nm):
    return '[%s]' % '; '.join(nm.var(k) for k in ks)


def g_exprs(gs):
    out = 'ENil'
    for g in reversed(gs):
        out = '(ECons %s %s)' % (g, out)
    return out


def g_blk(stmts, final, nm):
    # written left to right so that the names are numbered in program order
    parts = []
    for st in stmts:
        if st[0] == 'exp':
            parts.append('BExp %s' % g_src(st[1], nm))
        else:
            p = st[1]
            if p[0] == 'var':
                e = g_src(st[3], nm)
                parts.append('BLet (Some %s) %s' % (nm.var(p[1]), e))
            elif p[0] == 'wild':
                parts.append('BLet None %s' % g_src(st[3], nm))
            elif p[0] == 'tuple' and all(q[0] in ('var', 'wild') for q in p[1]):
                e = g_src(st[3], nm)
                els = '; '.join('Some %s' % nm.var(q[1]) if q[0] == 'var' else 'None' for q in p[1])
                parts.append('BLetT [%s] [%s] %s' % ('; '.join(nm.var(k) for k in st[2]), els, e))
            elif top_ok(p):
                e = g_src(st[3], nm)
                parts.append('BLetP %s %s %s' % (g_pat(p, nm), g_keys(st[2], nm), e))
            else:
                raise Outside('let with an or-pattern of variables')
    out = 'BEndU' if final is None else '(BEndE %s)' % g_src(final, nm)
    for p in reversed(parts):
        out = '(%s %s)' % (p, out)
    return out


# ------------------------------------------------------------------ HIR -> Gallina (Syntax.hstmt)
class NotInModel(Exception):
    pass


def g_hexpr(e, nm):
    if e[0] == 'i':
        return '(HInt (%d))' % e[1]
    if e[0] == 'i31':
        return 'HI31'
    if e[0] == 's':
        return '(HStr %s)' % g_bytes(e[1])
    return '(HVar %s)' % nm.var(e[1])


def g_fas(fas, nm):
    return '[' + '; '.join('(%s, %s, %s)' % (nm.var(x), g_hexpr(a, nm), g_hexpr(b, nm)) for x, a, b in fas) + ']'


def g_hstmts(ss, nm):
    return '[' + '; '.join(g_hstmt(s, nm) for s in ss) + ']'


def g_hstmt(s, nm):
    k = s[0]
    if k == 'bin':
        return '(HBin %s %s %s %s)' % (nm.var(s[1]), BINOPS[s[2]], g_hexpr(s[3], nm), g_hexpr(s[4], nm))
    if k == 'not':
        return '(HNot %s %s)' % (nm.var(s[1]), g_hexpr(s[2], nm))
    if k == 'call':
        c = s[1]
        gc = '(HCFn %s)' % nm.fun(c[1], len(s[2])) if c[0] == 'fn' else '(HCVar %s)' % nm.var(c[1])
        return '(HCall %s [%s] %s)' % (gc, '; '.join(g_hexpr(a, nm) for a in s[2]),
                                       'None' if s[3] is None else '(Some %s)' % nm.var(s[3]))
    if k == 'if':
        return '(HIf %s %s %s %s)' % (g_hexpr(s[1], nm), g_hstmts(s[2], nm), g_hstmts(s[3], nm), g_fas(s[4], nm))
    if k == 'idx':
        return '(HIndex %s %s %d%%nat)' % (nm.var(s[1]), g_hexpr(s[2], nm), s[3])
    if k == 'decl':
        return '(HDecl %s)' % nm.var(s[1])
    if k == 'asg':
        return '(HAssign %s %s)' % (nm.var(s[1]), g_hexpr(s[2], nm))
    if k == 'closure':
        return '(HClosure %s %s %s)' % (nm.var(s[1]), nm.fun(s[2]), g_hexpr(s[3], nm))
    if k == 'struct':
        return '(HStruct %s [%s])' % (nm.var(s[1]), '; '.join(g_hexpr(a, nm) for a in s[2]))
    if k == 'destr':
        return '(HDestr %s %d%%nat [%s] %s %s %s)' % (g_hexpr(s[1], nm), s[2],
                                                     '; '.join('None' if b is None else 'Some %s' % nm.var(b) for b in s[3]),
                                                     g_hstmts(s[4], nm), g_hstmts(s[5], nm), g_fas(s[6], nm))
    raise NotInModel(k)


# ------------------------------------------------------------------ kinds (sanity evaluation)
ENUMS = {}


def g_kind(k, structs, depth=3):
    if k == 'int':
        return 'KInt'
    if k == 'bool':
        return 'KBool'
    if k == 'unit':
        return 'KUnit'
    if k == 'str':
        return 'KStr'
    if k == 'fn':
        return 'KFn'
    if isinstance(k, list) and k[0] == 'class':
        fs = structs.get(k[1])
        if fs is not None and depth > 0:
            return '(KStruct [%s])' % '; '.join(g_kind(f, structs, depth - 1) for f in fs)
        vs = ENUMS.get(k[1])
        if vs is not None and depth > 0:
            return '(KEnum [%s])' % '; '.join('[%s]' % '; '.join(g_kind(f, structs, depth - 1) for f in v) for v in vs)
        return 'KRef'
    return 'KRef'


BUILTIN_RESULTS = {'M:.Process.println': 'unit', 'M:.Str.fromInt': 'str', 'M:.Str.toInt': 'int'}


# ------------------------------------------------------------------ dump
def dump(jobs):
    chunks = [jobs[i::NCPU] for i in range(NCPU)]

    def run_chunk(c):
        if not c:
            return []
        rc, out = vh(['hirexpr-dump'], input='\n'.join(json.dumps(j) for j in c) + '\n', timeout=1200)
        return [json.loads(l) for l in out.splitlines() if l.startswith('{')]
    res = {}
    with concurrent.futures.ThreadPoolExecutor(max_workers=NCPU) as ex:
        for part in ex.map(run_chunk, chunks):
            for r in part:
                res[r.get('id')] = r
    return res


def eval_rows(ck, name, texts, ty, fn, width):
    """texts: list of Gallina case texts; returns list of rows (or None) in the same order"""
    order = sorted(range(len(texts)), key=lambda j: -len(texts[j]))
    nshard = max(1, min(NCPU, len(texts)))
    shards = [order[s::nshard] for s in range(nshard)]
    jobs = []
    for si, idxs in enumerate(shards):
        body = HEADER + 'Definition cs : list %s := [\n%s].\nEval vm_compute in (%s cs).\n' % (ty, ';\n'.join(texts[j] for j in idxs), fn)
        jobs.append(('c01expr_%s_%d' % (name, si), body))
    outs = coq_eval_many(jobs, timeout=900) if texts else []
    rows = [None] * len(texts)
    for si, (rc, o) in enumerate(outs):
        resl = coq_result(o) if rc == 0 else None
        if resl is None:
            ck.obligation('model-evaluation(C01expr %s shard %d)' % (name, si), False, o[-600:])
            continue
        got = [[int(x) for x in re.findall(r'(\d+)%N', g)] for g in re.findall(r'\[([^\[\]]*)\]', resl)]
        if len(got) != len(shards[si]) or any(len(r) != width for r in got):
            ck.obligation('model-evaluation(C01expr %s shard %d)' % (name, si), False,
                          'expected %d rows of %d, got %d' % (len(shards[si]), width, len(got)))
            continue
        for j, row in zip(shards[si], got):
            rows[j] = row
    return rows


def programs(tier, seed):
    rng = Rng(seed ^ 0xC01E)
    n_order, n_gen, n_infer = (60, 40, 12) if tier == 'quick' else (900, 500, 120)
    out = []
    for i in range(n_order):
        out.append(('order:%d' % i, progs.gen_order_program(rng.fork(), nfun=8)))
    for i in range(n_gen):
        out.append(('gen:%d' % i, progs.gen_program(rng.fork())))
    for i in range(n_infer):
        out.append(('infer:%d' % i, progs.gen_infer_program(rng.fork())))
    return out


FIXED = [
    # scopes that lower_if_else leaves on the stack (constant conditions), sibling blocks that reuse a name, unit calls,
    # shortcuts of && / || with a literal on the left, folded and unfolded `::`
    ('fixed:scopes', '''class Main {
  function p(s: Str): unit = Process.println(s)
  function tb(tag: int, v: bool): bool = { Process.println("b" :: Str.fromInt(tag)); v }
  function a(x: int): int = { let y = if true { let z = x + 1; z * 2 } else { 0 }; let w = { let z = y - 1; z }; y + w }
  function b(x: int): int = { let u = { let z = 1; if false { z } else { let q = z + x; q } }; { let z = u; let q = z; q + u } }
  function c(f: bool): bool = (true && Main.tb(1, f)) || (false || Main.tb(2, !f)) || (false && Main.tb(3, f)) || (true || Main.tb(4, f))
  function d(f: bool): bool = (Main.tb(1, f) && true) || (Main.tb(2, f) && false) || (Main.tb(3, f) || true) && (Main.tb(4, f) || false)
  function e(s: Str): Str = ("a" :: "b") :: s :: ("c" :: s) :: "d"
  function g(x: int): unit = { Main.p("x"); if x > 0 { Main.p("pos") } else { Main.p("neg") } }
  function h(x: int): int = if x > 0 { 1 } else if x < 0 { -1 } else { 0 }
  function i(x: int): int = { let _ = Main.tb(7, true); let _ = x; -x + (if !(x == 0) { 1 } else { 2 }) }
  function main(): unit = { Main.g(Main.a(1) + Main.b(2) + Main.h(3) + Main.i(4)); Main.p(Main.e("s")); let _ = Main.c(true); let _ = Main.d(false); }
}
'''),
    # lambdas: nothing captured, several captured, `this` captured (renamed inside the synthetic function), nested lambdas that capture
    # a parameter of the outer lambda and `this`, a lambda in a dead operand; tuple patterns with wildcards and repeated use
    # patterns: out-of-order object pattern, nested tuple / object / variant / or patterns, else-if-let chains, matches inside match arms, a pattern site
    # inside a lambda, effects in scrutinee and arms
    ('fixed:patterns', '''class P(val a: int, val b: int) {}
class E(A(int, P), B, C(E)) {}
class Q(val e: E, val p: P) {}
class Main {
  function t(tag: int, v: int): int = { Process.println("t" :: Str.fromInt(tag)); v }
  function f(v: E): int = match v { A(x, { b as y, a as z }) -> x + y - z, B | C(B) -> 1, C(A(k, _) | C(A(k, _))) -> k, _ -> 0 }
  function g(v: Q): int = if let { p as { b, a as q }, e as B } = v { q + b } else { 0 }
  function h(v: P): int = { let (a, b) = v; let w = { let { a as z, b as _ } = v; z }; w + b + Main.t(1, a) }
  function k(v: E): int = if let A(_, (_, x)) = v { x } else if let C(C(A(y, _)) | A(y, _)) = v { y } else { 2 }
  function m(v: Q): int = match v { { e as A(n, (p, q)), p as (r, s) } -> match v { _ -> n + p + q + r + s }, (C(w), _) -> match w { B -> 4, _ -> 5 }, _ -> 6 }
  function n(v: E, u: int): (int) -> int = (d) -> match v { A(x, _) -> Main.t(2, x + d + u), _ -> if let C(B) = v { d } else { u } }
  function o(v: Q): int = { let { e, p as (a, _) } = v; match (Main.t(3, a), e) { (z, A(x, _)) -> z + x, (z, _) -> Main.t(4, z) } }
  function main(): unit = {
    let p = P.init(1, 2);
    let q = Q.init(E.A(3, p), p);
    Process.println(Str.fromInt(Main.f(E.C(E.A(4, p))) + Main.g(q) + Main.h(p) + Main.k(E.B()) + Main.m(q) + Main.n(E.B(), 5)(6) + Main.o(q)));
  }
}
'''),
    ('fixed:lambdas', '''class Acc(val v: int, val w: int) {
  method add(k: int): (int) -> int = (x) -> this.v + x + k
  method curried(): (int) -> (int) -> int = (a) -> (b) -> this.v * a + this.w * b
  method sum(): int = { let (a, b) = (this.w, this.v); let (_, c) = (a, b); let (d, _, e) = (c, a, b); a + b + c + d + e }
  function konst(): () -> int = () -> 7
  function apply(f: (int) -> int, x: int): int = f(x)
  function both(x: int, y: int, z: bool): int = { let f = (p: int) -> if z { p + x } else { p - y }; Acc.apply(f, x) + Acc.apply((q) -> q * y, y) }
  function dead(x: int): bool = false && Acc.apply((q) -> q + x, 1) > 0
}
class Main {
  function main(): unit = {
    let a = Acc.init(3, 4);
    Process.println(Str.fromInt(a.add(1)(2) + a.curried()(5)(6) + a.sum() + Acc.konst()() + Acc.both(1, 2, true)));
    let _ = Acc.dead(1);
  }
}
'''),
]


def expr(ck, tier, seed):
    check_props(ck, 'theories/C01expr/Props.v')
    gens = programs(tier, seed)
    jobs = [{'id': jid, 'sources': g['sources'], 'with_std': True} for jid, g in gens]
    jobs += [{'id': jid, 'sources': {'Main': t}, 'with_std': True} for jid, t in FIXED]
    srcs = {j['id']: j['sources'] for j in jobs}
    res = dump(jobs)

    tie_texts, tie_meta = [], []
    san_texts, san_meta = [], []
    lam_texts, lam_meta = [], []
    cov = {}                     # family -> [bodies, bodies in fragment, nodes, nodes in fragment bodies]
    outside = {}
    node_all, node_in = {}, {}
    rejected = 0
    retry = []

    def process(jid, r, f, nn, acc, c, structs, rk_of, assign):
        """translate one body; None = in the fragment (texts appended), else the reason it is outside"""
        nm = Names(r['constructors'], r['concat'])
        lcases = []
        try:
            gparams = [nm.var(p) for p in f['params']]
            nm.lams = Lams(f['stmts'], r.get('synthetic_functions', {}), lcases, assign=assign)
            gsrc = g_src(f['src'], nm)
            nm.lams.done()
        except Outside as e:
            return str(e)
        c[1] += 1
        c[3] += nn
        for k, v in acc.items():
            node_in[k] = node_in.get(k, 0) + v
        try:
            gs, gr = g_hstmts(f['stmts'], nm), g_hexpr(f['ret'], nm)
        except NotInModel as e:
            ck.disagree('C01expr: Lower.lower_body == real HIR', {'job': jid, 'function': f['name'], 'source': srcs[jid]},
                        'a statement form of the model', 'real HIR contains %s' % e)
            return None
        tie_texts.append('([%s], %s, %s, %s)' % ('; '.join(gparams), gsrc, gs, gr))
        tie_meta.append((jid, f['name'], nn, json.dumps(f['src'], sort_keys=True)))
        for text, kf in lcases:
            lam_texts.append(text)
            lam_meta.append((jid, '%s / _GenFn.%d' % (f['name'], kf)))
        # sanity evaluation: typed parameters and the world table
        pk = ([['class', f['class']]] if f.get('method') else ['unit']) + f.get('pk', [])
        if len(pk) == len(f['params']):
            gp = '[%s]' % '; '.join('(%s, %s)' % (nm.var(p), g_kind(k, structs)) for p, k in zip(f['params'], pk))
            tab = []
            for fn_name, fidn in sorted(nm.funs.items(), key=lambda kv: kv[1]):
                if fn_name in rk_of:
                    tab.append('(%d%%N, Some %s)' % (fidn, g_kind(rk_of[fn_name], structs)))
                elif fn_name in BUILTIN_RESULTS:
                    b = BUILTIN_RESULTS[fn_name]
                    tab.append('(%d%%N, %s)' % (fidn, 'None' if b is None else 'Some %s' % g_kind(b, structs)))
            san_texts.append('(%s, %s, %s, %s, [%s])' % (gp, gsrc, gs, gr, '; '.join(tab)))
            san_meta.append((jid, f['name']))
        return None

    for j in jobs:
        jid = j['id']
        fam = jid.split(':')[0]
        r = res.get(jid)
        if r is None or 'functions' not in r:
            if r is not None and r.get('rejected') and fam != 'fixed':
                rejected += 1
                continue
            ck.obligation('hirexpr-dump(%s)' % jid, False, json.dumps(r)[:400])
            continue
        c = cov.setdefault(fam, [0, 0, 0, 0])
        structs = r.get('structs', {})
        ENUMS.clear()
        ENUMS.update({k2: v2 for k2, v2 in r.get('enums', {}).items() if v2 is not None})
        rk_of = {f['name']: f.get('rk') for f in r['functions'] if 'rk' in f}
        for f in r['functions']:
            if f.get('missing'):
                ck.disagree('C01expr: class member without HIR function', {'job': jid, 'function': f['name']}, 'present', 'missing')
                continue
            acc = {}
            count_nodes(f['src'], acc)
            nn = sum(v for k, v in acc.items() if not k.startswith('let ') and k != 'if-let guard')
            c[0] += 1
            c[2] += nn
            for k, v in acc.items():
                node_all[k] = node_all.get(k, 0) + v
            reason = process(jid, r, f, nn, acc, c, structs, rk_of, None)
            if reason == MISMATCH:
                retry.append((jid, r, f, nn, acc, c, structs, rk_of))
            elif reason is not None:
                outside[reason] = outside.get(reason, 0) + 1

    # ---- bodies with a lambda whose ClosureInit is dropped: which lambdas survive in the model output?
    if retry:
        jobs2 = []
        for i, (jid, r, f, nn, acc, c, structs, rk_of) in enumerate(retry):
            nm = Names(r['constructors'], r['concat'])
            nm.lams = Lams(f['stmts'], r.get('synthetic_functions', {}), [], assign='prov')
            try:
                gparams = [nm.var(p) for p in f['params']]
                gsrc = g_src(f['src'], nm)
                jobs2.append(('c01expr_surv_%d' % i, HEADER + 'Eval vm_compute in (surviving ([%s], %s)).\n' % ('; '.join(gparams), gsrc)))
            except Outside:
                jobs2.append(('c01expr_surv_%d' % i, HEADER + 'Eval vm_compute in (@nil N).\n'))
        outs = coq_eval_many(jobs2, timeout=300)
        for (jid, r, f, nn, acc, c, structs, rk_of), (rc, o) in zip(retry, outs):
            res1 = coq_result(o) if rc == 0 else None
            ks = closure_numbers(f['stmts'], [])
            surv = [int(z) - 900000 for z in re.findall(r'(\d+)%N', res1 or '')]
            reason = MISMATCH
            if res1 is not None and len(surv) == len(ks) and surv == sorted(surv):
                total = count_lambdas_top(f['src'])
                assign = [None] * total
                for idx, kk in zip(surv, ks):
                    if idx < total:
                        assign[idx] = kk
                reason = process(jid, r, f, nn, acc, c, structs, rk_of, assign)
                if reason is None:
                    ck.count('bodies with a lambda lowered in dropped code (numbered through the model)')
            if reason is not None:
                outside[reason] = outside.get(reason, 0) + 1

    # ---- the tie
    rows = eval_rows(ck, 'tie', tie_texts, 'fcase', 'tie_fns', 4)
    nsame = 0
    bad = []
    for (jid, fname, nn, canon), row, text in zip(tie_meta, rows, tie_texts):
        if row is None:
            continue
        ck.case(['tie', canon], nontrivial=nn > 1)          # the source body (temporary numbers vary from run to run)
        if row[0] != 0:
            bad.append((jid, fname, text))
        else:
            nsame += 1
        if row[1] != 1:
            ck.disagree('C01expr: hypothesis `ns` (no let rebinds a visible name) on a checked body',
                        {'job': jid, 'function': fname, 'source': srcs[jid]}, 'true', 'false')
        ck.count('temporaries drawn per body: %s' % ('0' if row[2] == 0 else '1-5' if row[2] <= 5 else '6-20' if row[2] <= 20 else '>20'))
    if bad:
        # which version does the tree implement? (the model of the seeded change C01-7)
        rows7 = eval_rows(ck, 'tie7', [t for _, _, t in bad], 'fcase', 'tie_fns_seeded7', 4)
        shown = eval_models(ck, [t for _, _, t in bad[:3]])
        for k, (jid, fname, text) in enumerate(bad):
            is7 = rows7[k] is not None and rows7[k][0] == 0
            ck.disagree('C01expr: Lower.lower_body == real HIR',
                        {'job': jid, 'function': fname, 'source': srcs[jid]},
                        shown[k] if k < len(shown) else 'model output differs',
                        'real HIR differs' + (' - and EQUALS the model of the seeded shortcut C01-7 (Lower.Seeded7: statements of the '
                                              'right operand of && / || dropped when its value is a literal)' if is7 else ''),
                        how='coqc on work/c01expr_tie_*.v; Corr.model_of prints the model output')
    ck.count('bodies whose real HIR equals the model output', nsame)

    # ---- the synthetic functions of the lambdas
    lrows = eval_rows(ck, 'lambda', lam_texts, 'lcase', 'tie_lambdas', 4)
    lsame = 0
    lbad = []
    for (jid, fname), row, text in zip(lam_meta, lrows, lam_texts):
        if row is None:
            continue
        ck.case(['lambda', jid, fname.split(' / ')[0]], nontrivial=False)
        if row[0] != 0:
            lbad.append((jid, fname, text))
        else:
            lsame += 1
        if row[1] != 1:
            ck.disagree('C01expr: hypothesis `ns` on the body of a lambda', {'job': jid, 'function': fname, 'source': srcs[jid]}, 'true', 'false')
    if lbad:
        jobs2 = [('c01expr_lshow_%d' % i, HEADER + 'Eval vm_compute in (lmodel_of %s).\n' % t) for i, (_, _, t) in enumerate(lbad[:3])]
        shown = [(coq_result(o) or o[-400:])[:1500] for rc, o in coq_eval_many(jobs2, timeout=300)]
        for k2, (jid, fname, text) in enumerate(lbad):
            ck.disagree('C01expr: Lower.lambda_fn == real synthetic function', {'job': jid, 'function': fname, 'source': srcs[jid]},
                        shown[k2] if k2 < len(shown) else 'model output differs', 'real synthetic function differs')
    ck.count('synthetic functions of lambdas whose real HIR equals the model output', lsame)

    # ---- sanity evaluation on the real statements
    salts = '[1; 2; 3; 4; 5; 6]%N' if tier == 'quick' else '[1; 2; 3; 4; 5; 6; 7; 8; 9; 10; 11; 12; 13; 14; 15; 16]%N'
    srows = eval_rows(ck, 'sanity', san_texts, 'scase', 'sanity_fns %s' % salts, 4)
    tot = [0, 0, 0, 0]
    for (jid, fname), row in zip(san_meta, srows):
        if row is None:
            continue
        for i in range(4):
            tot[i] += row[i]
        ck.evaluations += sum(row)
        if row[3]:
            ck.disagree('C01expr: SrcSem(body) == HirSem(real statements)', {'job': jid, 'function': fname, 'source': srcs[jid]},
                        'same value / ending and same trace', '%d of %d instances differ' % (row[3], sum(row)))
    ck.count('sanity instances: same value and trace', tot[0])
    ck.count('sanity instances: same trap / abort and trace', tot[1])
    ck.count('sanity instances: source run stuck (ill-shaped random value; nothing claimed)', tot[2])

    # ---- coverage
    for fam, c in sorted(cov.items()):
        ck.count('fragment coverage %s: bodies %d/%d, expression nodes %d/%d' % (fam, c[1], c[0], c[3], c[2]))
    tb = [sum(c[i] for c in cov.values()) for i in range(4)]
    ck.extra_cov['c01expr_fragment'] = {
        'bodies': tb[0], 'bodies_in_fragment': tb[1], 'nodes': tb[2], 'nodes_in_fragment_bodies': tb[3],
        'per_family': {fam: {'bodies': c[0], 'in_fragment': c[1], 'nodes': c[2], 'nodes_in_fragment': c[3]} for fam, c in cov.items()},
        'outside_reasons (first obstacle per body)': outside,
        'nodes_by_constructor (all bodies)': node_all,
        'nodes_by_constructor (bodies in the fragment)': node_in,
        'programs_rejected_by_the_checker': rejected,
    }
    ck.notes.append('C01expr fragment: %d/%d bodies, %d/%d expression nodes; outside (first obstacle): %s'
                    % (tb[1], tb[0], tb[3], tb[2], json.dumps(outside, sort_keys=True)))
    if tb[1] == 0:
        ck.obligation('C01expr: some body in the fragment', False, 'no function body could be translated')
    return {'bodies': tb[0], 'in_fragment': tb[1], 'nodes': tb[2], 'nodes_in': tb[3], 'same': nsame, 'bad': len(bad), 'sanity': tot,
            'lambdas_same': lsame, 'lambdas_bad': len(lbad)}


def eval_models(ck, texts):
    jobs = [('c01expr_show_%d' % i, HEADER + 'Eval vm_compute in (model_of %s).\n' % t) for i, t in enumerate(texts)]
    outs = coq_eval_many(jobs, timeout=300)
    return [(coq_result(o) or o[-400:])[:1500] for rc, o in outs]


def run(tier='quick', seed=1, replay=None):
    if not vlib.ALT:
        vlib.OUT_ROOT = os.path.join(vlib.ROOT, 'work', 'c01expr')      # evidence / replay of the standalone run: never /verif/evidence
    ck = Check('C01', tier, seed, level='proof')
    ck.pid = 'C01expr'
    ck.checker_cmd = 'make -C /verif/coq theories/C01expr/Props.vo (coqc 8.16.1) + Print Assumptions per theorem'
    ck.trusted = ['Coq 8.16.1 kernel; no axioms',
                  'hand-written model theories/C01expr/{Syntax,Lower}.v of hir_lowering.rs lower / lower_binary / lower_if_else / lower_block / '
                  'lower_fn_call / ...; tie: Lower.lower_body run on every dumped source body of the fragment must give the real HIR statements '
                  '(vh hirexpr-dump through the hook samlang_compiler::verif::compile_sources_to_hir); the printer harness/src/hirexpr_dump.rs and '
                  'the translation to Gallina terms in checks/c01_expr.py (a wrong translation shows as a disagreement)',
                  'the semantics SrcSem.v (read off spec.md 6.15 and harness/src/srcsem.rs) and HirSem.v (read off hir.rs) are hand-written; '
                  'calls of named functions are answered by an oracle, so the theorem is per function body']
    ck.rule = ('cases = function bodies of generated programs (gen_order_program, gen_program, gen_infer_program) and two fixed programs inside the '
               'fragment, and the synthetic functions of their lambdas; distinct = distinct source bodies with more than one expression node; '
               'evaluations include the sanity instances SrcSem vs HirSem on the real statements')
    expr(ck, tier, seed)
    return ck.finish()


if __name__ == '__main__':
    import sys
    sys.exit(run(sys.argv[1] if len(sys.argv) > 1 else 'quick', int(sys.argv[2]) if len(sys.argv) > 2 else 1))
