"""C01, loop-lowering slice (coq/theories/C01loop): lir_lowering.rs lowers a MIR `While`, whose loop variables
are updated simultaneously, to a LIR `While` whose updates both back ends emit one after another; loop values
that read another loop variable of the same loop are saved in temporaries at the end of the body.

Layer A: theories/C01loop/Props.v (`C01loop_lower_preserves`: for every program of the fragment).
Layer B: `vh lir-dump` prints every MIR While of compiled programs (optimised and unoptimised MIR) next to the
  LIR While the real `compile_mir_to_lir` produced; the Gallina `lower_stmt` is run on the MIR loop inside coqc
  (vm_compute) and must produce exactly the real LIR loop, given the real temporaries as name supply (their
  freshness is checked in Gallina as well, and so is the hypothesis `wf` of the theorem); sem_mir / sem_lir are
  run on both as instances.  Side condition outside the type-erased model: the `Cast` that saves a loop value
  must have the declared type of the loop variable (otherwise it is a checked down-cast in WebAssembly).
Layer C: generated permuting tail calls over int and non-int parameters, source semantics vs wasm vs TS.

`loop(ck, tier, seed)` is called from checks/c01.py; `run()` is a standalone wrapper (evidence/C01loop.json).

Open finding while this was written (exit 1 until repaired or registered): the saving temporary takes the type of the
loop VALUE expression, which lower_expression does not lower (an enum with i31 / unboxed variants stays Id(enum) while
the loop variable is AnyPointer): a swap of two such parameters traps in WebAssembly ("illegal cast").  Witness:
work/c01loop/witness-enum-swap.sam; candidate repair: work/c01loop/fix-saved-loop-value-type.diff.
"""
import concurrent.futures
import json
import os
import re

from gen.progs import gen_program
from gen.rng import Rng
from lib.e2e import run_pipeline, same_behaviour
from lib.vlib import Check, NCPU, check_props, coq_eval_many, coq_result, vh

HEADER = ('From Coq Require Import ZArith NArith List Bool. Import ListNotations.\n'
          'From SV Require Import Common.Int32 C01loop.Syntax C01loop.Sem C01loop.Lower C01loop.Corr.\n'
          'Open Scope Z_scope.\n')
OTHER_BASE = 10 ** 10          # constants that are not Int32 literals (outside the int32 range: no clash)


# ------------------------------------------------------------------ JSON (vh lir-dump) -> Gallina
class Names:
    """Numbers for the names of one loop: MIR names 1.. in order of first occurrence, then the LIR-only names
    (the temporaries lir_lowering drew) in the order of the heap's counter."""

    def __init__(self):
        self.num = {}
        self.codes = {}
        self.others = {}

    def name(self, s):
        if s not in self.num:
            self.num[s] = len(self.num) + 1
        return self.num[s]

    def code(self, s):
        return self.codes.setdefault(s, len(self.codes) + 1)

    def other(self, s):
        return OTHER_BASE + self.others.setdefault(s, len(self.others))


def collect_names(s, out):
    """names of a dumped statement, in order of first occurrence"""
    def ex(e):
        if e[0] == 'v' and e[1] not in out:
            out.append(e[1])

    def nm(x):
        if x is not None and x not in out:
            out.append(x)
    k = s[0]
    if k == 'bin':
        nm(s[1]); ex(s[3]); ex(s[4])
    elif k == 'cast':
        nm(s[1]); ex(s[2])
    elif k == 'op':
        nm(s[1])
        for a in s[3]:
            ex(a)
    elif k == 'if':
        ex(s[1])
        for t in s[2] + s[3]:
            collect_names(t, out)
        for fa in s[4]:
            nm(fa[0]); ex(fa[1]); ex(fa[2])
    elif k == 'sif':
        ex(s[1])
        for t in s[3]:
            collect_names(t, out)
    elif k == 'brk':
        ex(s[1])
    elif k == 'while':
        for lv in s[1]:
            nm(lv[0]); ex(lv[1]); ex(lv[2])
        for t in s[2]:
            collect_names(t, out)
        nm(s[3])


def g_expr(e, nm):
    if e[0] == 'i':
        return '(EInt (%d))' % e[1]
    if e[0] == 'o':
        return '(EInt (%d))' % nm.other(e[1])
    return '(EVar %d%%N)' % nm.name(e[1])


def g_triples(ts, nm):
    return '[' + '; '.join('(%d%%N, %s, %s)' % (nm.name(t[0]), g_expr(t[1], nm), g_expr(t[2], nm)) for t in ts) + ']'


def g_optname(x, nm):
    return 'None' if x is None else '(Some %d%%N)' % nm.name(x)


def g_stmts(ss, nm):
    return '[' + '; '.join(g_stmt(s, nm) for s in ss) + ']'


def g_stmt(s, nm):
    k = s[0]
    if k == 'bin':
        return '(SBin %d%%N %s %s %s)' % (nm.name(s[1]), s[2], g_expr(s[3], nm), g_expr(s[4], nm))
    if k == 'cast':
        return '(SCast %d%%N %s)' % (nm.name(s[1]), g_expr(s[2], nm))
    if k == 'op':
        return '(SOp %s %d%%N [%s])' % (g_optname(s[1], nm), nm.code(s[2]), '; '.join(g_expr(a, nm) for a in s[3]))
    if k == 'if':
        return '(SIf %s %s %s %s)' % (g_expr(s[1], nm), g_stmts(s[2], nm), g_stmts(s[3], nm), g_triples(s[4], nm))
    if k == 'sif':
        return '(SSIf %s %s %s)' % (g_expr(s[1], nm), 'true' if s[2] else 'false', g_stmts(s[3], nm))
    if k == 'brk':
        return '(SBreak %s)' % g_expr(s[1], nm)
    if k == 'while':
        return '(SWhile %s %s %s)' % (g_triples(s[1], nm), g_stmts(s[2], nm), g_optname(s[3], nm))
    raise ValueError(k)


def temp_order(name):
    m = re.search(r'(\d+)$', name)
    return (int(m.group(1)) if m else 1 << 60, name)


def g_case(mir, lir):
    """(Gallina triple, number of temporaries, strict fragment?)"""
    nm = Names()
    mnames, lnames = [], []
    collect_names(mir, mnames)
    collect_names(lir, lnames)
    for x in mnames:
        nm.name(x)
    supply = sorted((x for x in lnames if x not in nm.num), key=temp_order)
    sup = [nm.name(x) for x in supply]
    gm = g_stmt(mir, nm)
    gl = g_stmt(lir, nm)
    return '(%s,\n  %s,\n  [%s])' % (gm, gl, '; '.join('%d%%N' % x for x in sup)), len(sup)


def size(s):
    k = s[0]
    if k == 'if':
        return 1 + sum(size(t) for t in s[2] + s[3])
    if k == 'sif':
        return 1 + sum(size(t) for t in s[3])
    if k == 'while':
        return 1 + len(s[1]) + sum(size(t) for t in s[2])
    return 1


def uses_op(s):
    k = s[0]
    if k == 'op':
        return True
    if k == 'if':
        return any(uses_op(t) for t in s[2] + s[3])
    if k in ('sif', 'while'):
        return any(uses_op(t) for t in (s[3] if k == 'sif' else s[2]))
    return False


def nested(s, inside=False):
    k = s[0]
    if k == 'while':
        return inside or any(nested(t, True) for t in s[2])
    if k == 'if':
        return any(nested(t, inside) for t in s[2] + s[3])
    if k == 'sif':
        return any(nested(t, inside) for t in s[3])
    return False


def single_assignment(s):
    """every name of the loop is defined at most once (loop variable, Binary / operation target, final assignment,
    break collector), `name := e` statements (Cast, LateInitAssignment) aside, which may repeat among themselves"""
    defs, casts = [], set()

    def go(s):
        k = s[0]
        if k == 'bin':
            defs.append(s[1])
        elif k == 'cast':
            casts.add(s[1])
        elif k == 'op':
            if s[1] is not None and s[2] != 'decl':
                defs.append(s[1])
        elif k == 'if':
            for t in s[2] + s[3]:
                go(t)
            defs.extend(fa[0] for fa in s[4])
        elif k == 'sif':
            for t in s[3]:
                go(t)
        elif k == 'while':
            defs.extend(lv[0] for lv in s[1])
            for t in s[2]:
                go(t)
            if s[3] is not None:
                defs.append(s[3])
    go(s)
    return len(defs) == len(set(defs)) and not (casts & set(defs))


# ------------------------------------------------------------------ programs
TYPES = {
    # name -> (declaration, values, observer of an expression of the type as an int)
    'int': ('', ['Main.inp("%d")' % k for k in (1, 2, 3, 5, 8)], lambda e: e),
    'Opt': ('class Opt(Non, Som(int), Two(int, int)) {\n  method v(): int = match this { Non -> 0 - 1, Som(x) -> x, Two(x, y) -> x * 10 + y }\n}\n',
            ['Opt.Non()', 'Opt.Som(7)', 'Opt.Two(2, 3)', 'Opt.Som(Main.inp("4"))', 'Opt.Non()'], lambda e: '%s.v()' % e),
    'Flag': ('class Flag(Up, Down) {\n  method v(): int = match this { Up -> 1, Down -> 2 }\n}\n',
             ['Flag.Up()', 'Flag.Down()', 'Flag.Up()', 'Flag.Down()', 'Flag.Down()'], lambda e: '%s.v()' % e),
    'Bx': ('class Bx(val a: int, val b: int) {\n  method v(): int = this.a * 10 + this.b\n}\n',
           ['Bx.init(1, 2)', 'Bx.init(3, 4)', 'Bx.init(Main.inp("5"), 6)', 'Bx.init(7, 8)', 'Bx.init(9, 0)'], lambda e: '%s.v()' % e),
    'Str': ('', ['"1"', '"23"', '"456"', 'Str.fromInt(Main.inp("12"))', '"7"'], lambda e: '%s.toInt()' % e),
}


def gen_perm_program(r, ty):
    """Self tail-recursive functions whose tail call permutes / cross-feeds parameters of type `ty`."""
    decl, values, obs = TYPES[ty]
    funs, prints = [], []
    nfun = r.range(2, 3)
    for fi in range(nfun):
        k = r.range(2, 5)
        ps = ['p%d' % i for i in range(k)]
        shape = r.pick([0, 1, 2, 3, 3, 4, 5, 6, 6])

        def arg(j):
            c = r.below(10)
            if c < 6:
                return r.pick(ps)                      # another (or the same) parameter, unchanged
            if c < 7:
                return ps[j]
            if ty == 'int':
                return r.pick(['%s + 1' % r.pick(ps), '%s + %s' % (r.pick(ps), r.pick(ps)), '%s * 2' % r.pick(ps), '3', 'n'])
            return r.pick(values)
        if shape == 0:
            args = r.shuffle(ps)                       # a permutation
        elif shape == 1:
            args = ps[1:] + ps[:1]                     # rotation: a := b, b := c, c := a
        elif shape == 2:
            args = ps[-1:] + ps[:-1]                   # the other rotation
        else:
            args = [arg(j) for j in range(k)]
        base = ' + '.join('%s * %d' % (obs(p), 10 ** (len(ps) - 1 - i) % 1000 + 1) for i, p in enumerate(ps))
        name = 'f%d' % fi
        call = 'Main.%s(%s, n - 1)' % (name, ', '.join(args))
        exit_cond = r.pick(['n <= 0', 'n == 0', '0 >= n'])
        if shape == 4:
            # a conditional exit in front of the tail call that usually does not fire
            call = 'if %s == 123456 { 7 } else { %s }' % (obs(ps[0]), call)
        elif shape == 5:
            # two different tail calls: the arguments become final assignments of an IfElse
            args2 = r.shuffle(ps)
            call = 'if n %% 2 == 0 { %s } else { Main.%s(%s, n - 1) }' % (call, name, ', '.join(args2))
        elif shape == 6:
            # a loop inside the loop: the small swapping loop `sw` is inlined by the optimiser into this loop's body
            args = list(args)
            args[r.below(k)] = 'Main.sw(%s, %s, %s)' % (r.pick(ps), r.pick(ps), r.pick(['n', 'n', 'n + 1', 'n - 1']))
            call = 'Main.%s(%s, n - 1)' % (name, ', '.join(args))
        params = ', '.join('%s: %s' % (p, ty) for p in ps)
        if r.chance(1, 2):
            body = 'if %s { %s } else { %s }' % (exit_cond, base, call)
        else:
            inv = {'n <= 0': 'n > 0', 'n == 0': 'n != 0', '0 >= n': '0 < n'}[exit_cond]
            body = 'if %s { %s } else { %s }' % (inv, call, base)
        funs.append(('  function %s(%s, n: int): int = %s' % (name, params, body), k))
        for it in r.shuffle([0, 1, 2, 3, 5])[:3]:
            vs = r.shuffle(values)[:k] if len(values) >= k else [r.pick(values) for _ in range(k)]
            prints.append('    Process.println(Str.fromInt(Main.%s(%s, Main.inp("%d"))));' % (name, ', '.join(vs), it))
    text = (decl + 'class Main {\n  function inp(s: Str): int = s.toInt()\n'
            + '  function sw(a: %s, b: %s, n: int): %s = if n <= 0 { a } else { Main.sw(b, a, n - 1) }\n' % (ty, ty, ty)
            + '\n'.join(f for f, _ in funs) + '\n  function main(): unit = {\n' + '\n'.join(prints) + '\n  }\n}\n')
    return {'sources': {'Main': text}, 'entry': 'Main', 'features': ['perm:' + ty]}


def programs(tier, seed):
    rng = Rng(seed ^ 0xC0110)
    progs = []
    cdir = '/verif/corpus/C01'
    for fn in sorted(os.listdir(cdir)) if os.path.isdir(cdir) else []:
        if fn.endswith('.sam'):
            progs.append({'sources': {'Main': open(os.path.join(cdir, fn)).read()}, 'entry': 'Main', 'features': ['corpus:' + fn]})
    n = 60 if tier == 'quick' else 900
    for i in range(n):
        r = rng.fork()
        progs.append(gen_program(r, {'big': i % 5 == 0, 'nfun': 5, 'depth': 2 + i % 2, 'loops': True, 'closures': i % 4 == 1,
                                     'vec': i % 6 == 2, 'strings': i % 7 == 3, 'interfaces': i % 2 == 1, 'loop_focus': i % 3 != 2,
                                     'avoid_known_iv': True}))
    m = 60 if tier == 'quick' else 900
    tys = ['int', 'int', 'int', 'Opt', 'Flag', 'Bx', 'Str', 'int']
    for i in range(m):
        progs.append(gen_perm_program(rng.fork(), tys[i % len(tys)]))
    return progs


def dump(progs):
    jobs = []
    for i, p in enumerate(progs):
        for opt in (True, False):
            jobs.append({'id': [i, opt], 'sources': p['sources'], 'entry': p['entry'], 'opt': opt})
    chunks = [jobs[i::NCPU] for i in range(NCPU)]

    def run_chunk(c):
        if not c:
            return []
        rc, out = vh(['lir-dump'], input='\n'.join(json.dumps(j) for j in c) + '\n', timeout=1200)
        return [json.loads(l) for l in out.splitlines() if l.startswith('{')]
    res = {}
    with concurrent.futures.ThreadPoolExecutor(max_workers=NCPU) as ex:
        for part in ex.map(run_chunk, chunks):
            for r in part:
                if isinstance(r.get('id'), list):
                    res[(r['id'][0], r['id'][1])] = r
    return res


# ------------------------------------------------------------------ the check
def loop(ck, tier, seed):
    check_props(ck, 'theories/C01loop/Props.v')
    progs = programs(tier, seed)
    res = dump(progs)
    cases = []                # (program index, opt, loop record, gallina text, ntemps)
    nloops = outside = 0
    reasons = {}
    seen = set()
    for (i, opt), r in sorted(res.items()):
        p = progs[i]
        for key in ('lowering_panic', 'optimizer_panic', 'lir_lowering_panic', 'harness_panic'):
            if key in r:
                if key == 'lir_lowering_panic':
                    ck.property_failure('compile_mir_to_lir panicked: ' + r[key][:200], {'sources': p['sources'], 'entry': p['entry'], 'opt': opt})
                ck.count('loop:program:' + key)
        for L in r.get('loops', []):
            nloops += 1
            where = {'sources': p['sources'], 'entry': p['entry'], 'function': L['function'], 'loop': L['index'], 'optimised_mir': opt}
            if L.get('count_mismatch'):
                ck.disagree('C01loop: number of While statements of a function before / after compile_mir_to_lir', where,
                            L['count_mismatch'][0], L['count_mismatch'][1])
                continue
            for ct in L['cast_types']:
                ck.count('loop:saved-loop-values')
                if not ct['same']:
                    ck.count('loop:saved-loop-value-cast-to-another-type')
                    key = (ct['variable_type'], ct['cast_type'])
                    if key not in seen:
                        seen.add(key)
                        ck.disagree('C01loop: the Cast that saves a loop value has the type of the loop variable (a move, not a down-cast)',
                                    dict(where, loop_variable=ct['loop_variable'], temporary=ct['temporary']),
                                    'cast to ' + ct['variable_type'], 'cast to ' + ct['cast_type'],
                                    how='vh lir-dump; lir_lowering.rs While: the temporary takes the type of the loop VALUE expression '
                                        '(lower_expression keeps Id(enum)) while the loop variable has lower_type(..) = AnyPointer')
            if L['outside']:
                outside += 1
                reasons[L['outside']] = reasons.get(L['outside'], 0) + 1
                continue
            text, nt = g_case(L['mir'], L['lir'])
            cases.append((i, opt, L, text, nt))
    infrag = len(cases)
    strict = sum(1 for c in cases if not uses_op(c[2]['mir']))
    ck.extra_cov['loop_loops'] = nloops
    ck.extra_cov['loop_loops_in_fragment'] = infrag
    ck.extra_cov['loop_loops_in_fragment_without_opaque_operations'] = strict
    ck.extra_cov['loop_fragment_coverage'] = round(infrag / nloops, 3) if nloops else 0
    ck.extra_cov['loop_outside_reasons'] = reasons
    print('C01loop: %d of %d real loops are in the modelled fragment (%.1f%%; %d use no uninterpreted operation); outside: %s'
          % (infrag, nloops, 100.0 * infrag / max(nloops, 1), strict, reasons))
    # distinct cases only (the same function is lowered in many programs)
    uniq = {}
    for c in cases:
        uniq.setdefault(c[3], c)
    ucases = list(uniq.values())
    order = sorted(range(len(ucases)), key=lambda j: -size(ucases[j][2]['mir']))
    nshard = max(1, min(NCPU, len(ucases)))
    shards = [order[s::nshard] for s in range(nshard)]
    jobs = []
    for si, idxs in enumerate(shards):
        body = HEADER + 'Definition cs : list (stmt * stmt * list N) := [\n%s].\nEval vm_compute in (tie_cases cs).\n' % ';\n'.join(
            ucases[j][3] for j in idxs)
        jobs.append(('c01loop_%d' % si, body))
    outs = coq_eval_many(jobs, timeout=900) if ucases else []
    st = {'cases': len(cases), 'distinct': len(ucases), 'agree': 0, 'with_temporaries': 0, 'nested': 0, 'wf': 0, 'fresh': 0,
          'single_assignment': sum(1 for c in ucases if single_assignment(c[2]['mir'])),
          'instances_equal': 0, 'instances_different': 0, 'instances_finished': 0, 'instances_where_no_save_differs': 0}
    bad_sem = []
    for si, (rc, o) in enumerate(outs):
        resl = coq_result(o) if rc == 0 else None
        if resl is None:
            ck.obligation('model-evaluation(C01loop shard %d)' % si, False, o[-600:])
            continue
        rows = [[int(x) for x in re.findall(r'(\d+)%N', g)] for g in re.findall(r'\[([^\[\]]*)\]', resl)]
        if len(rows) != len(shards[si]):
            ck.obligation('model-evaluation(C01loop shard %d)' % si, False, 'expected %d rows, got %d' % (len(shards[si]), len(rows)))
            continue
        for j, row in zip(shards[si], rows):
            i, opt, L, text, nt = ucases[j]
            p = progs[i]
            differs, wf, fresh, ntemps, eq, ne, nosave_ne, fin = row
            where = {'sources': p['sources'], 'entry': p['entry'], 'function': L['function'], 'loop': L['index'], 'optimised_mir': opt,
                     'mir': L['mir']}
            ck.case(['loop', L['mir']], ntemps > 0)
            st['agree'] += 1 - differs
            st['with_temporaries'] += 1 if ntemps else 0
            st['nested'] += 1 if nested(L['mir']) else 0
            st['wf'] += wf
            st['fresh'] += fresh
            st['instances_equal'] += eq
            st['instances_different'] += ne
            st['instances_finished'] += fin
            st['instances_where_no_save_differs'] += nosave_ne
            if differs:
                ck.disagree('C01loop.Lower.lower_stmt vs lir_lowering.rs lower_stmt (While)', where,
                            'Lower.lower_stmt of the MIR loop with the real temporaries as name supply', L['lir'],
                            how='vh lir-dump on the sources; coqc work/c01loop_%d.v' % si)
            if not wf:
                ck.disagree('C01loop: hypothesis wf of C01loop_lower_preserves on a real MIR loop', where, 'wf', 'not wf')
            if not fresh:
                ck.disagree('C01loop: hypothesis temps_fresh of C01loop_lower_preserves on a real lowering', where,
                            'temporaries pairwise different and not in the MIR loop', L['lir'])
            if ne:
                bad_sem.append((i, where, L))
    for i, where, L in bad_sem[:3]:
        ck.property_failure('the LIR loop produced by lir_lowering behaves differently from the MIR loop (Gallina sem_mir / sem_lir of C01loop.Sem)',
                            where, expected='sem_lir (real LIR loop) = sem_mir (MIR loop) on the variables of the loop',
                            observed={'lir': L['lir']}, how='vh lir-dump on the sources')
    for k, v in st.items():
        ck.count('loop:tie:' + k, v)
    ck.extra_cov['loop_tie'] = st
    ck.obligation('C01loop tie ran', bool(ucases) and st['distinct'] > 0, '%d loops, %d distinct' % (len(cases), len(ucases)))
    print('C01loop: tie cases=%d distinct=%d model=real:%d with-temporaries:%d nested:%d wf:%d fresh:%d single-assignment:%d | instances '
          'equal:%d different:%d finished:%d no-save-lowering-differs:%d' % (st['cases'], st['distinct'], st['agree'], st['with_temporaries'], st['nested'],
                                                       st['wf'], st['fresh'], st['single_assignment'], st['instances_equal'], st['instances_different'],
                                                       st['instances_finished'], st['instances_where_no_save_differs']))
    if ucases:
        ck.sample({'loop_case': {'function': ucases[0][2]['function'], 'mir': ucases[0][2]['mir'], 'lir': ucases[0][2]['lir']}})
    # ---- monitor: the permuting programs end to end (source semantics vs wasm vs TS)
    perm = [p for p in progs if p['features'][0].startswith('perm:')]
    perm = perm[:24] if tier == 'quick' else perm[:200]
    failing = [p for i, p in enumerate(progs) if any(b[0] == i for b in bad_sem)][:4]
    mon = perm + failing
    recs = run_pipeline(mon, 'c01loop')
    compared = 0
    for p, rec in zip(mon, recs):
        if not rec['engine_ok']:
            ck.notes.append('WebAssembly engine unavailable: end-to-end comparison of the permuting programs skipped')
            break
        src = rec['src']
        if rec['compile'] != 'ok' or src is None or src['ending']['kind'] != 'return':
            ck.count('loop:e2e:not-compared:' + str(rec['compile'])[:12])
            continue
        compared += 1
        for eng in ('wasm', 'ts'):
            o = rec[eng]
            if o is None:
                continue
            d = same_behaviour(src, o)
            if d:
                ck.property_failure('permuting tail call: emitted %s differs from the source semantics: %s' % (eng, d),
                                    {'sources': p['sources'], 'entry': p['entry'], 'label': p['features']},
                                    expected={'lines': src['lines'][:20], 'ending': src['ending']},
                                    observed={'lines': o['lines'][:20], 'ending': o['ending']})
                break
    ck.count('loop:e2e:compared', compared)
    ck.extra_cov['loop_e2e_compared'] = compared


def run(tier='quick', seed=1, replay=None):
    ck = Check('C01', tier, seed, level='proof')
    ck.pid = 'C01loop'          # own evidence / replay files when run standalone
    ck.checker_cmd = 'make -C /verif/coq theories/C01loop/Props.vo (coqc 8.16.1) + Print Assumptions per theorem'
    ck.trusted = ['Coq 8.16.1 kernel; no axioms',
                  'hand-written model theories/C01loop/{Syntax,Sem,Lower}.v of lir_lowering.rs lower_stmt on the loop fragment; tie: '
                  'Lower.lower_stmt run on every real MIR loop must give the real LIR loop (vh lir-dump, public compile_mir_to_lir)',
                  'sem_mir mirrors harness/src/mirsem.rs, sem_lir mirrors the TypeScript printer of lir.rs and wasm_lowering.rs (read, not generated)']
    loop(ck, tier, seed)
    return ck.finish()


if __name__ == '__main__':
    import sys
    sys.exit(run(sys.argv[1] if len(sys.argv) > 1 else 'quick', int(sys.argv[2]) if len(sys.argv) > 2 else 1))
