"""C01, MIR-stage slice (coq/theories/C01mir): the two MIR->MIR stages that run inside compile_sources_to_mir
before the optimiser -
  (B) mir_constant_param_elimination.rs  (whole program: parameters every call site passes the same constant for,
      and unused parameters, disappear from signatures and call sites)
  (A) mir_tail_recursion_rewrite.rs      (per function: a self tail call becomes a While loop).

Layer A: theories/C01mir/Props.v (program-level semantics with calls between the functions of a program;
  C01mir_tailrec_preserves, C01mir_constparam_preserves, refutations of the seeded variants C01-5 / C01-6).
Layer B: `vh mirstage-dump` (hooks samlang_compiler::verif::{compile_sources_to_mir_before_rewrites,
  constant_param_elimination, tail_rec_rewrite}) prints the MIR of a real program immediately before and after each
  stage; inside coqc (vm_compute) the Gallina `const_param_elim` is run on the real `before` program and must give
  the real `after` program term for term (names, types, statements), the Gallina `tail_rec_rewrite` is run on every
  real function with the names the real stage made as its name supply and must give the real function; the side
  conditions of the theorems (wf_prog, wf_tail) are evaluated on every real program / function; both semantics are
  run on argument vectors in a concrete world as instances; the staged run is compared with the real pipeline.
Layer C (testing): the MIR interpreter of the harness (mirsem.rs) runs main before / after each stage.

`mir(ck, tier, seed)` is the library entry (for checks/c01.py); `run()` is a standalone wrapper (evidence and replay
files under /verif/work/c01mir/, never /verif/evidence).
"""
import concurrent.futures
import json
import os
import re
import sys

from gen.progs import gen_program
from gen.rng import Rng
from lib import vlib
from lib.vlib import Check, NCPU, check_props, coq_eval_many, coq_result, vh

HEADER = ('From Coq Require Import ZArith NArith List Bool. Import ListNotations.\n'
          'From SV Require Import Common.Int32 C01mir.Syntax C01mir.Sem C01mir.TailRec C01mir.ConstParam C01mir.Corr.\n'
          'Open Scope N_scope.\n')
FUEL = 60


# ------------------------------------------------------------------ JSON (vh mirstage-dump) -> Gallina
def g_expr(e):
    k = e[0]
    if k == 'i':
        return '(EInt (%d)%%Z)' % e[1]
    if k == 'j':
        return '(EI31 (%d)%%Z)' % e[1]
    if k == 's':
        return '(EStr %d)' % e[1]
    return '(EVar %d %d)' % (e[1], e[2])


def g_list(xs):
    return '[' + '; '.join(xs) + ']'


def g_quad(q):
    return '(mkq %d %d %s %s)' % (q[0], q[1], g_expr(q[2]), g_expr(q[3]))


def g_callee(c):
    if c[0] == 'fn':
        return '(CFn %d %s %d)' % (c[1], g_list('%d' % t for t in c[2]), c[3])
    return '(CVar %d %d)' % (c[1], c[2])


def g_stmts(ss):
    return g_list(g_stmt(s) for s in ss)


def g_stmt(s):
    k = s[0]
    if k == 'bin':
        return '(SBin %d %s %s %s)' % (s[1], s[2], g_expr(s[3]), g_expr(s[4]))
    if k == 'not':
        return '(SNot %d %s)' % (s[1], g_expr(s[2]))
    if k == 'prim':
        p = {'idx': '(PIdx %d %d)' % (s[3], s[4]), 'isptr': '(PIsPtr %d)' % s[3], 'cast': '(PCast %d)' % s[3]}[s[2]]
        return '(SPrim %d %s %s)' % (s[1], p, g_expr(s[5]))
    if k == 'call':
        return '(SCall %s %s %d %s)' % (g_callee(s[1]), g_list(g_expr(a) for a in s[2]), s[3],
                                        'None' if s[4] is None else '(Some %d)' % s[4])
    if k == 'if':
        return '(SIf %s %s %s %s)' % (g_expr(s[1]), g_stmts(s[2]), g_stmts(s[3]), g_list(g_quad(q) for q in s[4]))
    if k == 'sif':
        return '(SSIf %s %s %s)' % (g_expr(s[1]), 'true' if s[2] else 'false', g_stmts(s[3]))
    if k == 'brk':
        return '(SBreak %s)' % g_expr(s[1])
    if k == 'while':
        bc = 'None' if s[3] is None else '(Some (%d, %d))' % (s[3][0], s[3][1])
        return '(SWhile %s %s %s)' % (g_list(g_quad(q) for q in s[1]), g_stmts(s[2]), bc)
    if k == 'decl':
        return '(SDecl %d %d)' % (s[1], s[2])
    if k == 'assign':
        return '(SAssign %d %s)' % (s[1], g_expr(s[2]))
    if k == 'struct':
        return '(SStruct %d %d %s)' % (s[1], s[2], g_list(g_expr(a) for a in s[3]))
    if k == 'closure':
        return '(SClosure %d %d %d %d %s)' % (s[1], s[2], s[3], s[4], g_expr(s[5]))
    raise ValueError(k)


def g_func(f):
    return '(mkfunc %d %s %s %d %s %s)' % (f['name'], g_list('%d' % p for p in f['params']), g_list('%d' % t for t in f['atys']),
                                           f['rty'], g_stmts(f['body']), g_expr(f['ret']))


def stmt_kinds(ss, out):
    for s in ss:
        k = s[0]
        if k == 'call':
            k = 'call-fn' if s[1][0] == 'fn' else 'call-closure'
        if k == 'prim':
            k = s[2]
        out[k] = out.get(k, 0) + 1
        if s[0] == 'if':
            stmt_kinds(s[2], out)
            stmt_kinds(s[3], out)
        elif s[0] == 'sif':
            stmt_kinds(s[3], out)
        elif s[0] == 'while':
            stmt_kinds(s[2], out)


def tail_shape(before, after):
    """how the real rewrite changed the function: one branch / both branches (new final assignments), unit (no collector)"""
    def has_if_with_new_fas(ss):
        for s in ss:
            if s[0] == 'if' and any(isinstance(q[0], int) and q[0] >= after.get('_k', 1 << 60) for q in s[4]):
                return True
            if s[0] == 'if' and (has_if_with_new_fas(s[2]) or has_if_with_new_fas(s[3])):
                return True
            if s[0] in ('sif', 'while') and has_if_with_new_fas(s[3] if s[0] == 'sif' else s[2]):
                return True
        return False
    return 'both-branches' if has_if_with_new_fas(after['body']) else 'single-branch'


def gallina_job(r, idx):
    """Definitions for one dumped program + the name of the term to evaluate"""
    defs, names = [], {}

    def fn(f):
        key = json.dumps(f, sort_keys=True)
        if key not in names:
            names[key] = 'f%d_%d' % (idx, len(names))
            defs.append('Definition %s := %s.' % (names[key], g_func(f)))
        return names[key]
    p0 = [fn(f) for f in r['cpe']['before']]
    p1 = [fn(f) for f in r['cpe']['after']]
    p2 = [fn(t['after'] if t.get('after') is not None else t['before']) for t in r['tailrec']]
    ks = ['%d' % t['k'] for t in r['tailrec']]
    tp = g_list('(%d, %d)' % (a, b) for a, b in r['tp'])
    defs.append('Definition job%d := tie_job %d %s %s %s %s %s.' % (idx, FUEL, tp, g_list(p0), g_list(p1), g_list(p2), g_list(ks)))
    return '\n'.join(defs), 'job%d' % idx


def parse_nested(text):
    """[[1; 2]; [3]] (with optional %N) -> python lists"""
    t = re.sub(r'%[A-Za-z]+', '', text).replace(';', ',')
    t = re.sub(r'\s+', '', t)
    return json.loads(t)


# ------------------------------------------------------------------ programs
def shape_program(r):
    """Tail calls in both branches with different argument lists, nested three-way tail calls, parameters rotated /
    swapped by the recursive call, unit loops, parameters passed the same constant at every call site, constants that
    differ at one site, a parameter that is only forwarded / only handed to another position, string constants,
    functions used as closures."""
    funs, mains = [], []
    inp = lambda k: 'Main.inp("%d")' % k
    n_it = lambda: inp(r.pick([0, 1, 2, 3, 5, 8]))

    def pr(e):
        mains.append('    let _ = Process.println(Str.fromInt(%s));' % e)
    kinds = r.shuffle(['both', 'three', 'rot', 'unit', 'const', 'constdiff', 'fwd', 'handover', 'strconst', 'closure', 'match', 'nontail', 'unitparam',
                       'both', 'rot', 'const', 'handover'])[:r.range(5, 9)]
    for i, kd in enumerate(kinds):
        f = 'f%d' % i
        if kd == 'both':
            a1, a2 = r.pick([('b', 'a'), ('a + 1', 'b'), ('b', 'a + b'), ('a', 'b * 2')]), r.pick([('a + 1', 'b'), ('b + 2', 'a'), ('a * 2', 'b + 1')])
            funs.append('  function %s(a: int, b: int, n: int): int = if n <= 0 { a * 100 + b } else if n %% 2 == 0 { Main.%s(%s, %s, n - 1) } else { Main.%s(%s, %s, n - 1) }'
                        % (f, f, a1[0], a1[1], f, a2[0], a2[1]))
            pr('Main.%s(%s, %s, %s)' % (f, inp(1), inp(2), n_it()))
            pr('Main.%s(3, 4, %s)' % (f, n_it()))
        elif kd == 'three':
            funs.append('  function %s(a: int, b: int, c: int, n: int): int = if n <= 0 { a * 100 + b * 10 + c } else if n %% 3 == 0 { Main.%s(b, c, a, n - 1) } '
                        'else if n %% 3 == 1 { Main.%s(c, a, b + 1, n - 1) } else { Main.%s(a + 1, b, c, n - 2) }' % (f, f, f, f))
            pr('Main.%s(1, 2, 3, %s)' % (f, n_it()))
            pr('Main.%s(%s, 5, 6, %s)' % (f, inp(4), n_it()))
        elif kd == 'rot':
            k = r.range(2, 4)
            ps = ['p%d' % j for j in range(k)]
            args = ps[1:] + ps[:1] if r.chance(1, 2) else r.shuffle(ps)
            ret = ' + '.join('%s * %d' % (p, 10 ** j) for j, p in enumerate(ps)) if r.chance(2, 3) else ps[0]
            funs.append('  function %s(%s, n: int): int = if n <= 0 { %s } else { Main.%s(%s, n - 1) }'
                        % (f, ', '.join(p + ': int' for p in ps), ret, f, ', '.join(args)))
            pr('Main.%s(%s, %s)' % (f, ', '.join(str(j + 1) for j in range(k)), n_it()))
            pr('Main.%s(%s, %s)' % (f, ', '.join(inp(j + 4) for j in range(k)), n_it()))
        elif kd == 'unit':
            funs.append('  function %s(i: int, n: int): unit = if i < n { let _ = Process.println(Str.fromInt(i * 3)); Main.%s(i + 1, n) } else { }' % (f, f))
            mains.append('    let _ = Main.%s(0, %s);' % (f, n_it()))
            if r.chance(1, 2):
                funs.append('  function %sb(i: int, n: int): unit = if i >= n { } else if i %% 2 == 0 { Main.%sb(i + 1, n) } else { let _ = Process.println("o"); Main.%sb(i + 2, n) }' % (f, f, f))
                mains.append('    let _ = Main.%sb(0, %s);' % (f, n_it()))
        elif kd == 'unitparam':
            # a unit function that returns its unit parameter at a leaf (outside wf_tail: TailRec.unit_param_class)
            funs.append('  function %s(n: int, u: unit): unit = if n > 0 { let _ = Process.println(Str.fromInt(n)); Main.%s(n - 1, u) } else { u }' % (f, f))
            mains.append('    let _ = Main.%s(%s, {});' % (f, n_it()))
            if r.chance(1, 2):
                mains.append('    let pu%d = Process.println("u"); let _ = Main.%s(%s, pu%d);' % (i, f, n_it(), i))
        elif kd == 'const':
            c = r.pick([7, 0, 1, 42, -3])
            funs.append('  function %s(k: int, x: int, n: int): int = if n <= 0 { x + k } else { Main.%s(k, x * 2 + k, n - 1) }' % (f, f))
            funs.append('  function %sc(k: int, x: int): int = x * k + k' % f)
            pr('Main.%s(%d, 1, %s)' % (f, c, n_it()))
            pr('Main.%s(%d, %s, %s)' % (f, c, inp(2), n_it()))
            pr('Main.%sc(%d, %s) + Main.%sc(%d, 3)' % (f, c, inp(2), f, c))
        elif kd == 'constdiff':
            funs.append('  function %s(k: int, x: int): int = x * k + k' % f)
            pr('Main.%s(5, %s)' % (f, inp(2)))
            pr('Main.%s(5, 3)' % f)
            pr('Main.%s(%s, 3)' % (f, r.pick(['6', inp(5), '5 + 0 * ' + inp(1)])))
        elif kd == 'fwd':
            funs.append('  function %s(dummy: int, n: int, acc: int): int = if n <= 0 { acc } else { Main.%s(dummy, n - 1, acc + n) }' % (f, f))
            pr('Main.%s(%s, %s, 0)' % (f, inp(9), n_it()))
            pr('Main.%s(1, %s, 5)' % (f, n_it()))
        elif kd == 'handover':
            # b is only handed to position 0 (never read otherwise): not a use under the seeded variant C01-6
            funs.append('  function %s(a: int, b: int, n: int): int = if n <= 0 { a } else { Main.%s(b, a, n - 1) }' % (f, f))
            funs.append('  function %sx(a: int, b: int, c: int, n: int): int = if n <= 0 { a } else { Main.%sx(b, c, a, n - 1) }' % (f, f))
            pr('Main.%s(%s, %s, %s)' % (f, inp(1), inp(2), n_it()))
            pr('Main.%s(4, 9, %s)' % (f, n_it()))
            pr('Main.%sx(1, 2, 3, %s)' % (f, n_it()))
        elif kd == 'strconst':
            funs.append('  function %s(s: Str, n: int): int = if n <= 0 { s.toInt() } else { Main.%s(s, n - 1) + 1 }' % (f, f))
            funs.append('  function %sl(s: Str, t: Str, n: int): Str = if n <= 0 { s } else { Main.%sl(t, s, n - 1) }' % (f, f))
            pr('Main.%s("12", %s)' % (f, n_it()))
            pr('Main.%sl("3", "4", %s).toInt()' % (f, n_it()))
        elif kd == 'closure':
            funs.append('  function %s(k: int, x: int): int = x * 3 + k' % f)
            funs.append('  function %sap(g: (int, int) -> int, n: int): int = if n <= 0 { g(1, 2) } else { Main.%sap(g, n - 1) }' % (f, f))
            pr('Main.%s(2, %s)' % (f, inp(3)))
            pr('Main.%sap(Main.%s, %s)' % (f, f, n_it()))
            pr('Main.%sap((p, q) -> p - q + %s, 2)' % (f, inp(7)))
        elif kd == 'match':
            funs.append('  function %s(o: Opt, acc: int, n: int): int = if n <= 0 { acc } else { match o { Non -> Main.%s(Opt.Som(n), acc + 1, n - 1), Som(v) -> Main.%s(Opt.Non(), acc + v, n - 1) } }' % (f, f, f))
            pr('Main.%s(Opt.Non(), 0, %s)' % (f, n_it()))
        elif kd == 'nontail':
            funs.append('  function %s(a: int, n: int): int = if n <= 0 { a } else if n %% 2 == 0 { Main.%s(a + 1, n - 1) } else { Main.%s(a, n - 1) + 1 }' % (f, f, f))
            pr('Main.%s(%s, %s)' % (f, inp(1), n_it()))
    text = ('class Opt(Non, Som(int)) {}\nclass Main {\n  function inp(s: Str): int = s.toInt()\n' + '\n'.join(funs)
            + '\n  function main(): unit = {\n' + '\n'.join(mains) + '\n  }\n}\n')
    return {'sources': {'Main': text}, 'entry': 'Main', 'features': ['shape:' + '+'.join(sorted(set(kinds)))]}


# ------------------------------------------------------------------ synthetic MIR programs (harness job kind 2)
OPSYN = ['PLUS', 'MINUS', 'MUL', 'LT', 'LE', 'EQ', 'NE', 'XOR', 'LAND', 'DIV', 'MOD']


def gen_mir_program(r):
    """A random MIR program in the JSON encoding of mirstage_dump.rs: every statement form (also While / SingleIf /
    Break / LateInit / StructInit / ClosureInit / closure calls, which the real front end never hands to these two
    stages in this position), self tail calls in one or both branches of nested if-else, with and without return
    collector, arguments forwarded / rotated / constant, call sites that agree or disagree on constants."""
    nfun = r.range(2, 5)
    ar = [r.range(0, 4) for _ in range(nfun)] + [0]
    cnt = [10]
    pref = {}

    def fresh():
        cnt[0] += 1
        return cnt[0]

    def lit():
        return r.pick([['i', 0], ['i', 1], ['i', 2], ['i', 7], ['i', -1], ['j', 0], ['j', 1], ['s', 5], ['s', 6]])

    def expr(scope):
        if scope and r.chance(3, 5):
            return ['v', r.pick(scope), 0]
        return lit()

    def call_args(callee, scope, params=None, self_call=False):
        args = []
        for j in range(ar[callee] if callee < len(ar) else 2):
            c = r.below(10)
            if self_call and params and c < 3 and j < len(params):
                args.append(['v', params[j], 0])                     # handed on at its own position
            elif self_call and params and c < 5:
                args.append(['v', r.pick(params), 0])                # another parameter: rotation / hand-over
            elif c < 8 and not self_call:
                args.append(pref.setdefault((callee, j), lit()))      # the constant this position usually gets
            else:
                args.append(expr(scope))
        return args

    def stmts(scope, depth, n, fi, params, in_loop=False):
        out = []
        scope = list(scope)
        for _ in range(n):
            k = r.below(14)
            if k < 3:
                x = fresh()
                out.append(['bin', x, r.pick(OPSYN), expr(scope), expr(scope)])
                scope.append(x)
            elif k == 3:
                x = fresh()
                out.append(['not', x, expr(scope)])
                scope.append(x)
            elif k == 4:
                x = fresh()
                out.append(['prim', x, r.pick(['idx', 'isptr', 'cast']), 2, r.below(3), expr(scope)])
                scope.append(x)
            elif k in (5, 6):
                callee = r.pick(list(range(nfun)) + [90, 91])
                x = fresh() if r.chance(2, 3) else None
                na = ar[callee] if callee < nfun else 2
                out.append(['call', ['fn', callee, [0] * na, 0], call_args(callee, scope, params, callee == fi), 0, x])
                if x is not None:
                    scope.append(x)
            elif k == 7 and depth > 0:
                c = expr(scope)
                s1, sc1 = stmts(scope, depth - 1, r.range(0, 2), fi, params, in_loop)
                s2, sc2 = stmts(scope, depth - 1, r.range(0, 2), fi, params, in_loop)
                fas = []
                for _q in range(r.range(0, 2)):
                    x = fresh()
                    fas.append([x, 0, expr(sc1), expr(sc2)])
                out.append(['if', c, s1, s2, fas])
                scope.extend(q[0] for q in fas)
            elif k == 8 and depth > 0:
                lv = [fresh() for _q in range(r.range(1, 2))]
                inner = scope + lv
                g = fresh()
                body = [['bin', g, 'LT', ['v', lv[0], 0], ['i', r.range(1, 3)]],
                        ['sif', ['v', g, 0], True, [['brk', expr(inner + [g])]]]]
                more, sc = stmts(inner + [g], depth - 1, r.range(0, 2), fi, params, True)
                n1 = fresh()
                body += more + [['bin', n1, 'PLUS', ['v', lv[0], 0], ['i', 1]]]
                lvs = [[lv[0], 0, ['i', 0], ['v', n1, 0]]] + [[v, 0, expr(scope), expr(sc + [n1])] for v in lv[1:]]
                bc = fresh() if r.chance(2, 3) else None
                out.append(['while', lvs, body, None if bc is None else [bc, 0]])
                if bc is not None:
                    scope.append(bc)
            elif k == 9:
                x = fresh()
                out.append(['decl', x, 0])
                out.append(['assign', x, expr(scope)])
                scope.append(x)
            elif k == 10:
                x = fresh()
                out.append(['struct', x, 2, [expr(scope) for _q in range(r.range(1, 3))]])
                scope.append(x)
            elif k == 11:
                x = fresh()
                out.append(['closure', x, 3, r.below(nfun), 4, expr(scope)])
                scope.append(x)
                if r.chance(1, 2):
                    y = fresh()
                    out.append(['call', ['var', x, 3], [expr(scope) for _q in range(r.range(0, 2))], 0, y])
                    scope.append(y)
            elif k == 12 and in_loop and r.chance(1, 3):
                out.append(['sif', expr(scope), r.chance(1, 2), [['brk', expr(scope)]]])
        return out, scope

    def tail(scope, depth, fi, params, unit):
        pre, sc = stmts(scope, 1, r.range(0, 2), fi, params)
        k = r.below(10)
        if k < 4 and depth > 0:
            c = expr(sc)
            s1, e1 = tail(sc, depth - 1, fi, params, unit)
            s2, e2 = tail(sc, depth - 1, fi, params, unit)
            x = fresh()
            fas = [[x, 0, e1, e2]]
            if r.chance(1, 4):
                fas.insert(r.below(2), [fresh(), 0, lit(), lit()])
            return pre + [['if', c, s1, s2, fas]], ['v', x, 0]
        if k < 8:
            if unit:
                return pre + [['call', ['fn', fi, [0] * ar[fi], 0], call_args(fi, sc, params, True), 0, None]], ['i', 0]
            x = fresh()
            return pre + [['call', ['fn', fi, [0] * ar[fi], 0], call_args(fi, sc, params, True), 0, x]], ['v', x, 0]
        return pre, (['i', 0] if unit else expr(sc))

    funcs = []
    for fi in range(nfun):
        params = [fresh() for _ in range(ar[fi])]
        unit = r.chance(1, 3)
        body, ret = tail(params, r.range(0, 2), fi, params, unit)
        funcs.append({'name': fi, 'params': params, 'atys': [0] * ar[fi], 'rty': 0, 'body': body, 'ret': ret})
    mbody = []
    last = ['i', 0]
    for _ in range(r.range(2, 6)):
        callee = r.below(nfun)
        x = fresh()
        mbody.append(['call', ['fn', callee, [0] * ar[callee], 0], call_args(callee, [], None, False), 0, x])
        last = ['v', x, 0]
    funcs.append({'name': nfun, 'params': [], 'atys': [], 'rty': 0, 'body': mbody, 'ret': last})
    return funcs


def synthetic(ck, tier, seed):
    rng = Rng(seed ^ 0x51A7)
    n = 300 if tier == 'quick' else 5000
    progs = [gen_mir_program(rng.fork()) for _ in range(n)]
    jobs = [{'id': i, 'program': p, 'stage': 'both'} for i, p in enumerate(progs)]
    chunks = [jobs[i::NCPU] for i in range(NCPU)]

    def run_chunk(c):
        if not c:
            return []
        rc, out = vh(['mirstage-dump'], input='\n'.join(json.dumps(j) for j in c) + '\n', timeout=1200)
        return [json.loads(l) for l in out.splitlines() if l.startswith('{')]
    res = {}
    with concurrent.futures.ThreadPoolExecutor(max_workers=NCPU) as ex:
        for part in ex.map(run_chunk, chunks):
            for r in part:
                if isinstance(r.get('id'), int):
                    res[r['id']] = r
    st = {'programs': n, 'ran': 0, 'panics': 0, 'cpe_model_eq_real': 0, 'cpe_wf_prog': 0, 'cpe_parameters_dropped': 0, 'cpe_constants': 0,
          'cpe_seeded_variant_differs': 0, 'cpe_functions_unoptimizable': 0, 'cpe_inst': [0, 0, 0, 0], 'tail_functions': 0,
          'tail_model_eq_real': 0, 'tail_changed': 0, 'tail_changed_both_branches': 0, 'tail_changed_wf': 0, 'tail_changed_with_discard': 0,
          'tail_seeded_variant_differs': 0, 'tail_inst': [0, 0, 0, 0], 'inst_diff_on_wf_input': 0}
    kinds = {}
    usable = []
    for i in range(n):
        r = res.get(i)
        if r is None or 'harness_panic' in r or 'error' in r:
            ck.obligation('mirstage-dump(synthetic %d)' % i, False, json.dumps(r)[:300])
            continue
        if 'panic' in r or 'tailrec' not in r or any('panic' in t for t in r.get('tailrec', [])):
            st['panics'] += 1
            ck.property_failure('a MIR stage panicked on a synthetic MIR program: ' + str(r.get('panic'))[:200], {'mir_program': progs[i]},
                                how='vh mirstage-dump job {"program": .., "stage": "both"}')
            continue
        st['ran'] += 1
        for f in progs[i]:
            stmt_kinds(f['body'], kinds)
        usable.append(i)
    nshard = max(1, min(NCPU, len(usable)))
    shards = [usable[s::nshard] for s in range(nshard)]
    cjobs = []
    for si, idxs in enumerate(shards):
        parts, terms = [], []
        for i in idxs:
            d, t = gallina_job(res[i], i)
            parts.append(d)
            terms.append(t)
        cjobs.append(('c01mir_syn_%d' % si, HEADER + '\n'.join(parts) + '\nEval vm_compute in %s.\n' % g_list(terms)))
    outs = coq_eval_many(cjobs, timeout=1500) if usable else []
    for si, (rc, o) in enumerate(outs):
        resl = coq_result(o) if rc == 0 else None
        rows = None
        if resl is not None:
            try:
                rows = parse_nested(resl)
            except Exception:
                rows = None
        if rows is None or len(rows) != len(shards[si]):
            ck.obligation('model-evaluation(C01mir synthetic shard %d)' % si, False, o[-600:])
            continue
        for i, job in zip(shards[si], rows):
            r = res[i]
            where = {'mir_program': progs[i]}
            cpe, icpe, itail, tails = job[0], job[1], job[2], job[3:]
            differs, wfp, seeded_eq, nfun, nlose, ndrop, nconst, nunopt = cpe
            ck.case(['syn', progs[i]], ndrop > 0)
            st['cpe_model_eq_real'] += 1 - (1 if differs else 0)
            st['cpe_wf_prog'] += wfp
            st['cpe_parameters_dropped'] += ndrop
            st['cpe_constants'] += nconst
            st['cpe_functions_unoptimizable'] += nunopt
            st['cpe_seeded_variant_differs'] += 1 - seeded_eq
            for j in range(4):
                st['cpe_inst'][j] += icpe[j]
                st['tail_inst'][j] += itail[j]
            if differs:
                ck.disagree('C01mir.ConstParam.const_param_elim vs rewrite_sources on a synthetic MIR program', where,
                            'const_param_elim of the program', r['cpe']['after'], how='coqc work/c01mir_syn_%d.v (job%d)' % (si, i))
            all_wft = True
            for t, row in zip(r['tailrec'], tails):
                tdiff, changed, wft, seeded_eq_t, nd, rconst, upc = row
                st['tail_functions'] += 1
                st['tail_model_eq_real'] += 1 - tdiff
                if changed:
                    st['tail_changed'] += 1
                    st['tail_changed_wf'] += wft
                    st['tail_changed_with_discard'] += 1 if nd else 0
                    st['tail_seeded_variant_differs'] += 1 - seeded_eq_t
                    st['tail_changed_both_branches'] += 1 if t.get('fresh') else 0
                    all_wft = all_wft and bool(wft)
                if tdiff:
                    ck.disagree('C01mir.TailRec.tail_rec_rewrite vs optimize_function_by_tailrec_rewrite on a synthetic MIR function',
                                dict(where, function=t.get('fname')), 'tail_rec_rewrite of the function', t.get('after'),
                                how='coqc work/c01mir_syn_%d.v (job%d)' % (si, i))
            # a behavioural difference on input that satisfies the hypotheses would contradict the theorems
            if (icpe[2] and wfp) or (itail[2] and all_wft):
                st['inst_diff_on_wf_input'] += 1
                ck.property_failure('a MIR stage changes behaviour on a synthetic MIR program that satisfies the side conditions of the theorem '
                                    '(Gallina semantics)', where, observed={'cpe_instances': icpe, 'tailrec_instances': itail})
    st['stmt_kinds'] = kinds
    ck.extra_cov['mir_synthetic'] = st
    for k, v in st.items():
        if isinstance(v, int):
            ck.count('mir:syn:' + k, v)
    ck.obligation('C01mir synthetic tie ran', st['ran'] > 0 and st['tail_changed'] > 0, '%d programs' % st['ran'])
    print('C01mir synthetic MIR: programs=%d ran=%d panics=%d | cpe: model=real %d wf_prog:%d dropped:%d (const %d) unoptimizable:%d '
          'seeded-variant-differs:%d instances[oof,same,diff,done]=%s | tailrec: functions=%d model=real:%d rewritten:%d (both-branches %d, discard %d) '
          'wf_tail:%d seeded-variant-differs:%d instances=%s | differences on input satisfying the hypotheses: %d'
          % (st['programs'], st['ran'], st['panics'], st['cpe_model_eq_real'], st['cpe_wf_prog'], st['cpe_parameters_dropped'], st['cpe_constants'],
             st['cpe_functions_unoptimizable'], st['cpe_seeded_variant_differs'], st['cpe_inst'], st['tail_functions'], st['tail_model_eq_real'],
             st['tail_changed'], st['tail_changed_both_branches'], st['tail_changed_with_discard'], st['tail_changed_wf'],
             st['tail_seeded_variant_differs'], st['tail_inst'], st['inst_diff_on_wf_input']))
    print('C01mir synthetic MIR: statement forms: %s' % json.dumps(kinds, sort_keys=True))


def programs(tier, seed):
    from checks.c01_loop import gen_perm_program
    rng = Rng(seed ^ 0xC01312)
    progs = []
    cdir = '/verif/corpus/C01'
    for fn in sorted(os.listdir(cdir)) if os.path.isdir(cdir) else []:
        if fn.endswith('.sam'):
            progs.append({'sources': {'Main': open(os.path.join(cdir, fn)).read()}, 'entry': 'Main', 'features': ['corpus:' + fn]})
    n_gen, n_perm, n_shape = (40, 24, 40) if tier == 'quick' else (500, 200, 500)
    for i in range(n_gen):
        r = rng.fork()
        progs.append(gen_program(r, {'big': i % 5 == 0, 'nfun': 5, 'depth': 2 + i % 2, 'loops': True, 'closures': i % 3 == 1,
                                     'vec': i % 6 == 2, 'strings': i % 4 == 3, 'interfaces': i % 2 == 1, 'loop_focus': i % 3 != 2,
                                     'avoid_known_iv': True}))
    tys = ['int', 'int', 'Opt', 'Flag', 'Bx', 'Str', 'int', 'int']
    for i in range(n_perm):
        progs.append(gen_perm_program(rng.fork(), tys[i % len(tys)]))
    for i in range(n_shape):
        progs.append(shape_program(rng.fork()))
    return progs


def dump(progs, extra=None):
    jobs = [dict({'id': i, 'sources': p['sources'], 'entry': p['entry'], 'fuel': 300000, 'parallel_loops': True}, **(extra or {}))
            for i, p in enumerate(progs)]
    chunks = [jobs[i::NCPU] for i in range(NCPU)]

    def run_chunk(c):
        if not c:
            return []
        rc, out = vh(['mirstage-dump'], input='\n'.join(json.dumps(j) for j in c) + '\n', timeout=1200)
        return [json.loads(l) for l in out.splitlines() if l.startswith('{')]
    res = {}
    with concurrent.futures.ThreadPoolExecutor(max_workers=NCPU) as ex:
        for part in ex.map(run_chunk, chunks):
            for r in part:
                if isinstance(r.get('id'), int):
                    res[r['id']] = r
    return res


def same_run(a, b):
    return a is not None and b is not None and a.get('lines') == b.get('lines') and a.get('ending') == b.get('ending')


# ------------------------------------------------------------------ the check
def mir(ck, tier, seed):
    ok = check_props(ck, 'theories/C01mir/Props.v')
    progs = programs(tier, seed)
    res = dump(progs)
    st = {'programs': len(progs), 'dumped': 0, 'rejected': 0, 'pipeline_same': 0,
          'cpe_model_eq_real': 0, 'cpe_wf_prog': 0, 'cpe_programs_changed': 0, 'cpe_functions': 0, 'cpe_functions_losing_a_parameter': 0,
          'cpe_parameters_dropped': 0, 'cpe_parameters_replaced_by_constant': 0, 'cpe_functions_unoptimizable': 0,
          'cpe_seeded_variant_differs': 0, 'cpe_inst': [0, 0, 0, 0],
          'tail_functions': 0, 'tail_model_eq_real': 0, 'tail_changed': 0, 'tail_changed_both_branches': 0, 'tail_changed_wf': 0,
          'tail_changed_with_discard': 0, 'tail_changed_unit_param_class': 0, 'tail_unchanged_wf': 0, 'tail_seeded_variant_differs': 0, 'tail_inst': [0, 0, 0, 0],
          'runs_compared': 0, 'runs_equal': 0}
    kinds = {}
    usable = []
    for i, p in enumerate(progs):
        r = res.get(i)
        where = {'sources': p['sources'], 'entry': p['entry'], 'label': p.get('features')}
        if r is None:
            ck.obligation('mirstage-dump(program %d)' % i, False, 'no result from the harness')
            continue
        if r.get('rejected'):
            st['rejected'] += 1
            continue
        bad = False
        for key in ('lowering_panic', 'cpe_panic', 'harness_panic'):
            if key in r:
                ck.count('mir:' + key)
                if key == 'cpe_panic':
                    ck.property_failure('constant-parameter elimination panicked: ' + str(r[key])[:200], where)
                elif key == 'harness_panic':
                    ck.obligation('mirstage-dump(program %d)' % i, False, str(r[key])[:300])
                bad = True
        for t in r.get('tailrec', []):
            if 'panic' in t:
                ck.property_failure('tail-recursion rewrite panicked on %s: %s' % (t.get('name'), str(t['panic'])[:200]), where)
                bad = True
        if bad or 'cpe' not in r or 'after' not in r['cpe']:
            continue
        st['dumped'] += 1
        if r.get('pipeline_same'):
            st['pipeline_same'] += 1
        elif r.get('pipeline_same') is False:
            ck.disagree('C01mir: stages run one by one through the hooks == compile_sources_to_mir', where,
                        'the same functions', r.get('pipeline_diff'))
        for f in r['cpe']['before']:
            stmt_kinds(f['body'], kinds)
        runs = r.get('runs') or {}
        if runs:
            st['runs_compared'] += 1
            a, b, c = runs.get('before_cpe'), runs.get('after_cpe'), runs.get('after_tailrec')
            if same_run(a, b) and same_run(b, c):
                st['runs_equal'] += 1
            elif a is not None and not (a.get('overflowed') or a['ending'].get('kind') in ('out-of-fuel', 'stack-overflow', 'fault')):
                stage = 'constant-parameter elimination' if not same_run(a, b) else 'tail-recursion rewrite'
                ck.property_failure('%s changes the behaviour of the program (MIR interpreter)' % stage, where,
                                    expected={'lines': a['lines'][:20], 'ending': a['ending']},
                                    observed={'lines': (b if not same_run(a, b) else c)['lines'][:20],
                                              'ending': (b if not same_run(a, b) else c)['ending']},
                                    how='vh mirstage-dump on the sources (runs.before_cpe / after_cpe / after_tailrec)')
        usable.append(i)
    # ---- the models inside coqc
    nshard = max(1, min(NCPU, len(usable)))
    size = {i: len(json.dumps(res[i]['cpe'])) for i in usable}
    order = sorted(usable, key=lambda i: -size[i])
    shards = [order[s::nshard] for s in range(nshard)]
    jobs = []
    for si, idxs in enumerate(shards):
        parts, terms = [], []
        for i in idxs:
            d, t = gallina_job(res[i], i)
            parts.append(d)
            terms.append(t)
        jobs.append(('c01mir_%d' % si, HEADER + '\n'.join(parts) + '\nEval vm_compute in %s.\n' % g_list(terms)))
    outs = coq_eval_many(jobs, timeout=1500) if usable else []
    first_bad = {}
    for si, (rc, o) in enumerate(outs):
        resl = coq_result(o) if rc == 0 else None
        rows = None
        if resl is not None:
            try:
                rows = parse_nested(resl)
            except Exception:
                rows = None
        if rows is None or len(rows) != len(shards[si]):
            ck.obligation('model-evaluation(C01mir shard %d)' % si, False, o[-600:])
            continue
        for i, job in zip(shards[si], rows):
            p, r = progs[i], res[i]
            where = {'sources': p['sources'], 'entry': p['entry'], 'label': p.get('features')}
            cpe, icpe, itail, tails = job[0], job[1], job[2], job[3:]
            differs, wfp, seeded_eq, nfun, nlose, ndrop, nconst, nunopt = cpe
            changed_prog = r['cpe']['before'] != r['cpe']['after']
            ck.case(['cpe', r['cpe']['before']], ndrop > 0)
            st['cpe_model_eq_real'] += 1 - (1 if differs else 0)
            st['cpe_wf_prog'] += wfp
            st['cpe_programs_changed'] += 1 if changed_prog else 0
            st['cpe_functions'] += nfun
            st['cpe_functions_losing_a_parameter'] += nlose
            st['cpe_parameters_dropped'] += ndrop
            st['cpe_parameters_replaced_by_constant'] += nconst
            st['cpe_functions_unoptimizable'] += nunopt
            st['cpe_seeded_variant_differs'] += 1 - seeded_eq
            for j in range(4):
                st['cpe_inst'][j] += icpe[j]
                st['tail_inst'][j] += itail[j]
            if differs:
                ck.disagree('C01mir.ConstParam.const_param_elim vs mir_constant_param_elimination::rewrite_sources', where,
                            'const_param_elim of the real program before the stage', 'the real program after the stage differs',
                            how='vh mirstage-dump on the sources; coqc work/c01mir_%d.v (job%d)' % (si, i))
            if not wfp:
                ck.disagree('C01mir: hypothesis wf_prog of C01mir_constparam_preserves on a real program', where, 'wf_prog', 'not wf_prog')
            if icpe[2]:
                ck.property_failure('constant-parameter elimination changes behaviour (Gallina semantics of C01mir.Sem on the real MIR before / after)',
                                    where, expected='sem (after) = sem (before) for functions whose parameters survive',
                                    observed='%d of %d instances differ' % (icpe[2], sum(icpe[:3])))
            if itail[2]:
                ck.property_failure('tail-recursion rewrite changes behaviour (Gallina semantics of C01mir.Sem on the real MIR before / after)',
                                    where, expected='sem (after) = sem (before) unless out of fuel',
                                    observed='%d of %d instances differ' % (itail[2], sum(itail[:3])))
            for t, row in zip(r['tailrec'], tails):
                tdiff, changed, wft, seeded_eq_t, nd, rconst, upc = row
                st['tail_functions'] += 1
                st['tail_model_eq_real'] += 1 - tdiff
                if changed:
                    ck.case(['tail', t['before']], True)
                    st['tail_changed'] += 1
                    st['tail_changed_wf'] += wft
                    st['tail_changed_with_discard'] += 1 if nd else 0
                    st['tail_seeded_variant_differs'] += 1 - seeded_eq_t
                    if t.get('fresh'):
                        st['tail_changed_both_branches'] += 1
                else:
                    st['tail_unchanged_wf'] += wft
                fw = dict(where, function=t.get('name'))
                if tdiff:
                    ck.disagree('C01mir.TailRec.tail_rec_rewrite vs mir_tail_recursion_rewrite::optimize_function_by_tailrec_rewrite', fw,
                                'tail_rec_rewrite of the real function with the real temporaries', t.get('after'),
                                how='vh mirstage-dump on the sources; coqc work/c01mir_%d.v (job%d)' % (si, i))
                if changed and not wft:
                    if upc:
                        # a unit function that returns a unit-typed parameter at a leaf: outside the theorem (it holds only because
                        # every unit is 0, C01mir_tailrec_unit_param_refuted); the class is decided in Gallina, the function is tested
                        st['tail_changed_unit_param_class'] += 1
                    else:
                        ck.disagree('C01mir: hypothesis wf_tail of C01mir_tailrec_preserves on a real rewritten function', fw, 'wf_tail', 'not wf_tail')
    st['stmt_kinds'] = kinds
    for k, v in st.items():
        if isinstance(v, int):
            ck.count('mir:' + k, v)
    ck.extra_cov['mir_tie'] = st
    ck.obligation('C01mir tie ran', st['dumped'] > 0 and st['tail_changed'] > 0 and st['cpe_parameters_dropped'] > 0,
                  '%d programs dumped, %d functions rewritten, %d parameters dropped' % (st['dumped'], st['tail_changed'], st['cpe_parameters_dropped']))
    print('C01mir: programs=%d dumped=%d rejected=%d staged-run==pipeline:%d | cpe: model=real %d/%d wf_prog:%d changed:%d functions:%d losing:%d '
          'dropped:%d (const %d) unoptimizable:%d seeded-variant-differs:%d instances[oof,same,diff,done]=%s | tailrec: functions=%d model=real:%d '
          'rewritten:%d (both-branches %d, discard %d) wf_tail:%d unit-parameter-class:%d seeded-variant-differs:%d instances=%s | mirsem runs equal %d/%d'
          % (st['programs'], st['dumped'], st['rejected'], st['pipeline_same'], st['cpe_model_eq_real'], st['dumped'], st['cpe_wf_prog'],
             st['cpe_programs_changed'], st['cpe_functions'], st['cpe_functions_losing_a_parameter'], st['cpe_parameters_dropped'],
             st['cpe_parameters_replaced_by_constant'], st['cpe_functions_unoptimizable'], st['cpe_seeded_variant_differs'], st['cpe_inst'],
             st['tail_functions'], st['tail_model_eq_real'], st['tail_changed'], st['tail_changed_both_branches'], st['tail_changed_with_discard'],
             st['tail_changed_wf'], st['tail_changed_unit_param_class'], st['tail_seeded_variant_differs'], st['tail_inst'], st['runs_equal'], st['runs_compared']))
    print('C01mir: statement forms seen in the real programs: %s' % json.dumps(kinds, sort_keys=True))
    synthetic(ck, tier, seed)
    return ok


def run(tier='quick', seed=1, replay=None):
    # standalone: own evidence / replay directory (never /verif/evidence)
    if not vlib.ALT:
        vlib.OUT_ROOT = '/verif/work/c01mir'
    ck = Check('C01', tier, seed, level='proof')
    ck.pid = 'C01mir'
    ck.checker_cmd = 'make -C /verif/coq theories/C01mir/Props.vo (coqc 8.16.1) + Print Assumptions per theorem'
    ck.trusted = ['Coq 8.16.1 kernel; no axioms',
                  'hand-written models theories/C01mir/{TailRec,ConstParam}.v of mir_tail_recursion_rewrite.rs / mir_constant_param_elimination.rs; tie: '
                  'the models run on the real MIR before each stage must give the real MIR after it (vh mirstage-dump through the hooks '
                  'samlang_compiler::verif::{compile_sources_to_mir_before_rewrites, constant_param_elimination, tail_rec_rewrite})',
                  'program-level semantics theories/C01mir/Sem.v (decisions of harness/src/mirsem.rs; read, not generated)',
                  'JSON dump of harness/src/mirstage_dump.rs and its translation to Gallina terms in this file']
    mir(ck, tier, seed)
    return ck.finish()


if __name__ == '__main__':
    sys.exit(run(sys.argv[1] if len(sys.argv) > 1 else 'quick', int(sys.argv[2]) if len(sys.argv) > 2 else 1))
