"""C01, pattern-lowering slice (coq/theories/C01pat): hir_lowering.rs `lower_matching_pattern` turns a source pattern
(tuple, object with field positions, variant with payload patterns, or-pattern, variable, wildcard) into HIR statements
(IndexedAccess, ConditionalDestructure, IfElse with final assignments, late-init assignments) and a condition;
`lower_match` chains the arms.

Layer A: theories/C01pat/Props.v (`C01pat_lower_pattern_correct`, `C01pat_lower_match_correct`, ... for every pattern,
  every value of the right shape, every environment, every injective supply of temporaries).
Layer B: `vh hir-dump` compiles generated programs (rich patterns: or-patterns that bind inside variants inside tuples,
  out-of-order object patterns, nested matches), /repo/tests and /repo/std to HIR through the hook
  `samlang_compiler::verif::compile_sources_to_hir` and prints every match / if-let / let site of the functions in the
  fragment: the source pattern (checked AST) next to the statements emitted for it.  Inside coqc (vm_compute, sharded)
  the Gallina `lower_guard` (= declarations + `lower_pattern`) must produce exactly the real statements and condition,
  given the real temporaries as name supply; `lower_match` must produce exactly the real chain of a whole match; the
  boolean forms of the theorem's hypotheses (wf, freshness, binding keys) are evaluated on every real site; pmatch and
  run_block are evaluated on enumerated values of the scrutinee's type (values of gen/pats.py, distinct int leaves) as
  instances of the theorem on the REAL statements.
Layer C: the generated functions called on the enumerated values, end to end: expected result from a Python reading of
  the patterns (independent of the Coq model) vs the reference interpreter vs wasm vs TS.

`pat(ck, tier, seed)` is the library entry (call it from checks/c01.py); `run()` is a standalone wrapper whose
evidence / replay files go under /verif/work/c01pat_out (never /verif/evidence).
"""
import concurrent.futures
import json
import os
import re

from gen import pats as gp
from gen.rng import Rng
from lib.e2e import run_pipeline
from lib.vlib import Check, NCPU, REPO, check_props, coq_eval_many, coq_result, vh
import lib.vlib as vlib

HEADER = ('From Coq Require Import ZArith NArith List Bool. Import ListNotations.\n'
          'From SV Require Import C01pat.Syntax C01pat.Sem C01pat.Lower C01pat.Corr.\n'
          'Open Scope Z_scope.\n')


# ------------------------------------------------------------------ generator (on top of gen/pats.py)
class St:
    def __init__(self):
        self.n = 0
        self.bound = []         # (name, tyid) in binding order
        self.used = set()

    def fresh(self):
        self.n += 1
        return 'x%d' % self.n


def mk_or(alts):
    """`a | b | c` is ONE or-pattern for the parser: no or directly under or"""
    flat = []
    for a in alts:
        flat += a[1] if a[0] == 'or' else [a]
    return ('or', flat)


def gen_plain(rng, env, t, depth):
    """a pattern without variables"""
    ty = env.types[t]
    r = rng.below(100)
    if ty[0] == 'opaque' or depth <= 0 or r < 15:
        return ('wild',)
    if r < 27:
        return mk_or([gen_plain(rng, env, t, depth - 1 if ty[0] == 'enum' else depth) for _ in range(rng.range(2, 3))])
    if ty[0] == 'struct':
        if rng.chance(1, 2):
            return ('tuple', [gen_plain(rng, env, ft, depth) for _, ft in ty[2]])
        return ('object', [(fn, gen_plain(rng, env, ft, depth)) for fn, ft in rng.shuffle(ty[2])])
    vn, tys = rng.pick(ty[3])
    return ('variant', vn, [gen_plain(rng, env, x, depth - 1) for x in tys])


def slots(env, p, t, path=()):
    """wildcard leaves outside or-patterns with their types"""
    k = p[0]
    if k == 'wild':
        return [(path, t)]
    ty = env.types[t]
    out = []
    if k == 'variant':
        for i, (q, x) in enumerate(zip(p[2], dict(ty[3])[p[1]])):
            out += slots(env, q, x, path + (i,))
    elif k == 'tuple':
        for i, (q, (_, ft)) in enumerate(zip(p[1], ty[2])):
            out += slots(env, q, ft, path + (i,))
    elif k == 'object':
        fts = dict(ty[2])
        for i, (fn, q) in enumerate(p[1]):
            if q is not None:
                out += slots(env, q, fts[fn], path + (i,))
    return out


def put(p, path, leaf):
    if not path:
        return leaf
    k, i = p[0], path[0]
    if k == 'variant':
        ps = list(p[2]); ps[i] = put(ps[i], path[1:], leaf)
        return ('variant', p[1], ps)
    if k == 'tuple':
        ps = list(p[1]); ps[i] = put(ps[i], path[1:], leaf)
        return ('tuple', ps)
    els = list(p[1]); els[i] = (els[i][0], put(els[i][1], path[1:], leaf))
    return ('object', els)


def gen_pat(rng, env, t, depth, st, irrefutable=False):
    ty = env.types[t]
    r = rng.below(100)
    single = ty[0] == 'enum' and len(ty[3]) == 1
    if ty[0] == 'opaque' or depth <= 0 or r < 12 or (irrefutable and ty[0] == 'enum' and not single):
        if rng.chance(3, 5):
            x = st.fresh()
            st.bound.append((x, t))
            return ('var', x)
        return ('wild',)
    if r < 30 and not irrefutable:
        # an or-pattern whose alternatives bind the same variables (at the same types)
        sub = St(); sub.n = st.n
        first = gen_pat(rng, env, t, depth - 1 if ty[0] == 'enum' else depth, sub)
        need = sub.bound
        alts = [first]
        for _ in range(rng.range(1, 2)):
            q = gen_plain(rng, env, t, depth - 1 if ty[0] == 'enum' else depth)
            free = slots(env, q, t)
            ok = True
            for x, xt in need:
                cand = [s for s in free if s[1] == xt]
                if not cand:
                    ok = False
                    break
                s = rng.pick(cand)
                free.remove(s)
                q = put(q, s[0], ('var', x))
            alts.append(q if ok else first)
        st.n = sub.n
        st.bound += need
        return mk_or(rng.shuffle(alts))
    if ty[0] == 'struct':
        if rng.chance(1, 2):
            return ('tuple', [gen_pat(rng, env, ft, depth, st, irrefutable) for _, ft in ty[2]])
        els = []
        for fn, ft in rng.shuffle(ty[2]):        # an object pattern mentions every field, in any order
            els.append((fn, gen_pat(rng, env, ft, depth, st, irrefutable)))
        return ('object', els)
    vn, tys = ty[3][0] if irrefutable else rng.pick(ty[3])
    return ('variant', vn, [gen_pat(rng, env, x, depth - 1, st, irrefutable) for x in tys])


# ---- a Python reading of the patterns (independent of the Coq model): bindings or None
def pm(env, p, t, v):
    k = p[0]
    if k == 'wild':
        return {}
    if k == 'var':
        return {p[1]: v}
    ty = env.types[t]
    if k == 'variant':
        if v[0] != 'C' or v[1] != p[1]:
            return None
        out = {}
        for q, x, w in zip(p[2], dict(ty[3])[p[1]], v[2]):
            b = pm(env, q, x, w)
            if b is None:
                return None
            out.update(b)
        return out
    if k == 'tuple':
        out = {}
        for q, (_, ft), w in zip(p[1], ty[2], v[1]):
            b = pm(env, q, ft, w)
            if b is None:
                return None
            out.update(b)
        return out
    if k == 'object':
        idx = {fn: i for i, (fn, _) in enumerate(ty[2])}
        out = {}
        for fn, q in p[1]:
            b = pm(env, q, ty[2][idx[fn]][1], v[1][idx[fn]])
            if b is None:
                return None
            out.update(b)
        return out
    for q in p[1]:
        b = pm(env, q, t, v)
        if b is not None:
            return b
    return None


def number_leaves(v, ctr):
    """distinct int leaves"""
    if v[0] == 'O':
        ctr[0] += 1
        return ('I', ctr[0])
    if v[0] == 'S':
        return ('S', tuple(number_leaves(w, ctr) for w in v[1]))
    return ('C', v[1], tuple(number_leaves(w, ctr) for w in v[2]))


def type_values(env, t, depth, cap=400):
    for d in range(depth, -1, -1):
        try:
            vs = gp.values(env, t, d, [cap])
            return [number_leaves(v, [10 * i]) for i, v in enumerate(vs)]
        except OverflowError:
            continue
    return [number_leaves(gp.default_value(env, t), [0])]


# ---- bodies: ('lit', k) | ('var', x) | ('match', x, ty, [(pat, body)]) | ('iflet', x, ty, pat, body, body)
#              | ('let', [(pat, x, ty)], body)
def int_vars(env, bound):
    return [x for x, t in bound if env.types[t] == ('opaque', 'int')]


def class_vars(env, bound):
    return [(x, t) for x, t in bound if env.types[t][0] != 'opaque']


def gen_body(rng, env, bound, lit, nest, ctr):
    iv = int_vars(env, bound)
    cv = class_vars(env, bound)
    r = rng.below(10)
    if nest > 0 and cv and r < 4:
        x, t = rng.pick(cv)
        return gen_site(rng, env, x, t, nest - 1, ctr, rng.pick(['match', 'match', 'iflet', 'let']))
    if iv and r < 8:
        return ('var', rng.pick(iv))
    ctr[0] += 1
    return ('lit', lit * 100 + ctr[0])


def gen_site(rng, env, x, t, nest, ctr, kind):
    depth = rng.range(1, 3)
    vals = type_values(env, t, depth + 1)
    if kind == 'match':
        arms = []
        for i in range(rng.range(1, 4)):
            st = St(); st.n = ctr[1]
            p = gen_pat(rng, env, t, depth, st)
            ctr[1] = st.n
            arms.append((p, gen_body(rng, env, st.bound, i + 1, nest, ctr)))
        covered = all(any(pm(env, p, t, strip(v)) is not None for p, _ in arms) for v in vals)
        if not covered or rng.chance(1, 4):
            ctr[0] += 1
            arms.append((('wild',), ('lit', 900 + ctr[0])))
        return ('match', x, t, arms)
    if kind == 'iflet':
        for _ in range(6):
            st = St(); st.n = ctr[1]
            p = gen_pat(rng, env, t, depth, st)
            if any(pm(env, p, t, strip(v)) is None for v in vals):     # an always-matching guard is rejected as useless
                ctr[1] = st.n
                b1 = gen_body(rng, env, st.bound, 5, nest, ctr)
                if rng.chance(1, 3):
                    b2 = gen_site(rng, env, x, t, 0, ctr, 'iflet')
                else:
                    ctr[0] += 1
                    b2 = ('lit', 700 + ctr[0])
                return ('iflet', x, t, p, b1, b2)
        return gen_site(rng, env, x, t, nest, ctr, 'match')
    # let: irrefutable patterns; the first on x, the following ones on x or on variables bound so far
    lets = []
    bound = []
    avail = [(x, t)]
    for i in range(rng.range(1, 2)):
        sx, stt = rng.pick(avail)
        st = St(); st.n = ctr[1]
        p = gen_pat(rng, env, stt, depth, st, irrefutable=True)
        ctr[1] = st.n
        if i > 0 and not st.bound:
            break                     # a later let must begin with a declaration (the fragment's cutting rule)
        lets.append((p, sx, stt))
        bound += st.bound
        avail += class_vars(env, st.bound)
    return ('let', lets, gen_body(rng, env, bound, 3, 0, ctr))


def strip(v):
    """numbered value -> gen/pats value"""
    if v[0] == 'I':
        return ('O',)
    if v[0] == 'S':
        return ('S', tuple(strip(w) for w in v[1]))
    return ('C', v[1], tuple(strip(w) for w in v[2]))


def render_body(b):
    k = b[0]
    if k == 'lit':
        return str(b[1])
    if k == 'var':
        return b[1]
    if k == 'match':
        return 'match %s { %s }' % (b[1], ', '.join('%s -> %s' % (gp.render_pat(p), render_body(e)) for p, e in b[3]))
    if k == 'iflet':
        return 'if let %s = %s { %s } else %s' % (gp.render_pat(b[3]), b[1], render_body(b[4]),
                                                  render_body(b[5]) if b[5][0] == 'iflet' else '{ %s }' % render_body(b[5]))
    return '{ %s %s }' % (' '.join('let %s = %s;' % (gp.render_pat(p), x) for p, x, _ in b[1]), render_body(b[2]))


def pm_num(env, p, t, v):
    """pm on numbered values (leaves ('I', k))"""
    k = p[0]
    if k == 'wild':
        return {}
    if k == 'var':
        return {p[1]: v}
    ty = env.types[t]
    if k == 'variant':
        if v[0] != 'C' or v[1] != p[1]:
            return None
        out = {}
        for q, x, w in zip(p[2], dict(ty[3])[p[1]], v[2]):
            b = pm_num(env, q, x, w)
            if b is None:
                return None
            out.update(b)
        return out
    if k == 'tuple':
        out = {}
        for q, (_, ft), w in zip(p[1], ty[2], v[1]):
            b = pm_num(env, q, ft, w)
            if b is None:
                return None
            out.update(b)
        return out
    if k == 'object':
        idx = {fn: i for i, (fn, _) in enumerate(ty[2])}
        out = {}
        for fn, q in p[1]:
            b = pm_num(env, q, ty[2][idx[fn]][1], v[1][idx[fn]])
            if b is None:
                return None
            out.update(b)
        return out
    for q in p[1]:
        b = pm_num(env, q, t, v)
        if b is not None:
            return b
    return None


def eval_body(env, b, vars_):
    k = b[0]
    if k == 'lit':
        return b[1]
    if k == 'var':
        w = vars_[b[1]]
        return w[1] if w[0] == 'I' else None
    if k == 'match':
        for p, e in b[3]:
            bd = pm_num(env, p, b[2], vars_[b[1]])
            if bd is not None:
                return eval_body(env, e, dict(vars_, **bd))
        return 'panic'
    if k == 'iflet':
        bd = pm_num(env, b[3], b[2], vars_[b[1]])
        if bd is not None:
            return eval_body(env, b[4], dict(vars_, **bd))
        return eval_body(env, b[5], vars_)
    vs = dict(vars_)
    for p, x, t in b[1]:
        bd = pm_num(env, p, t, vs[x])
        if bd is None:
            return 'let-failed'
        vs.update(bd)
    return eval_body(env, b[2], vs)


def sites_of(b):
    """(kind, scrutinee type, patterns) in the order in which `vh hir-dump` lists the sites of a function"""
    k = b[0]
    if k in ('lit', 'var'):
        return []
    if k == 'match':
        out = [('match', b[2], [p for p, _ in b[3]])]
        for _, e in b[3]:
            out += sites_of(e)
        return out
    if k == 'iflet':
        return [('iflet', b[2], [b[3]])] + sites_of(b[4]) + sites_of(b[5])
    return [('let', t, [p]) for p, _, t in b[1]] + sites_of(b[2])


def render_value(env, t, v):
    ty = env.types[t]
    if ty[0] == 'opaque':
        if ty[1] == 'int':
            return str(v[1])
        if ty[1] == 'bool':
            return 'true' if v[1] % 2 else 'false'
        return '"s%d"' % v[1]
    if ty[0] == 'struct':
        return '%s.init(%s)' % (ty[1], ', '.join(render_value(env, ft, w) for (_, ft), w in zip(ty[2], v[1])))
    tys = dict(ty[3])[v[1]]
    return '%s.%s(%s)' % (ty[1], v[1], ', '.join(render_value(env, x, w) for x, w in zip(tys, v[2])))


def gen_function_program(rng, idx):
    """One generated type environment and ONE function over it (a rejected function loses nothing else)."""
    env = gp.gen_env(rng)
    cls = [i for i, t in enumerate(env.types) if t[0] != 'opaque']
    t = rng.pick(cls)
    ctr = [0, 0]
    kind = rng.pick(['match', 'match', 'match', 'iflet', 'iflet', 'let'])
    body = gen_site(rng, env, 'v', t, 1, ctr, kind)
    decls = gp.render_env(env)
    fn = '  function f(v: %s): int = %s' % (env.name(t), render_body(body))
    text = '\n'.join(decls + ['class Main {', fn, '  function main(): unit = {}', '}']) + '\n'
    return {'env': env, 'ty': t, 'body': body, 'text': text, 'decls': decls, 'fn': fn, 'label': 'gen:%d:%s' % (idx, kind)}


FIXED = [
    # corpus/C01/004-object-pattern-out-of-order.sam on a parameter, plus the forms side by side
    ('class P(val a: int, val b: int) {}\nclass Main {\n  function f(v: P): int = { let { b, a } = v; a }\n  function main(): unit = {}\n}\n', 'fixed:object-out-of-order'),
    ('class P(val a: int, val b: int) {}\nclass E(A(int, P), B, C(E)) {}\nclass Q(val e: E, val p: P) {}\nclass Main {\n'
     '  function f(v: E): int = match v { A(x, { b as y, a as z }) -> x, B | C(B) -> 1, C(A(k, _) | C(A(k, _))) -> k, _ -> 0 }\n'
     '  function g(v: Q): int = if let { p as { b, a as q }, e as B } = v { q } else { 0 }\n'
     '  function h(v: P): int = { let (a, b) = v; a }\n'
     '  function k(v: E): int = if let A(_, (_, x)) = v { x } else if let C(C(A(y, _)) | A(y, _)) = v { y } else { 2 }\n'
     '  function m(v: Q): int = match v { { e as A(n, (p, q)), p as (r, s) } -> match v { _ -> 1 }, (C(w), _) -> match w { B -> 4, _ -> 5 }, _ -> 6 }\n'
     '  function main(): unit = {}\n}\n', 'fixed:forms'),
]


# ------------------------------------------------------------------ JSON (vh hir-dump) -> Gallina
class Names:
    def __init__(self):
        self.h = {}
        self.s = {}

    def hir(self, x):
        return self.h.setdefault(x, len(self.h) + 1)

    def src(self, x):
        return self.s.setdefault(x, len(self.s) + 1)


OTHER = 10 ** 10


def g_expr(e, nm):
    if e[0] == 'i':
        return '(EInt (%d))' % e[1]
    if e[0] == 'o':
        return '(EInt (%d))' % (OTHER + nm.hir('o:' + e[1]))
    return '(EVar %d%%N)' % nm.hir(e[1])


def g_fas(fas, nm):
    return '[' + '; '.join('(%d%%N, %s, %s)' % (nm.hir(f[0]), g_expr(f[1], nm), g_expr(f[2], nm)) for f in fas) + ']'


def g_stmts(ss, nm):
    return '[' + '; '.join(g_stmt(s, nm) for s in ss) + ']'


def g_stmt(s, nm):
    k = s[0]
    if k == 'idx':
        return '(SIndex %d%%N %s %d%%nat)' % (nm.hir(s[1]), g_expr(s[2], nm), s[3])
    if k == 'destr':
        bs = '[' + '; '.join('None' if b is None else '(Some %d%%N)' % nm.hir(b) for b in s[3]) + ']'
        return '(SDestr %s %d%%nat %s %s %s %s)' % (g_expr(s[1], nm), s[2], bs, g_stmts(s[4], nm), g_stmts(s[5], nm), g_fas(s[6], nm))
    if k == 'if':
        return '(SIf %s %s %s %s)' % (g_expr(s[1], nm), g_stmts(s[2], nm), g_stmts(s[3], nm), g_fas(s[4], nm))
    if k == 'decl':
        return '(SDecl %d%%N)' % nm.hir(s[1])
    if k == 'asg':
        return '(SAssign %d%%N %s)' % (nm.hir(s[1]), g_expr(s[2], nm))
    if k == 'panic':
        if s[1] is None:
            raise ValueError('panic call without collector')
        return '(SPanic %d%%N)' % nm.hir(s[1])
    raise ValueError(k)


def g_pat(p, nm):
    k = p[0]
    if k == 'wild':
        return 'PWild'
    if k == 'var':
        return '(PVar %d%%N)' % nm.src(p[1])
    if k == 'tuple':
        return '(PTuple [%s])' % '; '.join(g_pat(q, nm) for q in p[1])
    if k == 'object':
        return '(PObject [%s])' % '; '.join('(%d%%nat, %s)' % (i, g_pat(q, nm)) for i, q in p[1])
    if k == 'variant':
        return '(PVariant %d%%nat [%s])' % (p[1], '; '.join(g_pat(q, nm) for q in p[2]))
    return '(POr [%s])' % '; '.join(g_pat(q, nm) for q in p[1])


def g_value(env, t, v):
    ty = env.types[t]
    if v[0] == 'I':
        return '(VInt %d)' % v[1]
    if v[0] == 'S':
        return '(VStruct [%s])' % '; '.join(g_value(env, ft, w) for (_, ft), w in zip(ty[2], v[1]))
    names = [vn for vn, _ in ty[3]]
    return '(VVariant %d%%nat [%s])' % (names.index(v[1]), '; '.join(g_value(env, x, w) for x, w in zip(dict(ty[3])[v[1]], v[2])))


def in_fragment(ss):
    for s in ss:
        if s[0] == 'out' or (s[0] == 'panic' and s[1] is None):
            return False
        if s[0] == 'destr' and not (in_fragment(s[4]) and in_fragment(s[5])):
            return False
        if s[0] == 'if' and not (in_fragment(s[2]) and in_fragment(s[3])):
            return False
    return True


def defined(ss, out):
    """names a statement list defines, in no particular order"""
    for s in ss:
        k = s[0]
        if k in ('idx', 'decl'):
            out.add(s[1])
        elif k == 'panic' and s[1] is not None:
            out.add(s[1])
        elif k == 'destr':
            out.update(b for b in s[3] if b is not None)
            defined(s[4], out); defined(s[5], out)
            out.update(f[0] for f in s[6])
        elif k == 'if':
            defined(s[2], out); defined(s[3], out)
            out.update(f[0] for f in s[4])
    return out


def temp_order(name):
    m = re.fullmatch(r'_t(\d+)', name)
    return (int(m.group(1)) if m else 1 << 60, name)


def size(ss):
    n = 0
    for s in ss:
        n += 1
        if s[0] == 'destr':
            n += size(s[4]) + size(s[5])
        elif s[0] == 'if':
            n += size(s[2]) + size(s[3])
    return n


def site_case(site, arm, gvals):
    """Gallina `site` tuple for one arm / guard / let"""
    nm = Names()
    e = g_expr(site['scrutinee'], nm)
    real = [['decl', h] for _, h in arm['bn']] + arm['stmts']
    for _, h in arm['bn']:
        nm.hir(h)
    supply = sorted(defined(real, set()), key=temp_order)
    if any(temp_order(x)[0] == 1 << 60 for x in supply):
        return None
    p = g_pat(arm['pattern'], nm)
    bs = '[' + '; '.join('%d%%N' % nm.src(s) for s, _ in arm['bn']) + ']'
    rc = 'None' if arm['cond'] is None else '(Some %s)' % g_expr(arm['cond'], nm)
    gv = '[' + '; '.join(gvals) + ']'
    return '(%s, %s, %s,\n  %s,\n  %s, [%s],\n  %s)' % (p, bs, e, g_stmts(real, nm), rc, '; '.join('%d%%N' % nm.hir(x) for x in supply), gv)


def chain_case(site, gvals):
    nm = Names()
    e = g_expr(site['scrutinee'], nm)
    chain = site['chain']
    if not in_fragment(chain) or site['panic'] is None:
        return None
    supply = sorted(defined(chain, set()), key=temp_order)
    if any(temp_order(x)[0] == 1 << 60 for x in supply):
        return None
    arms = []
    for a in site['arms']:
        body = a['body']
        k = len(defined(body['stmts'], set()))
        arms.append('(%s, [%s], %s, %s, %d%%nat)' % (g_pat(a['pattern'], nm), '; '.join('%d%%N' % nm.src(s) for s, _ in a['bn']),
                                                    g_stmts(body['stmts'], nm), g_expr(body['expr'], nm), k))
    gv = '[' + '; '.join(gvals) + ']'
    return '([%s],\n  %s, %s,\n  %s, [%s],\n  %s)' % (';\n   '.join(arms), e, g_stmts(chain, nm), g_expr(site['result'], nm),
                                                     '; '.join('%d%%N' % nm.hir(x) for x in supply), gv)


def same_pattern(jp, p, env, t):
    """the dumped pattern is the generated one (pairing sanity)"""
    k = p[0]
    if k == 'wild':
        return jp[0] == 'wild'
    if k == 'var':
        return jp[0] == 'var' and jp[1] == p[1]
    ty = env.types[t]
    if k == 'variant':
        names = [vn for vn, _ in ty[3]]
        return jp[0] == 'variant' and jp[1] == names.index(p[1]) and len(jp[2]) == len(p[2]) and all(
            same_pattern(a, b, env, x) for a, b, x in zip(jp[2], p[2], dict(ty[3])[p[1]]))
    if k == 'tuple':
        return jp[0] == 'tuple' and len(jp[1]) == len(p[1]) and all(same_pattern(a, b, env, ft) for a, b, (_, ft) in zip(jp[1], p[1], ty[2]))
    if k == 'object':
        idx = {fn: i for i, (fn, _) in enumerate(ty[2])}
        return jp[0] == 'object' and len(jp[1]) == len(p[1]) and all(
            a[0] == idx[fn] and same_pattern(a[1], q, env, ty[2][idx[fn]][1]) for a, (fn, q) in zip(jp[1], p[1]))
    return jp[0] == 'or' and len(jp[1]) == len(p[1]) and all(same_pattern(a, b, env, t) for a, b in zip(jp[1], p[1]))


# ------------------------------------------------------------------ harness
def dump(jobs):
    chunks = [jobs[i::NCPU] for i in range(NCPU)]

    def run_chunk(c):
        if not c:
            return []
        rc, out = vh(['hir-dump'], input='\n'.join(json.dumps(j) for j in c) + '\n', timeout=1200)
        return [json.loads(l) for l in out.splitlines() if l.startswith('{')]
    res = {}
    with concurrent.futures.ThreadPoolExecutor(max_workers=NCPU) as ex:
        for part in ex.map(run_chunk, chunks):
            for r in part:
                res[r.get('id')] = r
    return res


def repo_jobs():
    """the real programs: /repo/std alone, and /repo/tests together with /repo/std (the tests import it)"""
    std, tests = {}, {}
    for fn in sorted(os.listdir(os.path.join(REPO, 'std'))):
        if fn.endswith('.sam'):
            std['std.' + fn[:-4]] = open(os.path.join(REPO, 'std', fn)).read()
    for fn in sorted(os.listdir(os.path.join(REPO, 'tests'))):
        if fn.endswith('.sam'):
            tests['tests.' + fn[:-4]] = open(os.path.join(REPO, 'tests', fn)).read()
    return [{'id': 'repo:std', 'sources': std, 'with_std': True},
            {'id': 'repo:tests+std', 'sources': dict(std, **tests), 'with_std': True}]


def eval_rows(ck, name, texts, fn, width):
    """texts: list of Gallina case texts; returns list of rows (or None) in the same order"""
    order = sorted(range(len(texts)), key=lambda j: -len(texts[j]))
    nshard = max(1, min(NCPU, len(texts)))
    shards = [order[s::nshard] for s in range(nshard)]
    jobs = []
    for si, idxs in enumerate(shards):
        ty = 'site' if fn == 'tie_sites' else 'chain'
        body = HEADER + 'Definition cs : list %s := [\n%s].\nEval vm_compute in (%s cs).\n' % (ty, ';\n'.join(texts[j] for j in idxs), fn)
        jobs.append(('c01pat_%s_%d' % (name, si), body))
    outs = coq_eval_many(jobs, timeout=900) if texts else []
    rows = [None] * len(texts)
    for si, (rc, o) in enumerate(outs):
        resl = coq_result(o) if rc == 0 else None
        if resl is None:
            ck.obligation('model-evaluation(C01pat %s shard %d)' % (name, si), False, o[-600:])
            continue
        got = [[int(x) for x in re.findall(r'(\d+)%N', g)] for g in re.findall(r'\[([^\[\]]*)\]', resl)]
        if len(got) != len(shards[si]) or any(len(r) != width for r in got):
            ck.obligation('model-evaluation(C01pat %s shard %d)' % (name, si), False, 'expected %d rows of %d, got %d' % (len(shards[si]), width, len(got)))
            continue
        for j, row in zip(shards[si], got):
            rows[j] = row
    return rows


# ------------------------------------------------------------------ the check
def pat(ck, tier, seed):
    check_props(ck, 'theories/C01pat/Props.v')
    rng = Rng(seed ^ 0xC01BA7)
    ngen = 700 if tier == 'quick' else 9000
    gens = []
    for i in range(ngen):
        gens.append(gen_function_program(rng.fork(), i))
    jobs = [{'id': 'gen:%d' % i, 'sources': {'Main': g['text']}, 'with_std': False} for i, g in enumerate(gens)]
    jobs += [{'id': 'fixed:%d' % i, 'sources': {'Main': t}, 'with_std': False} for i, (t, _) in enumerate(FIXED)]
    jobs += repo_jobs()
    res = dump(jobs)

    site_texts, site_meta = [], []      # per arm / guard / let
    chain_texts, chain_meta = [], []
    cov = {'generated': [0, 0], 'fixed': [0, 0], 'repo:std': [0, 0], 'repo:tests+std': [0, 0]}
    outside = {}
    rejected = {}
    shapes = {}
    accepted = []

    def feature(p, acc):
        acc.add(p[0])
        if p[0] in ('tuple', 'or'):
            for q in p[1]:
                feature(q, acc)
        elif p[0] == 'object':
            if [i for i, _ in p[1]] != sorted(i for i, _ in p[1]):
                acc.add('object-out-of-order')
            for _, q in p[1]:
                feature(q, acc)
        elif p[0] == 'variant':
            for q in p[2]:
                feature(q, acc)
        if p[0] == 'or' and any(has_var(q) for q in p[1]):
            acc.add('or-that-binds')

    def has_var(p):
        if p[0] == 'var':
            return True
        if p[0] in ('tuple', 'or'):
            return any(has_var(q) for q in p[1])
        if p[0] == 'object':
            return any(has_var(q) for _, q in p[1])
        if p[0] == 'variant':
            return any(has_var(q) for q in p[2])
        return False

    for jid, r in sorted(res.items(), key=lambda kv: str(kv[0])):
        group = 'generated' if str(jid).startswith('gen:') else 'fixed' if str(jid).startswith('fixed:') else jid
        if 'lowering_panic' in r or 'harness_panic' in r:
            ck.property_failure('lowering to HIR panicked: ' + str(r.get('lowering_panic') or r.get('harness_panic'))[:200],
                                {'job': jid, 'sources': next((j['sources'] for j in jobs if j['id'] == jid), None)})
            continue
        if r.get('rejected'):
            for k in r.get('error_kinds', [])[:1]:
                rejected[k] = rejected.get(k, 0) + 1
            if group in ('fixed', 'repo:std', 'repo:tests+std'):
                ck.obligation('C01pat: %s compiles' % jid, False, str(r.get('error_kinds'))[:200])
            continue
        tot = r['total']
        nsites_total = tot['match_arms'] + tot['iflet'] + tot['let']
        ntied = sum(len(s['arms']) for s in r['sites'])
        cov[group][0] += ntied
        cov[group][1] += nsites_total
        for k, v in r.get('outside', {}).items():
            outside[(group, k)] = outside.get((group, k), 0) + v
        g = gens[int(jid[4:])] if group == 'generated' else None
        expect = sites_of(g['body']) if g else None
        if g:
            accepted.append(g)
            if len(expect) != len(r['sites']) or any(e[0] != s['kind'] or len(e[2]) != len(s['arms']) for e, s in zip(expect, r['sites'])):
                ck.disagree('C01pat: sites of a generated function found by vh hir-dump', {'sources': {'Main': g['text']}},
                            [(e[0], len(e[2])) for e in expect], [(s['kind'], len(s['arms'])) for s in r['sites']])
                expect = None
        for si, s in enumerate(r['sites']):
            gvals = []
            if expect is not None:
                kind, t, ps = expect[si]
                if all(same_pattern(a['pattern'], p, g['env'], t) for a, p in zip(s['arms'], ps)):
                    gvals = [g_value(g['env'], t, v) for v in type_values(g['env'], t, 3, cap=60 if tier == 'quick' else 200)]
                else:
                    ck.disagree('C01pat: pattern of a generated site as dumped from the checked AST', {'sources': {'Main': g['text']}, 'site': si},
                                [gp.render_pat(p) for p in ps], [a['pattern'] for a in s['arms']])
            for ai, a in enumerate(s['arms']):
                if not in_fragment(a['stmts']):
                    outside[(group, 'pattern statements outside the fragment')] = outside.get((group, 'pattern statements outside the fragment'), 0) + 1
                    continue
                text = site_case(s, a, gvals)
                if text is None:
                    outside[(group, 'a defined name is not a temporary')] = outside.get((group, 'a defined name is not a temporary'), 0) + 1
                    continue
                fs = set()
                feature(a['pattern'], fs)
                for f in fs:
                    shapes[f] = shapes.get(f, 0) + 1
                site_texts.append(text)
                site_meta.append((jid, s, ai, len(gvals)))
            if s['kind'] == 'match':
                text = chain_case(s, gvals)
                if text is not None:
                    chain_texts.append(text)
                    chain_meta.append((jid, s, len(gvals)))
                else:
                    ck.count('pat:chain:body-outside-fragment')

    def src_of(jid):
        return next((j['sources'] for j in jobs if j['id'] == jid), None) if not str(jid).startswith('repo:') else str(jid)

    # distinct cases only
    def uniq(texts, meta):
        seen, t2, m2 = {}, [], []
        for t, m in zip(texts, meta):
            if t not in seen:
                seen[t] = 1
                t2.append(t); m2.append(m)
        return t2, m2
    nsite_cases, nchain_cases = len(site_texts), len(chain_texts)
    site_texts, site_meta = uniq(site_texts, site_meta)
    chain_texts, chain_meta = uniq(chain_texts, chain_meta)

    rows = eval_rows(ck, 'site', site_texts, 'tie_sites', 8)
    st = {'pattern_cases': nsite_cases, 'distinct': len(site_texts), 'model_equals_real': 0, 'wf': 0, 'binding_keys_ok': 0, 'supply_fresh': 0,
          'instances_match': 0, 'instances_no_match': 0, 'instances_DISAGREE': 0, 'instances_shape_false': 0}
    for row, (jid, s, ai, nv) in zip(rows, site_meta):
        if row is None:
            continue
        differs, wf, keys, fresh, im, inm, bad, shf = row
        a = s['arms'][ai]
        where = {'sources': src_of(jid), 'function': s['function'], 'kind': s['kind'], 'arm': ai, 'pattern': a['pattern']}
        ck.case(['pat', a['pattern'], a['stmts']], a['pattern'][0] not in ('wild', 'var'))
        st['model_equals_real'] += 1 - differs
        st['wf'] += wf; st['binding_keys_ok'] += keys; st['supply_fresh'] += fresh
        st['instances_match'] += im; st['instances_no_match'] += inm; st['instances_DISAGREE'] += bad; st['instances_shape_false'] += shf
        if differs:
            ck.disagree('C01pat.Lower.lower_guard (declarations + lower_pattern) vs hir_lowering.rs lower_matching_pattern', where,
                        'Lower.lower_pattern of the source pattern with the real temporaries as name supply',
                        {'bn': a['bn'], 'stmts': a['stmts'], 'cond': a['cond']}, how='vh hir-dump on the sources; coqc work/c01pat_site_*.v')
        if not wf:
            ck.disagree('C01pat: hypothesis wf of C01pat_lower_pattern_correct on a real pattern (or-alternatives bind the same names)', where, 'wf', 'not wf')
        if not keys:
            ck.disagree('C01pat: the late-init declarations are one per key of pattern.bindings() and cover the variables of the pattern', where, 'ok', a['bn'])
        if not fresh:
            ck.disagree('C01pat: the temporaries of a real lowering are pairwise different and do not include the matched variable', where, 'fresh', a['stmts'])
        if bad or shf:
            ck.property_failure('the HIR statements emitted for a pattern do not compute the pattern (Gallina pmatch vs run_block of C01pat.Sem on the REAL statements)',
                                where, expected='condition = 1 iff pmatch = Some b, and then every late-init variable holds its binding; no fault',
                                observed={'stmts': a['stmts'], 'cond': a['cond'], 'disagreeing_instances': bad, 'ill-shaped instances': shf},
                                how='vh hir-dump on the sources; coqc work/c01pat_site_*.v')
    crow = eval_rows(ck, 'chain', chain_texts, 'tie_chains', 5)
    cs = {'match_cases': nchain_cases, 'distinct': len(chain_texts), 'model_equals_real': 0, 'arms_ok': 0, 'supply_fresh': 0,
          'instances_agree': 0, 'instances_DISAGREE': 0}
    for row, (jid, s, nv) in zip(crow, chain_meta):
        if row is None:
            continue
        differs, armsok, fresh, ok, bad = row
        where = {'sources': src_of(jid), 'function': s['function'], 'arms': [a['pattern'] for a in s['arms']]}
        ck.case(['chain', s['chain']], len(s['arms']) > 1)
        cs['model_equals_real'] += 1 - differs
        cs['arms_ok'] += armsok; cs['supply_fresh'] += fresh; cs['instances_agree'] += ok; cs['instances_DISAGREE'] += bad
        if differs:
            ck.disagree('C01pat.Lower.lower_match vs hir_lowering.rs lower_match', where, 'Lower.lower_match of the arms with the real temporaries',
                        s['chain'], how='vh hir-dump on the sources; coqc work/c01pat_chain_*.v')
        if not armsok or not fresh:
            ck.disagree('C01pat: hypotheses of C01pat_lower_match_correct on a real match', where, 'arm_ok / fresh', [armsok, fresh])
        if bad:
            ck.property_failure('the HIR chain emitted for a match does not take the first matching arm (Gallina first_match vs run_block on the REAL chain)',
                                where, expected='result of the first arm whose pattern matches / panic iff none', observed={'chain': s['chain'], 'disagreeing_instances': bad})
    for k, v in st.items():
        ck.count('pat:tie:' + k, v)
    for k, v in cs.items():
        ck.count('pat:chain:' + k, v)
    for k, v in sorted(shapes.items()):
        ck.count('pat:shape:' + k, v)
    covd = {k: {'tied': v[0], 'total_sites': v[1], 'coverage': round(v[0] / v[1], 3) if v[1] else None} for k, v in cov.items()}
    ck.extra_cov['pat_fragment_coverage'] = covd
    ck.extra_cov['pat_outside_reasons'] = {'%s: %s' % k: v for k, v in sorted(outside.items())}
    ck.extra_cov['pat_generated'] = {'programs': len(gens), 'accepted': len(accepted), 'rejected_by_first_error': rejected}
    ck.extra_cov['pat_tie'] = st
    ck.extra_cov['pat_chain_tie'] = cs
    ck.obligation('C01pat tie ran', st['distinct'] > 50 and cs['distinct'] > 10, '%d distinct pattern cases, %d distinct matches' % (st['distinct'], cs['distinct']))
    print('C01pat: generated %d programs, %d accepted (rejected: %s)' % (len(gens), len(accepted), rejected))
    print('C01pat: fragment coverage (pattern sites tied / all match arms + if-let + let of the sources): %s' % json.dumps(covd))
    print('C01pat: outside: %s' % json.dumps(ck.extra_cov['pat_outside_reasons']))
    print('C01pat: pattern tie %s' % json.dumps(st))
    print('C01pat: match tie %s' % json.dumps(cs))
    print('C01pat: shapes %s' % json.dumps(shapes))
    if site_meta:
        jid, s, ai, _ = site_meta[0]
        ck.sample({'pat_case': {'function': s['function'], 'arm': s['arms'][ai]}})

    # ---- monitor: the generated functions on enumerated values, end to end
    e2e(ck, tier, accepted)


def e2e(ck, tier, accepted):
    nprog = 24 if tier == 'quick' else 200
    picked = [g for g in accepted if g['body'][0] != 'lit'][:nprog * 3]
    progs = []
    for gi in range(0, len(picked), 3):
        grp = picked[gi:gi + 3]
        # each function keeps its own type environment: rename classes apart with a per-function suffix
        decls, fns, calls, expect = [], [], [], []
        for k, g in enumerate(grp):
            suf = 'q%d' % k
            def ren(text):
                return re.sub(r'\b([SE]\d+)\b', lambda m: m.group(1) + suf, text)
            decls += [ren(d) for d in g['decls']]
            fns.append(ren(g['fn']).replace('function f(', 'function f%d(' % k))
            vals = type_values(g['env'], g['ty'], 2, cap=12)
            for v in vals:
                ex = eval_body(g['env'], g['body'], {'v': v})
                if ex in ('panic', 'let-failed', None):
                    continue
                calls.append('    Process.println(Str.fromInt(Main.f%d(%s)));' % (k, ren(render_value(g['env'], g['ty'], v))))
                expect.append(str(ex))
        text = '\n'.join(decls + ['class Main {'] + fns + ['  function main(): unit = {'] + calls + ['  }', '}']) + '\n'
        progs.append({'sources': {'Main': text}, 'entry': 'Main', 'expect': expect})
    recs = run_pipeline(progs, 'c01pat')
    compared = 0
    for p, rec in zip(progs, recs):
        if rec['compile'] != 'ok':
            ck.count('pat:e2e:not-compiled:' + str(rec['compile'])[:20])
            if str(rec['compile']).startswith('panic'):
                ck.property_failure('compiler panic on a generated pattern program: ' + str(rec['compile'])[:200], {'sources': p['sources'], 'entry': 'Main'})
            continue
        for eng in ('src', 'wasm', 'ts'):
            o = rec[eng]
            if o is None:
                if eng == 'wasm' and not rec['engine_ok']:
                    ck.notes.append('WebAssembly engine unavailable: wasm side of the pattern programs skipped')
                continue
            compared += 1
            if o['lines'] != p['expect'] or o['ending']['kind'] != 'return':
                n = min(len(o['lines']), len(p['expect']))
                k = next((i for i in range(n) if o['lines'][i] != p['expect'][i]), n)
                what = 'the reference interpreter (harness oracle)' if eng == 'src' else 'the emitted ' + eng
                ck.property_failure('pattern program: %s differs from the Python reading of the patterns at line %d' % (what, k),
                                    {'sources': p['sources'], 'entry': 'Main'}, expected={'lines': p['expect'][:k + 3]},
                                    observed={'lines': o['lines'][:k + 3], 'ending': o['ending']},
                                    how='vh front {sources, entries:[Main], compile:true, out_dir}; node engines/run_ts.js out/Main.ts; engines/run_wasm.js')
                break
    ck.count('pat:e2e:programs', len(progs))
    ck.count('pat:e2e:engine-runs-compared', compared)
    ck.count('pat:e2e:calls', sum(len(p['expect']) for p in progs))
    ck.extra_cov['pat_e2e'] = {'programs': len(progs), 'engine_runs_compared': compared, 'calls': sum(len(p['expect']) for p in progs)}
    print('C01pat: e2e programs=%d calls=%d engine runs compared=%d' % (len(progs), sum(len(p['expect']) for p in progs), compared))


def run(tier='quick', seed=1, replay=None):
    if not vlib.ALT:
        vlib.OUT_ROOT = os.path.join(vlib.ROOT, 'work', 'c01pat_out')      # evidence / replay of the standalone run: never /verif/evidence
    ck = Check('C01', tier, seed, level='proof')
    ck.pid = 'C01pat'
    ck.checker_cmd = 'make -C /verif/coq theories/C01pat/Props.vo (coqc 8.16.1) + Print Assumptions per theorem'
    ck.trusted = ['Coq 8.16.1 kernel; no axioms',
                  'hand-written model theories/C01pat/{Syntax,Sem,Lower}.v of hir_lowering.rs lower_matching_pattern / lower_match; tie: '
                  'Lower.lower_guard / lower_match run on every dumped source pattern must give the real HIR statements (vh hir-dump through the '
                  'hook samlang_compiler::verif::compile_sources_to_hir); the site locator of harness/src/hir_dump.rs (a wrong cut shows as a disagreement)',
                  'the semantics of the HIR fragment (Sem.v) is read off hir.rs / mir_generics_specialization.rs, not generated']
    ck.rule = ('cases = pattern sites (match arms, if-let guards, lets) and whole matches of generated single-function programs, two fixed programs, '
               '/repo/tests and /repo/std; distinct = distinct (pattern, statements) pairs with a structured pattern')
    pat(ck, tier, seed)
    return ck.finish()


if __name__ == '__main__':
    import sys
    sys.exit(run(sys.argv[1] if len(sys.argv) > 1 else 'quick', int(sys.argv[2]) if len(sys.argv) > 2 else 1))
