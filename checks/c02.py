"""C02 — optimization passes never change behaviour (DESIGN.md section 4, C02)."""
import json
import os
import re

from gen.rng import Rng
from lib.front import run_jobs
from lib.vlib import Check, check_props, coq_eval_many, coq_result, vh

PID = 'C02'
OPS = ['MUL', 'DIV', 'MOD', 'PLUS', 'MINUS', 'LAND', 'LOR', 'SHL', 'SHR', 'XOR', 'LT', 'LE', 'GT', 'GE', 'EQ', 'NE']
SRC_OP = {'MUL': '*', 'DIV': '/', 'MOD': '%', 'PLUS': '+', 'MINUS': '-', 'LT': '<', 'LE': '<=', 'GT': '>', 'GE': '>=', 'EQ': '==', 'NE': '!='}
GUARDS = ['GLT', 'GLE', 'GGT', 'GGE']
MIN, MAX = -2 ** 31, 2 ** 31 - 1
LATTICE = [MIN, MIN + 1, -2 ** 30 - 1, -2 ** 30, -65536, -33, -32, -31, -7, -2, -1, 0, 1, 2, 3, 7, 31, 32, 33, 65535, 2 ** 30 - 1, 2 ** 30, MAX - 1, MAX]
NONE = 2 ** 40
HEADER = ('From Coq Require Import ZArith List. Import ListNotations.\n'
          'From SV Require Import Common.Int32 C02.Kernels C02.Corr.\nOpen Scope Z_scope.\n')


def kernel_cases(rng, tier):
    cases = []
    for op in OPS:
        for a in LATTICE:
            for b in LATTICE:
                cases.append(['E', op, a, b])
    nrand = 3000 if tier == 'quick' else 40000
    for _ in range(nrand):
        cases.append(['E', rng.pick(OPS), rng.range(MIN, MAX), rng.pick([rng.range(MIN, MAX), rng.range(-40, 40)])])
    small = [MIN, MIN + 1, -2 ** 30, -7, -1, 0, 1, 2, 7, 2 ** 30, MAX - 1, MAX]
    for outer in OPS:
        for inner in ['PLUS', 'MUL', 'MINUS']:
            for c1 in small:
                for c2 in small:
                    cases.append(['M', outer, inner, c1, c2])
    incs = [MIN, -2 ** 30, -7, -2, -1, 0, 1, 2, 3, 7, 2 ** 30, MAX]
    pts = [MIN, MIN + 1, -2 ** 30, -8, -1, 0, 1, 9, 2 ** 30, MAX - 1, MAX]
    for g in range(4):
        for i0 in pts:
            for inc in incs:
                for b in pts:
                    cases.append(['T', g, i0, inc, b])
    for _ in range(nrand):
        cases.append(['T', rng.below(4), rng.range(-50, 50), rng.range(-6, 6), rng.range(-50, 50)])
    for op in OPS:
        if op == 'MINUS':
            continue       # literal right operands are first normalised to PLUS (C02_unwrap_minus)
        for rel in (0, 2):     # equal operands cannot show whether they were swapped
            cases.append(['F', op, rel])
    return cases


def z(n):
    return '(%d)' % n


def case_gallina(c, r):
    if c[0] == 'E':
        k = 'KE %s %s %s' % (c[1], z(c[2]), z(c[3]))
        x, y = (NONE, 0) if r == 'none' else (r, 0)
    elif c[0] == 'M':
        k = 'KM %s %s %s %s' % (c[1], c[2], z(c[3]), z(c[4]))
        x, y = (NONE, 0) if r == 'none' else (OPS.index(r[0]), r[1])
    elif c[0] == 'T':
        k = 'KT %s %s %s %s' % (GUARDS[c[1]], z(c[2]), z(c[3]), z(c[4]))
        x, y = (NONE, 0) if r == 'none' else (r, 0)
    else:
        k = 'KF %s %s' % (c[1], z(c[2]))
        x, y = OPS.index(r[0]), 1 if r[1] else 0
    return '(%s, (%s, %s))' % (k, z(x), z(y))


def witness_program(c):
    """A source program whose compilation exercises the kernel on the disagreeing input (if expressible)."""
    if c[0] == 'E' and c[1] in SRC_OP:
        e = '(%d) %s (%d)' % (c[2], SRC_OP[c[1]], c[3])
        body = 'Process.println(Str.fromInt(%s))' % e if c[1] in ('MUL', 'DIV', 'MOD', 'PLUS', 'MINUS') else \
               'Process.println(if %s { "t" } else { "f" })' % e
        return 'class Main { function main(): unit = { %s; } }\n' % body
    if c[0] == 'M' and c[1] in SRC_OP and c[2] == 'PLUS':
        e = '(Main.id(5) + (%d)) %s (%d)' % (c[3], SRC_OP[c[1]], c[4])
        body = 'Process.println(Str.fromInt(%s))' % e if c[1] in ('MUL', 'PLUS') else 'Process.println(if %s { "t" } else { "f" })' % e
        return 'class Main { function id(x: int): int = x function main(): unit = { %s; } }\n' % body
    if c[0] == 'T':
        op = ['<', '<=', '>', '>='][c[1]]
        inc = c[3]
        step = 'i + %d' % inc if inc >= 0 else 'i - %d' % (-inc) if inc != MIN else 'i + (%d)' % inc
        return ('class Main { function lp(i: int): int = if i %s (%d) { Main.lp(%s) } else { i } '
                'function main(): unit = { Process.println(Str.fromInt(Main.lp(%d))); } }\n' % (op, c[4], step, c[2]))
    return None


def kernel_correspondence(ck, tier, seed):
    rng = Rng(seed ^ 0xC02)
    cases = kernel_cases(rng, tier)
    for profile in ('debug', 'release'):
        rc, out = vh(['opt-kernels'], profile=profile, input=json.dumps(cases), timeout=900)
        try:
            res = json.loads(out.strip().splitlines()[-1])
        except (ValueError, IndexError):
            ck.obligation('opt-kernels(%s)' % profile, False, out[-600:])
            continue
        bad = []
        todo = []
        for i, (c, r) in enumerate(zip(cases, res)):
            ck.case(['kernel', profile] + c, c[0] != 'F')
            ck.count('kernel:%s:%s' % (c[0], profile))
            if r == 'panic':
                bad.append((c, 'panic', None))
            else:
                todo.append((c, r))
        nshard = 16
        jobs = []
        for si in range(nshard):
            part = todo[si::nshard]
            body = HEADER + 'Definition cs : list (kcase * (Z * Z)) := [\n%s].\nEval vm_compute in (kbad 0%%N cs).\n' % ';\n'.join(
                case_gallina(c, r) for c, r in part)
            jobs.append(('c02_k_%s_%d' % (profile, si), body))
        outs = coq_eval_many(jobs)
        for si, (rc2, o) in enumerate(outs):
            part = todo[si::nshard]
            resl = coq_result(o) if rc2 == 0 else None
            if resl is None:
                ck.obligation('model-evaluation(kernels)', False, o[-600:])
                continue
            for idx in re.findall(r'(\d+)%N', resl):
                c, r = part[int(idx)]
                bad.append((c, r, 'model disagrees'))
        seen_kinds = set()
        for c, r, why in bad:
            ck.disagree('C02.Corr.keval vs optimizer kernel %s (%s build)' % (c[0], profile), c, 'see theories/C02/Kernels.v', r)
            key = (c[0], c[1] if c[0] != 'T' else c[1])
            if key in seen_kinds or len(seen_kinds) > 6:
                continue
            seen_kinds.add(key)
            # failing-input search: does a source program that reaches the kernel with this input misbehave?
            src = witness_program(c)
            if not src:
                continue
            job = {'id': 0, 'sources': {'Main': src}, 'entries': ['Main'], 'compile': True}
            try:
                fr = run_jobs([job], profile=profile)[0]
            except RuntimeError:
                continue
            if str(fr['compile']).startswith('panic') or fr.get('front_panic'):
                ck.property_failure('compiling an accepted program crashes the optimizer (%s build): kernel %s on %s'
                                    % (profile, c[0], c[1:]), {'source': src, 'kernel_case': c, 'profile': profile},
                                    expected='compilation succeeds', observed=fr['compile'][:300] if fr['compile'] else fr.get('front_panic'),
                                    how='echo <source as a front job with compile=true> | vh front')
    ck.obligation('kernel correspondence ran (debug+release)', True, '%d cases per profile' % len(cases))
    ck.sample({'kernel_cases': cases[:3] + cases[-3:]})


def run(tier, seed, replay=None):
    ck = Check(PID, tier, seed, level='proof')
    ck.checker_cmd = 'make -C /verif/coq theories/C02/Props.vo (coqc 8.16.1) + Print Assumptions per theorem'
    ck.trusted = [
        'Coq 8.16.1 kernel; no axioms',
        'hand-written models theories/Common/Int32.v (i32 arithmetic, WebAssembly instruction semantics) and theories/C02/Kernels.v '
        '(evaluate_bin_op, merge_binary_expression, trip-count closed form, operand normalisation); tie: exhaustive sweep of a '
        '24-value boundary lattice per operand plus random operands through the samlang_verif hooks, in debug and release builds',
        'whole passes: DCE, LVN, CSE and CCP (theories/C02deep), the loop pass with invariant code motion, induction analysis, '
        'closed form, IV elimination and strength reduction (theories/C02loop), inlining and scalar replacement (theories/C02inl) are '
        'modelled in Gallina on a MIR fragment with preservation theorems and tied by comparing the model pass output with the real '
        'pass output on generated and synthetic functions; MIR outside the fragment (reported as coverage in the evidence) and the '
        'pass pipeline as a whole are translation-validated by running MIR before/after in the harness interpreter (testing)',
    ]
    ck.rule = ('kernels: all 16 operators x 24x24 boundary lattice + random operands; merge: 16x3 operator pairs x 12x12 constants; '
               'trip count: 4 guards x 11x12x11 lattice + random small triples; both build profiles')
    check_props(ck, 'theories/C02/Props.v', extra_deps=['theories/Common'])
    kernel_correspondence(ck, tier, seed)
    try:
        from checks import c02_passes
        c02_passes.monitor(ck, tier, seed, replay)
    except ImportError:
        ck.notes.append('pass-level translation validation not built yet')
    if not replay:
        # whole-pass layer: Gallina MIR fragment + semantics, models of DCE / LVN / CCP with preservation theorems, and the
        # tie "model pass output == real pass output" on generated and synthetic functions
        from checks import c02_deep
        c02_deep.deep(ck, tier, seed)
        # the loop pass (invariant code motion, induction analysis, closed form, IV elimination, strength reduction): Gallina
        # models over the same MIR semantics, theorems per sub-pass, output equality with the real pass
        from checks import c02_loop
        c02_loop.loops(ck, tier, seed)
        # inlining (whole program) and scalar replacement: Gallina mirrors, preservation theorems, output equality with the real passes
        from checks import c02_inl
        check_props(ck, 'theories/C02inl/Props.v')
        c02_inl.inl(ck, tier, seed)
    return ck.finish()
