"""C02 deep layer (DESIGN.md C02 items 8-10): whole optimizer passes re-implemented in Gallina
(coq/theories/C02deep), proved semantics-preserving for every well-formed function of a MIR fragment, and
tied to the real passes by comparing their OUTPUT: `vh mir-dump` prints every function of generated
programs before / after each real pass; the Gallina model of the pass is run on the `before` inside coqc
(vm_compute) and must produce exactly the real `after`.

`deep(ck, tier, seed)` is called from checks/c02.py; `run()` is a standalone wrapper (evidence/C02deep.json).
"""
import concurrent.futures
import json
import os
import re

from gen.progs import gen_program
from gen.rng import Rng
from lib.vlib import Check, NCPU, check_props, coq_eval_many, coq_result, vh

CHAIN = ['ccp', 'cse', 'lvn', 'dce']     # one round; every pass is applied to the output of the previous one
# optimize_function_for_rounds with cse and lvn switched on (lib.rs), replayed pass by pass
FULL_CHAIN = CHAIN + CHAIN + ['ccp', 'dce', 'ccp']
# the real driver through verif::run_function_rounds (hook 1b60883): [lvn only = Passes.pipeline true, cse + lvn]
ROUNDS = ['rounds:lvn', 'rounds:lvn+cse']
MODELLED = {'ccp': 'PCcp', 'dce': 'PDce', 'lvn': 'PLvn', 'cse': 'PCse', 'pipeline': 'PPipe', 'pipeline+cse': 'PPipeCse'}
HEADER = ('From Coq Require Import ZArith NArith List Bool. Import ListNotations.\n'
          'From SV Require Import Common.Int32 C02deep.Syntax C02deep.Sem C02deep.Passes C02deep.Corr.\n'
          'Open Scope Z_scope.\n')


# ------------------------------------------------------------------ JSON (vh mir-dump) -> Gallina
def g_expr(e):
    k, v = e
    if k == 'i':
        return '(EInt (%d))' % v
    if k == 'j':
        return '(EI31 (%d))' % v
    if k == 's':
        return '(EStr %d%%N)' % v
    return '(EVar %d%%N)' % v


def g_names(ns):
    return '[' + '; '.join('%d%%N' % n for n in ns) + ']'


def g_opt(n):
    return 'None' if n is None else '(Some %d%%N)' % n


def g_triples(ts):
    return '[' + '; '.join('(%d%%N, %s, %s)' % (t[0], g_expr(t[1]), g_expr(t[2])) for t in ts) + ']'


def g_stmts(ss):
    return '[' + ';\n '.join(g_stmt(s) for s in ss) + ']'


def g_stmt(s):
    k = s[0]
    if k == 'bin':
        return '(SBin %d%%N %s %s %s)' % (s[1], s[2], g_expr(s[3]), g_expr(s[4]))
    if k == 'not':
        return '(SNot %d%%N %s)' % (s[1], g_expr(s[2]))
    if k == 'prim':
        p = {'idx': '(PIdx %d%%N %d%%N)' % (s[3], s[4]), 'isptr': '(PIsPtr %d%%N)' % s[3], 'cast': '(PCast %d%%N)' % s[3]}[s[2]]
        return '(SPrim %d%%N %s %s)' % (s[1], p, g_expr(s[5]))
    if k == 'call':
        return '(SCall %d%%N [%s] %s)' % (s[1], '; '.join(g_expr(a) for a in s[2]), g_opt(s[3]))
    if k == 'struct':
        return '(SStruct %d%%N %d%%N [%s])' % (s[1], s[2], '; '.join(g_expr(a) for a in s[3]))
    if k == 'ldecl':
        return '(SLateDecl %d%%N)' % s[1]
    if k == 'lassign':
        return '(SLateAssign %d%%N %s)' % (s[1], g_expr(s[2]))
    if k == 'if':
        return '(SIf %s %s %s %s)' % (g_expr(s[1]), g_stmts(s[2]), g_stmts(s[3]), g_triples(s[4]))
    if k == 'sif':
        return '(SSIf %s %s %s)' % (g_expr(s[1]), 'true' if s[2] else 'false', g_stmts(s[3]))
    if k == 'brk':
        return '(SBreak %s)' % g_expr(s[1])
    if k == 'while':
        return '(SWhile %s %s %s)' % (g_triples(s[1]), g_stmts(s[2]), g_opt(s[3]))
    raise ValueError(k)


def g_func(f):
    return '(mkfunc [%s] %s %s)' % ('; '.join('%d%%N' % p for p in f['params']), g_stmts(f['body']), g_expr(f['ret']))


def size(f):
    def st(ss):
        n = 0
        for s in ss:
            n += 1
            if s[0] == 'if':
                n += st(s[2]) + st(s[3])
            elif s[0] == 'sif':
                n += st(s[3])
            elif s[0] == 'while':
                n += st(s[2])
        return n
    return st(f['body'])


# ------------------------------------------------------------------ programs
def programs(tier, seed):
    rng = Rng(seed ^ 0xDEE9)
    n = 70 if tier == 'quick' else 500
    progs = []
    cdir = '/verif/corpus/C02'
    for fn in sorted(os.listdir(cdir)) if os.path.isdir(cdir) else []:
        if fn.endswith('.sam'):
            progs.append({'sources': {'Main': open(os.path.join(cdir, fn)).read()}, 'entry': 'Main'})
    for i in range(n):
        r = rng.fork()
        loopy = i % 2 == 0
        progs.append(gen_program(r, {'big': i % 5 == 0, 'nfun': 5, 'depth': 2 + i % 2, 'loops': True, 'closures': False,
                                     'vec': False, 'strings': i % 7 == 3, 'interfaces': not loopy, 'loop_focus': loopy,
                                     'avoid_known_iv': False}))
    # if-else expressions whose branches share subexpressions (what common subexpression elimination hoists)
    rc = Rng(seed ^ 0xC5E)
    for i in range(6 if tier == 'quick' else 60):
        progs.append(cse_program(rc.fork()))
    return progs


def cse_program(r):
    """A program whose functions compute the same value at the top level of both branches of an if-else,
    next to calls, other values, and nested if-else expressions."""
    ops = ['+', '-', '*', '/', '%']
    vars_ = ['a', 'b', 'c']

    def atom():
        return r.pick(vars_) if r.chance(2, 3) else str(r.pick([0, 1, 2, 3, 7, -1, 100]))

    def shared():
        return '%s %s %s' % (r.pick(vars_), r.pick(ops), atom())

    def branch(sh, depth, tag):
        # no named `let` (it lowers to a late-init declaration, outside the fragment): shared values are operands
        pre = ''.join('let _ = Process.println("%s%d"); ' % (tag, k) for k in range(len(sh)) if r.chance(1, 3))
        terms = ['(%s)' % e for e in sh]
        if r.chance(1, 2):
            terms.append('(%s %s %s)' % (atom(), r.pick(ops[:3]), atom()))
        if depth > 0 and r.chance(1, 2):
            sh2 = [r.pick(sh)] + ([shared()] if r.chance(1, 2) else [])
            terms.append('(if %s < %s { %s } else { %s })' % (atom(), atom(), branch(sh2, depth - 1, tag + 't'), branch(sh2, depth - 1, tag + 'e')))
        terms.append(str(r.range(0, 9)))
        return pre + (' %s ' % r.pick(['+', '-', '*'])).join(terms)

    funs = []
    calls = []
    for i in range(r.range(2, 4)):
        sh = [shared() for _ in range(r.range(1, 3))]
        body = 'if %s < %s { %s } else { %s }' % (atom(), atom(), branch(sh, 1, 't'), branch(sh, 1, 'e'))
        funs.append('  function f%d(a: int, b: int, c: int): int = %s' % (i, body))
        calls.append('let _ = Process.println(Str.fromInt(Main.f%d(x + %d, y - %d, %d)));' % (i, r.range(0, 5), r.range(0, 5), r.range(1, 9)))
    main = '  function main(): unit = { let x = "%d".toInt(); let y = "%d".toInt(); %s }' % (r.range(-3, 9), r.range(1, 9), ' '.join(calls))
    return {'sources': {'Main': 'class Main {\n%s\n%s\n}\n' % ('\n'.join(funs), main)}, 'entry': 'Main'}


def dump(progs):
    jobs = [{'id': i, 'sources': p['sources'], 'entry': p['entry'], 'passes': FULL_CHAIN, 'rounds': ROUNDS, 'fragment': 2} for i, p in enumerate(progs)]
    chunks = [jobs[i::NCPU] for i in range(NCPU)]

    def run_chunk(c):
        if not c:
            return []
        rc, out = vh(['mir-dump'], input='\n'.join(json.dumps(j) for j in c) + '\n', timeout=1200)
        return [json.loads(l) for l in out.splitlines() if l.startswith('{')]
    res = {}
    with concurrent.futures.ThreadPoolExecutor(max_workers=NCPU) as ex:
        for part in ex.map(run_chunk, chunks):
            for r in part:
                res[r.get('id')] = r
    return res


def replay_on_real_pass(mir, pass_name):
    """Runs the real pass on a function given in the mir-dump encoding (names are numbers)."""
    rc, out = vh(['mir-dump'], input=json.dumps({'id': 0, 'mir': mir, 'pass': pass_name}) + '\n', timeout=120)
    for l in out.splitlines():
        if l.startswith('{'):
            return json.loads(l)
    return {'error': out[-300:]}



# ------------------------------------------------------------------ synthetic MIR functions
MIN32, MAX32 = -2 ** 31, 2 ** 31 - 1
ARITH = ['MUL', 'DIV', 'MOD', 'PLUS', 'MINUS', 'LAND', 'LOR', 'SHL', 'SHR', 'XOR']
CMP = ['LT', 'LE', 'GT', 'GE', 'EQ', 'NE']
LITS = [0, 0, 1, 1, 2, 3, 5, 7, 10, -1, -2, MIN32, MAX32, 31, 32]


class MirGen:
    """Random well-formed (single-assignment, well-scoped) functions of the modelled fragment, in the
    mir-dump encoding with numeric names.  Conditions are 0/1-valued by construction."""

    def __init__(self, rng, plant=False, ext=False):
        self.r = rng
        self.n = 0
        self.plant = plant          # put copies of one value statement into both branches of if-else statements
        self.ext = ext              # StructInit statements and loads of their fields
        self.structs = []

    def fresh(self):
        self.n += 1
        return self.n

    def lit(self):
        return ['i', self.r.pick(LITS)]

    def operand(self, ints):
        if not ints or self.r.chance(1, 3):
            return self.lit()
        return ['v', self.r.pick(ints)]

    def cond(self, bools):
        if bools and not self.r.chance(1, 8):
            return ['v', self.r.pick(bools)]
        return ['i', self.r.below(2)]

    def block(self, ints, bools, depth, in_loop, size):
        """-> (statements, ints', bools') ; ints'/bools' include the names the block puts in scope"""
        r = self.r
        ints, bools = list(ints), list(bools)
        out = []
        mark = len(self.structs)          # structs made in this block are not visible after it
        for _ in range(size):
            k = r.below(100)
            if k < 40:
                x = self.fresh()
                if r.chance(1, 3):
                    op = r.pick(CMP)
                    bools.append(x)
                else:
                    op = r.pick(ARITH)
                a, b = self.operand(ints), self.operand(ints)
                if r.chance(1, 6) and ints:
                    b = a = ['v', r.pick(ints)]          # x op x
                prev = [s for s in out if s[0] == 'bin']
                if prev and r.chance(1, 5):              # a repeated computation (value numbering)
                    _, _, op, a, b = r.pick(prev)
                    if r.chance(1, 3):                   # the same operands the other way round: NOT the same value for - / % < <=
                        a, b = b, a
                    if op in CMP and x not in bools:
                        bools.append(x)
                out.append(['bin', x, op, a, b])
                ints.append(x)
            elif k < 45 and bools:
                x = self.fresh()
                out.append(['not', x, ['v', r.pick(bools)]])
                ints.append(x)
                bools.append(x)
            elif k < 52 and ints:
                x = self.fresh()
                kind = r.pick(['idx', 'idx', 'cast', 'isptr'])
                out.append(['prim', x, kind, r.below(3), r.below(3) if kind == 'idx' else 0, ['v', r.pick(ints)]])
                ints.append(x)
                if kind == 'isptr':
                    bools.append(x)
            elif k < 55 and self.ext:
                x = self.fresh()
                n = r.range(1, 3)
                out.append(['struct', x, r.below(3), [self.operand(ints) for _ in range(n)]])
                self.structs.append((x, n))         # a reference: not an operand of Binary statements
                if r.chance(1, 3):
                    out.append(['call', r.below(4), [['v', x]], None])
                if r.chance(1, 2):                    # read a field back (forwarding of struct fields)
                    y = self.fresh()
                    out.append(['prim', y, 'idx', r.below(3), r.below(n), ['v', x]])
                    ints.append(y)
            elif k < 57 and self.ext and self.structs and r.chance(1, 2):
                x, n = r.pick(self.structs)
                y = self.fresh()
                out.append(['prim', y, 'idx', r.below(3), r.below(n + 1), ['v', x]])
                ints.append(y)
            elif k < 62:
                ret = self.fresh() if r.chance(2, 3) else None
                out.append(['call', r.below(4), [self.operand(ints) for _ in range(r.below(3))], ret])
                if ret is not None:
                    ints.append(ret)
            elif k < 76 and depth > 0:
                c = self.cond(bools)
                if r.chance(1, 5):
                    x = self.fresh()
                    one, zero = (['i', 1], ['i', 0]) if r.chance(1, 2) else (['i', 0], ['i', 1])
                    if ints and r.chance(1, 2):
                        # empty branches choosing between a VARIABLE and 0 / 1: not a boolean operation on ints
                        v = ['v', r.pick(ints)]
                        one, zero = r.pick([(v, ['i', 0]), (['i', 1], v), (['i', 0], v), (v, ['i', 1])])
                        out.append(['if', c, [], [], [[x, one, zero]]])
                        ints.append(x)
                        continue
                    out.append(['if', c, [], [], [[x, one, zero]]])
                    ints.append(x)
                    bools.append(x)
                    continue
                s1, i1, b1 = self.block(ints, bools, depth - 1, in_loop, r.below(4))
                s2, i2, b2 = self.block(ints, bools, depth - 1, in_loop, r.below(4))
                if self.plant and r.chance(2, 3):
                    for _ in range(r.range(1, 3)):
                        kind = r.below(10)
                        if kind < 7 or not ints:
                            mk = lambda x, op=r.pick(ARITH + CMP + ['DIV', 'MOD', 'MINUS']), a=self.operand(ints), b=self.operand(ints): ['bin', x, op, a, b]
                        elif kind < 8 and bools:
                            mk = lambda x, e=['v', r.pick(bools)]: ['not', x, e]
                        else:
                            mk = lambda x, kd=r.pick(['idx', 'isptr']), ty=r.below(3), ix=r.below(3), e=['v', r.pick(ints)]: ['prim', x, kd, ty, ix if kd == 'idx' else 0, e]
                        for blk, sc in ((s1, i1), (s2, i2)):
                            x = self.fresh()
                            pos = r.below(len(blk) + 1)
                            if blk and blk[-1][0] == 'brk':
                                pos = r.below(len(blk))
                            blk.insert(pos, mk(x))
                            sc.append(x)
                fas = []
                for _ in range(r.below(3)):
                    x = self.fresh()
                    if r.chance(1, 4):
                        e = self.operand(ints)
                        fas.append([x, e, e])
                    else:
                        fas.append([x, self.operand(i1), self.operand(i2)])
                out.append(['if', c, s1, s2, fas])
                ints += [f[0] for f in fas]
            elif k < 84 and depth > 0:
                c = self.cond(bools)
                s, _, _ = self.block(ints, bools, depth - 1, in_loop, r.below(3))
                if in_loop and r.chance(1, 2):
                    s.append(['brk', self.operand(ints)])
                out.append(['sif', c, r.chance(1, 2), s])
            elif k < 94 and depth > 0:
                out.append(self.loop(ints, bools, depth - 1))
                if out[-1][3] is not None:
                    ints.append(out[-1][3])
            elif in_loop and r.chance(1, 6):
                out.append(['brk', self.operand(ints)])
                break
        del self.structs[mark:]
        return out, ints, bools

    def loop(self, ints, bools, depth):
        r = self.r
        nlv = r.range(1, 3)
        names = [self.fresh() for _ in range(nlv)]
        inits = [self.operand(ints) if not r.chance(1, 3) else ['i', r.range(-2, 4)] for _ in range(nlv)]
        bi, bb = ints + names, list(bools)
        body = []
        # guard: leave when the first loop variable reaches a bound
        g = self.fresh()
        body.append(['bin', g, r.pick(['GE', 'GT', 'LT', 'LE', 'EQ', 'NE']), ['v', names[0]], self.operand(ints) if r.chance(1, 2) else ['i', r.range(0, 6)]])
        bi.append(g)
        bb.append(g)
        body.append(['sif', ['v', g], r.chance(1, 2), [['brk', self.operand(bi)]]])
        s, bi, bb = self.block(bi, bb, depth, True, r.below(5))
        body += s
        step = self.fresh()
        body.append(['bin', step, r.pick(['PLUS', 'PLUS', 'MINUS', 'MUL']), ['v', names[0]], ['i', r.pick([1, 1, 2, -1, 3])]])
        bi.append(step)
        loops = [['v', step]]
        for j in range(1, nlv):
            e = self.operand(bi)
            if r.chance(1, 5):
                e = inits[j]                   # an unchanging loop variable (bound to its optimised initial value)
            loops.append(e)
        if body and body[-1][0] == 'brk':
            pass
        bc = self.fresh() if r.chance(3, 4) else None
        return ['while', [[n, i, l] for n, i, l in zip(names, inits, loops)], body, bc]

    def function(self):
        r = self.r
        params = [self.fresh() for _ in range(r.below(4))]
        body, ints, bools = self.block(params, [], 2, False, r.range(2, 9))
        return {'params': params, 'body': body, 'ret': self.operand(ints)}


WITNESS_RAW_INIT = {'params': [1], 'body': [['bin', 2, 'PLUS', ['i', 1], ['i', 2]],
                    ['while', [[3, ['v', 2], ['v', 2]], [4, ['v', 1], ['v', 6]]],
                     [['bin', 5, 'GE', ['v', 4], ['v', 3]], ['sif', ['v', 5], False, [['brk', ['v', 3]]]],
                      ['bin', 6, 'PLUS', ['v', 4], ['i', 1]]], 7]], 'ret': ['v', 7]}


def synthetic(tier, seed):
    rng = Rng(seed ^ 0x5EED)
    fs = [MirGen(rng.fork()).function() for _ in range(300 if tier == 'quick' else 4000)]
    rng2 = Rng(seed ^ 0xC5E5EED)
    fs += [MirGen(rng2.fork(), plant=True).function() for _ in range(100 if tier == 'quick' else 1500)]
    rng3 = Rng(seed ^ 0x57C7)
    return fs + [MirGen(rng3.fork(), plant=(i % 3 == 0), ext=True).function() for i in range(100 if tier == 'quick' else 1200)]


def real_pass_batch(funcs, pass_name):
    """The real pass on every function (None where the pass panicked / left the fragment)."""
    jobs = [{'id': i, 'mir': f, 'pass': pass_name} for i, f in enumerate(funcs) if f is not None]
    chunks = [jobs[i::NCPU] for i in range(NCPU)]

    def run_chunk(c):
        if not c:
            return []
        rc, out = vh(['mir-dump'], input='\n'.join(json.dumps(j) for j in c) + '\n', timeout=1200)
        return [json.loads(l) for l in out.splitlines() if l.startswith('{')]
    res = [None] * len(funcs)
    with concurrent.futures.ThreadPoolExecutor(max_workers=NCPU) as ex:
        for part in ex.map(run_chunk, chunks):
            for r in part:
                res[r['id']] = r
    return res


# ------------------------------------------------------------------ the check
def deep(ck, tier, seed):
    ok = check_props(ck, 'theories/C02deep/Props.v', extra_deps=['theories/C02'])
    progs = programs(tier, seed)
    res = dump(progs)
    quick = tier == 'quick'
    cases = []          # (pass, before, after, where, supply of fresh names)
    nfun = infrag = 0
    for i, p in enumerate(progs):
        r = res.get(i)
        if r is None or 'functions' not in r:
            if r is not None and 'lowering_panic' in r:
                ck.property_failure('lowering to MIR panicked: ' + r['lowering_panic'][:200], {'sources': p['sources'], 'entry': p['entry']})
            ck.count('deep:program:' + ('rejected' if r and r.get('rejected') else 'no-dump'))
            continue
        for f in r['functions']:
            nfun += 1
            if 'skip' in f:
                ck.count('deep:outside-fragment:' + f['skip'])
                continue
            infrag += 1
            for pn in f['panics']:
                ck.property_failure('optimizer pass %s panicked on %s: %s' % (pn['pass'], f['name'], pn['msg'][:200]),
                                    {'sources': p['sources'], 'entry': p['entry'], 'function': f['name'], 'pass': pn['pass']},
                                    expected='the pass returns', observed=pn['msg'][:300])
            vs = f['versions']
            for k, pn in enumerate(CHAIN):
                if vs[k] is None or vs[k + 1] is None or pn not in MODELLED:
                    continue
                if quick and pn in ('dce', 'lvn', 'cse') and vs[k] == vs[k + 1] and (i + nfun) % 4:
                    continue          # quick tier: three quarters of the applications that change nothing are skipped
                cases.append((pn, vs[k], vs[k + 1], {'program': i, 'function': f['name']}, f['fresh'][k] or []))
            rv = f.get('rounds') or [None, None]
            if vs[0] is not None and rv[0] is not None and not (quick and (i + nfun) % 3):
                # the real driver optimize_function_for_rounds (lvn only) against Passes.pipeline
                cases.append(('pipeline', vs[0], rv[0], {'program': i, 'function': f['name']}, []))
            if vs[0] is not None and rv[1] is not None and not (quick and (i + nfun) % 2 and vs[0] == rv[1]):
                # the real driver with cse and lvn against Passes.pipeline true true (the supply: every temporary it allocated)
                cases.append(('pipeline+cse', vs[0], rv[1], {'program': i, 'function': f['name']}, (f.get('rounds_fresh') or [[], []])[1] or []))
            if vs[0] is not None and rv[1] is not None and len(vs) == len(FULL_CHAIN) + 1 and vs[-1] is not None:
                # the real driver (cse + lvn) against the same passes replayed one by one in the order read from lib.rs
                ck.count('deep:driver-order:' + ('same' if vs[-1] == rv[1] else 'DIFFERENT'))
                if vs[-1] != rv[1]:
                    ck.disagree('C02deep: optimize_function_for_rounds (cse + lvn) is not the chain %s' % FULL_CHAIN,
                                {'function': f['name'], 'sources': p['sources']}, vs[-1], rv[1],
                                how='vh mir-dump with "rounds": %s' % ROUNDS)
    # synthetic functions of the fragment through the real passes (replay mode of vh mir-dump)
    syn = synthetic(tier, seed)
    cur = list(syn)
    for step, pn in enumerate(FULL_CHAIN):
        res_p = real_pass_batch(cur, pn)
        nxt = []
        for k, (f0, r) in enumerate(zip(cur, res_p)):
            if f0 is None or r is None:
                nxt.append(None)
                continue
            if 'panic' in r:
                ck.property_failure('optimizer pass %s panicked on a synthetic MIR function: %s' % (pn, r['panic'][:200]),
                                    {'mir': f0, 'pass': pn}, expected='the pass returns', observed=r['panic'][:300],
                                    how="echo '{\"id\":0,\"pass\":\"%s\",\"mir\":<mir>}' | vh mir-dump" % pn)
                nxt.append(None)
                continue
            if 'after' not in r:
                nxt.append(None)
                continue
            if step < len(CHAIN) and not (quick and pn in ('dce', 'lvn', 'cse') and f0 == r['after'] and k % 4):
                cases.append((pn, f0, r['after'], {'synthetic': k}, r.get('fresh', [])))
            nxt.append(r['after'])
        cur = nxt
    for which, pname in ((0, 'pipeline'), (1, 'pipeline+cse')):
        res_r = real_pass_batch(list(syn), ROUNDS[which])
        for k, (f0, r) in enumerate(zip(syn, res_r)):
            if f0 is not None and r is not None and 'after' in r and not (quick and which == 0 and k % 3):
                cases.append((pname, f0, r['after'], {'synthetic': k}, r.get('fresh', []) if which else []))
    # the MIR-level witness of fixed finding C02-ccp-unchanging-loop-variable-raw-bind (Props.C02deep_ccp_old2_refuted)
    wr = replay_on_real_pass(WITNESS_RAW_INIT, 'ccp')
    still = 'after' in wr and json.dumps(['v', 2]) in json.dumps(wr['after'])
    ck.count('deep:witness:raw-loop-variable-binding:' + ('reproduces' if still else 'gone'))
    try:
        ck.known_witness('C02-ccp-unchanging-loop-variable-raw-bind', still,
                         'real ccp output reads the undefined name v2: %s' % json.dumps(wr.get('after'))[:300])
    except KeyError:
        if still:
            ck.property_failure('CCP binds an unchanging loop variable to its raw initial value (the output reads an undefined name)',
                                {'mir': WITNESS_RAW_INIT, 'pass': 'ccp'}, expected='v3 replaced by the constant 3',
                                observed=wr.get('after'))
    ck.extra_cov['deep_synthetic_functions'] = len(syn)
    ck.extra_cov['deep_functions'] = nfun
    ck.extra_cov['deep_functions_in_fragment'] = infrag
    ck.extra_cov['deep_fragment_coverage'] = round(infrag / nfun, 3) if nfun else 0
    print('C02deep: %d of %d MIR functions are in the modelled fragment (%.1f%%); %d pass applications to compare'
          % (infrag, nfun, 100.0 * infrag / max(nfun, 1), len(cases)))
    # shard by size so that the shards take similar time
    order = sorted(range(len(cases)), key=lambda j: -size(cases[j][1]))
    nshard = max(1, min(4 * NCPU, len(cases) // 40 + 1))      # small shards: balanced, and far from the timeout under load
    shards = [order[s::nshard] for s in range(nshard)]
    jobs = []
    for si, idxs in enumerate(shards):
        body = HEADER + 'Definition cs : list (pass * list name * func * func) := [\n%s].\nEval vm_compute in (tie_cases cs).\n' % ';\n'.join(
            '(%s, %s, %s, %s)' % (MODELLED[cases[j][0]], g_names(cases[j][4]), g_func(cases[j][1]), g_func(cases[j][2])) for j in idxs)
        jobs.append(('c02deep_%d_%d' % (os.getpid(), si), body))
    outs = coq_eval_many(jobs, timeout=1500)
    # the shard files carry the process id (two runs at the same time must not overwrite each other's files)
    from lib.vlib import WORK
    for (name, _), (rc, _o) in zip(jobs, outs):
        for ext in ('.v', '.vo', '.vok', '.vos', '.glob'):
            fp = os.path.join(WORK, name + ext)
            if os.path.exists(fp) and (rc == 0 or ext != '.v'):
                os.remove(fp)
    stats = {}
    for si, (rc, o) in enumerate(outs):
        resl = coq_result(o) if rc == 0 else None
        if resl is None:
            ck.obligation('model-evaluation(C02deep shard %d)' % si, False, o[-600:])
            continue
        rows = [[int(x) for x in re.findall(r'(\d+)%N', g)] for g in re.findall(r'\[([^\[\]]*)\]', resl)]
        if len(rows) != len(shards[si]):
            ck.obligation('model-evaluation(C02deep shard %d)' % si, False, 'expected %d rows, got %d' % (len(shards[si]), len(rows)))
            continue
        for j, row in zip(shards[si], rows):
            pn, before, after, where, _sup = cases[j]
            status, wf, unproved, escape, sem_ok, sem_bad, inv_bad, forwarded = row      # `unproved` = Passes.dead_final_operands
            st = stats.setdefault(pn + (':synthetic' if 'synthetic' in where else ''), {'cases': 0, 'agree': 0, 'declined': 0, 'wf': 0, 'proved_path': 0, 'dead_final_operands': 0, 'struct_forwarding': 0, 'changed': 0, 'sem_ok': 0})
            st['cases'] += 1
            st['wf'] += wf
            st['sem_ok'] += sem_ok
            changed = before != after
            st['changed'] += changed
            ck.case(['deep', pn, before], changed)
            if status == 0:
                st['agree'] += 1
                if wf and not unproved and not forwarded:
                    st['proved_path'] += 1
                if wf and unproved:          # the named exclusions of Props.C02deep_ccp_preserves: counted, not failures
                    st['dead_final_operands'] += 1
                if wf and forwarded:
                    st['struct_forwarding'] += 1
            elif status == 2:
                st['declined'] += 1
            else:
                src = progs[where['program']]['sources'] if 'program' in where else None
                ck.disagree('C02deep.Corr.model %s vs real pass output' % pn,
                            {'pass': pn, 'function': where.get('function', 'synthetic #%s' % where.get('synthetic')), 'before': before, 'sources': src},
                            'Passes.%s (see theories/C02deep/Passes.v)' % pn, after,
                            how='vh mir-dump on the sources, passes=%s' % FULL_CHAIN)
            if inv_bad:
                ck.disagree('C02deep: the invariant between rounds (no + / - overflow is preserved, Props.C02deep_*_add) fails after %s' % pn,
                            {'pass': pn, 'function': where.get('function', 'synthetic'), 'before': before},
                            'sem Add before = Done -> sem Add after = the same Done', after)
            if escape:
                ck.disagree('C02deep: %s re-emitted a Break outside of its loop' % pn,
                            {'pass': pn, 'function': where.get('function', 'synthetic'), 'before': before}, 'no escaping break', after)
            if sem_bad:
                src = progs[where['program']]['sources'] if 'program' in where else None
                ck.property_failure('pass %s changed the behaviour of %s (Gallina reference semantics, %d argument vectors)'
                                    % (pn, where.get('function', 'a synthetic MIR function'), sem_bad),
                                    {'sources': src, 'function': where.get('function'), 'pass': pn,
                                     'before': before, 'after': after},
                                    expected='same return value and call trace', observed='different outcome in C02deep.Sem')
    for pn, st in sorted(stats.items()):
        for k, v in st.items():
            ck.count('deep:%s:%s' % (pn, k), v)
        print('C02deep: %-13s cases=%d model=real:%d declined:%d well-formed:%d under-theorem:%d excluded(dead_final_operands):%d excluded(struct_forwarding):%d pass-changed-something:%d sanity-runs-ok:%d'
              % (pn, st['cases'], st['agree'], st['declined'], st['wf'], st['proved_path'], st['dead_final_operands'], st['struct_forwarding'], st['changed'], st['sem_ok']))
    ck.extra_cov['deep_tie'] = stats
    ck.obligation('C02deep tie ran', bool(stats), '%d cases' % len(cases))
    if cases:
        ck.sample({'deep_case': {'pass': cases[0][0], 'before': cases[0][1], 'after': cases[0][2]}})


def run(tier='quick', seed=1, replay=None):
    ck = Check('C02', tier, seed, level='proof')
    ck.pid = 'C02deep'          # own evidence / replay files when run standalone
    ck.checker_cmd = 'make -C /verif/coq theories/C02deep/Props.vo (coqc 8.16.1) + Print Assumptions per theorem'
    deep(ck, tier, seed)
    return ck.finish()
