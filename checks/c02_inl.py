"""C02, inlining + scalar-replacement slice (coq/theories/C02inl): the two passes of samlang-optimization that the
other C02 layers do not model -
  inlining.rs            (whole program, between the rounds of the per-function passes)
  scalar_replacement.rs  (per function: structs / closures that do not escape are replaced by their fields / a direct call).

Layer A: theories/C02inl/Props.v (program-level semantics of C01mir/Sem.v: inlining any set of call sites preserves
  every determined outcome at the same fuel, and conversely at twice the fuel; the whole pass; any policy; scalar
  replacement; refutations of every side condition and of the seeded variant C02-4).
Layer B: `vh inl-dump` (hooks samlang_optimization::verif::{run_inlining, run_function_pass, run_function_rounds,
  run_unused_name_elimination}) prints the whole MIR program immediately before and after the real inlining pass alone
  - on the unoptimised MIR and at the four places where optimize_sources calls it - and single functions before /
  after the real scalar-replacement pass.  Inside coqc (vm_compute, sharded) the Gallina `optimize_functions` is run on
  the real `before` and must give the real `after` term for term once it is given the prefixes the real pass drew
  (recovered from the real output, see Corr.v); the side conditions of the theorems are evaluated at every site that
  is inlined (chk = true); `sroa_func` on the real function must give the real function.  Both semantics are run on
  argument vectors in a concrete world as instances (testing).
Layer C (testing): the MIR interpreter of the harness (mirsem.rs) runs main before / after each inlining stage.

`inl(ck, tier, seed)` is the library entry (for checks/c02.py); `run()` is a standalone wrapper (evidence and replay
files under /verif/work/c02inl/, never /verif/evidence).
"""
import concurrent.futures
import json
import os
import re
import sys

from gen.progs import gen_program, gen_order_program
from gen.rng import Rng
from lib import vlib
from lib.vlib import Check, NCPU, check_props, sh, vh

HEADER = ('From Coq Require Import ZArith NArith List Bool. Import ListNotations.\n'
          'From SV Require Import Common.Int32 C01mir.Syntax C01mir.Sem C02inl.Inline C02inl.Sroa C02inl.Corr.\n'
          'Open Scope N_scope.\n')
FUEL = 40
W32 = 1 << 32
# development: theories under /verif/work/c02inl/theories/C02inl instead of the live tree
SCRATCH = os.environ.get('C02INL_SCRATCH')


def coq_eval(name, text, timeout=900):
    os.makedirs(vlib.WORK, exist_ok=True)
    path = os.path.join(vlib.WORK, name + '.v')
    with open(path, 'w') as f:
        f.write(text)
    cmd = ['coqc', '-noglob', '-Q', os.path.join(vlib.COQ, 'theories'), 'SV', '-Q', os.path.join(vlib.COQ, 'generated'), 'SVG']
    if SCRATCH:
        cmd += ['-Q', SCRATCH, 'SV.C02inl']
    rc, out = sh(cmd + [path], timeout=timeout, cwd=vlib.WORK)
    for ext in ('.vo', '.vok', '.vos', '.glob') + (('.v',) if rc == 0 else ()):      # the case file is kept when coqc failed
        try:
            os.remove(path[:-2] + ext)
        except FileNotFoundError:
            pass
    return rc, out


def coq_eval_many(jobs, timeout=900):
    with concurrent.futures.ThreadPoolExecutor(max_workers=NCPU) as ex:
        futs = [ex.submit(coq_eval, n, t, timeout) for n, t in jobs]
        return [f.result() for f in futs]


def coq_result(out):
    m = re.search(r'^\s*=\s*(.*?)\n\s*:\s', out, re.S | re.M)
    return None if not m else ' '.join(m.group(1).split())


def parse_nested(text):
    t = re.sub(r'%[A-Za-z]+', '', text).replace(';', ',')
    t = re.sub(r'\s+', '', t)
    return json.loads(t)


# ------------------------------------------------------------------ names
class Names:
    """numbers for the names of one (before, after) pair: names of `before` 1, 2, ..; a name of `after` that is
    "_t<id>" ++ x with id >= base and x a known name is number(x) * 2^32 + id (Corr.mangle_c)"""
    TEMP = re.compile(r'^_t(\d+)(.+)$', re.S)

    def __init__(self, base):
        self.base = base
        self.tbl = {}
        self.undecodable = []

    def add(self, s):
        if s not in self.tbl:
            self.tbl[s] = len(self.tbl) + 1
        return self.tbl[s]

    def get(self, s):
        if s in self.tbl:
            return self.tbl[s]
        m = self.TEMP.match(s)
        if m and self.base is not None and int(m.group(1)) >= self.base and int(m.group(1)) < W32:
            inner = self.get(m.group(2))
            v = inner * W32 + int(m.group(1))
            self.tbl[s] = v
            return v
        self.undecodable.append(s)
        v = (W32 - 1 - len(self.undecodable))          # a number no input name has, no mangled name has
        self.tbl[s] = v
        return v


# ------------------------------------------------------------------ JSON (vh inl-dump) -> Gallina
def g_list(xs):
    return '[' + '; '.join(xs) + ']'


class Gal:
    def __init__(self, nm, adding):
        self.nm = nm
        self.n = nm.add if adding else nm.get

    def expr(self, e):
        k = e[0]
        if k == 'i':
            return '(EInt (%d)%%Z)' % e[1]
        if k == 'j':
            return '(EI31 (%d)%%Z)' % e[1]
        if k == 's':
            return '(EStr %d)' % self.n('"' + e[1])          # string constants: a separate name space
        return '(EVar %d %d)' % (self.n(e[1]), e[2])

    def quad(self, q):
        return '(mkq %d %d %s %s)' % (self.n(q[0]), q[1], self.expr(q[2]), self.expr(q[3]))

    def callee(self, c):
        if c[0] == 'fn':
            return '(CFn %d %s %d)' % (c[1], g_list('%d' % t for t in c[2]), c[3])
        return '(CVar %d %d)' % (self.n(c[1]), c[2])

    def stmts(self, ss):
        return g_list(self.stmt(s) for s in ss)

    def stmt(self, s):
        k = s[0]
        if k == 'bin':
            return '(SBin %d %s %s %s)' % (self.n(s[1]), s[2], self.expr(s[3]), self.expr(s[4]))
        if k == 'not':
            return '(SNot %d %s)' % (self.n(s[1]), self.expr(s[2]))
        if k == 'prim':
            p = {'idx': '(PIdx %d %d)' % (s[3], s[4]), 'isptr': '(PIsPtr %d)' % s[3], 'cast': '(PCast %d)' % s[3]}[s[2]]
            return '(SPrim %d %s %s)' % (self.n(s[1]), p, self.expr(s[5]))
        if k == 'call':
            return '(SCall %s %s %d %s)' % (self.callee(s[1]), g_list(self.expr(a) for a in s[2]), s[3],
                                            'None' if s[4] is None else '(Some %d)' % self.n(s[4]))
        if k == 'if':
            return '(SIf %s %s %s %s)' % (self.expr(s[1]), self.stmts(s[2]), self.stmts(s[3]), g_list(self.quad(q) for q in s[4]))
        if k == 'sif':
            return '(SSIf %s %s %s)' % (self.expr(s[1]), 'true' if s[2] else 'false', self.stmts(s[3]))
        if k == 'brk':
            return '(SBreak %s)' % self.expr(s[1])
        if k == 'while':
            bc = 'None' if s[3] is None else '(Some (%d, %d))' % (self.n(s[3][0]), s[3][1])
            return '(SWhile %s %s %s)' % (g_list(self.quad(q) for q in s[1]), self.stmts(s[2]), bc)
        if k == 'decl':
            return '(SDecl %d %d)' % (self.n(s[1]), s[2])
        if k == 'assign':
            return '(SAssign %d %s)' % (self.n(s[1]), self.expr(s[2]))
        if k == 'struct':
            return '(SStruct %d %d %s)' % (self.n(s[1]), s[2], g_list(self.expr(a) for a in s[3]))
        if k == 'closure':
            return '(SClosure %d %d %d %d %s)' % (self.n(s[1]), s[2], s[3], s[4], self.expr(s[5]))
        raise ValueError(k)

    def func(self, f):
        return '(mkfunc %d %s %s %d %s %s)' % (f['name'], g_list('%d' % self.n(p) for p in f['params']),
                                               g_list('%d' % t for t in f['atys']), f['rty'], self.stmts(f['body']), self.expr(f['ret']))


def stmt_kinds(ss, out):
    for s in ss:
        k = s[0]
        if k == 'call':
            k = 'call-fn' if s[1][0] == 'fn' else 'call-closure'
        if k == 'prim':
            k = s[2]
        out[k] = out.get(k, 0) + 1
        if s[0] == 'if':
            stmt_kinds(s[2], out)
            stmt_kinds(s[3], out)
        elif s[0] == 'sif':
            stmt_kinds(s[3], out)
        elif s[0] == 'while':
            stmt_kinds(s[2], out)


def count_calls(ss):
    n = 0
    for s in ss:
        if s[0] == 'call':
            n += 1
        elif s[0] == 'if':
            n += count_calls(s[2]) + count_calls(s[3])
        elif s[0] == 'sif':
            n += count_calls(s[3])
        elif s[0] == 'while':
            n += count_calls(s[2])
    return n


def gallina_stage(stage, tag):
    """Definitions for one inlining stage + the term to evaluate; None if the stage cannot be encoded"""
    nm = Names(stage['base'])
    gb = Gal(nm, True)
    before = [gb.func(f) for f in stage['before']]
    ga = Gal(nm, False)
    after = [ga.func(f) for f in stage['after']]
    # an upper bound of the number of sites the five rounds can inline: every call of every round's program
    K = 8 * (sum(count_calls(f['body']) for f in stage['after']) + sum(count_calls(f['body']) for f in stage['before'])) + 64
    defs = ['Definition b%s : program := %s.' % (tag, g_list(before)),
            'Definition a%s : program := %s.' % (tag, g_list(after))]
    term = '[tie_inline %d b%s a%s; inst_inline %d b%s a%s]' % (K, tag, tag, FUEL, tag, tag)
    return '\n'.join(defs), term, nm


def gallina_sroa(case, ftys, tag):
    nm = Names(None)
    g = Gal(nm, True)
    tbl = g_list('(%s, (%s, %d))' % (k, g_list('%d' % t for t in v[0]), v[1]) for k, v in sorted(ftys.items(), key=lambda kv: int(kv[0])))
    defs = ['Definition sb%s : func := %s.' % (tag, g.func(case['before'])),
            'Definition sa%s : func := %s.' % (tag, g.func(case['after']))]
    return '\n'.join(defs), 'tie_sroa %s sb%s sa%s' % (tbl, tag, tag)


def struct_program(r):
    """records that are built and taken apart in the same function, closures that are called where they are made,
    a pair carried by a loop (the shape of the seeded change C02-4), records that escape"""
    funs, mains = [], []
    inp = lambda k: 'Main.inp("%d")' % k
    n = r.range(3, 6)
    for i in range(n):
        f = 'g%d' % i
        kind = r.below(7)
        if kind == 0:
            funs.append('  function %s(a: int, b: int): int = { let p = LPair.init(a + %d, b); p.a * 3 + p.b }' % (f, r.range(1, 9)))
        elif kind == 1:
            funs.append('  function %s(a: int, b: int): int = { let h = (x: int) -> x * %d + a; h(b) + h(a) }' % (f, r.range(2, 7)))
        elif kind == 2:
            funs.append('  function %sp(p: LPair, i: int, n: int): int = if i >= n { p.a * 3 + p.b } else { Main.%sp(LPair.init(p.b %% 1000, (p.a + p.b + i) %% 1000), i + 1, n) }' % (f, f))
            funs.append('  function %s(a: int, b: int): int = Main.%sp(LPair.init(a, 1), 0, b %% 7)' % (f, f))
        elif kind == 3:
            funs.append('  function %sk(p: LPair): int = p.a - p.b' % f)
            funs.append('  function %s(a: int, b: int): int = { let p = LPair.init(a, b); let q = LPair.init(p.b, p.a + 1); Main.%sk(q) + p.a }' % (f, f))
        elif kind == 4:
            funs.append('  function %sap(h: (int) -> int, x: int): int = h(x) + 1' % f)
            funs.append('  function %s(a: int, b: int): int = Main.%sap((y) -> y + a * %d, b)' % (f, f, r.range(2, 5)))
        elif kind == 5:
            funs.append('  function %s(a: int, b: int): int = if a < b { let p = LPair.init(a, b); p.a + p.b } else { let q = LPair.init(b, a); q.a * q.b }' % f)
        else:
            funs.append('  function %s(a: int, b: int): int = { let t = LTri.init(a, b, a + b); let u = LPair.init(t.c, t.a); u.a + u.b + t.b }' % f)
        mains.append('    let _ = Process.println(Str.fromInt(Main.%s(%s, %s)));' % (f, inp(r.range(0, 6)), r.pick([inp(3), '4', '9'])))
    text = ('class LPair(val a: int, val b: int) {}\nclass LTri(val a: int, val b: int, val c: int) {}\n'
            'class Main {\n  function inp(s: Str): int = s.toInt()\n' + '\n'.join(funs)
            + '\n  function main(): unit = {\n' + '\n'.join(mains) + '\n  }\n}\n')
    return {'sources': {'Main': text}, 'entry': 'Main', 'features': ['struct']}


# ------------------------------------------------------------------ programs
def call_heavy_program(r):
    """many small functions calling each other: chains, diamonds, a small recursive one, a loop that calls a small
    function, calls whose result is dropped, calls in both branches"""
    funs, mains = [], []
    inp = lambda k: 'Main.inp("%d")' % k
    n = r.range(4, 8)
    for i in range(n):
        f = 'h%d' % i
        kind = r.below(7)
        callee = 'h%d' % r.below(i) if i > 0 else None
        if kind == 0 or callee is None:
            funs.append('  function %s(a: int, b: int): int = a * %d + b' % (f, r.range(2, 9)))
        elif kind == 1:
            funs.append('  function %s(a: int, b: int): int = Main.%s(b, a + %d) - a' % (f, callee, r.range(1, 5)))
        elif kind == 2:
            funs.append('  function %s(a: int, b: int): int = if a < b { Main.%s(a, b) } else { Main.%s(b, a) + 1 }' % (f, callee, callee))
        elif kind == 3:
            funs.append('  function %s(a: int, b: int): int = { let x = Main.%s(a, 1); let y = Main.%s(x, b); x + y }' % (f, callee, callee))
        elif kind == 4:
            funs.append('  function %s(a: int, b: int): int = if a <= 0 { b } else { Main.%s(a - 1, Main.%s(b, a)) }' % (f, f, callee))
        elif kind == 5:
            funs.append('  function %s(a: int, b: int): int = { let _ = Main.%s(a, b); let _ = Process.println(Str.fromInt(a)); b }' % (f, callee))
        else:
            funs.append('  function %s(a: int, b: int): int = if a %% 2 == 0 { a } else { Main.%s(b / %d, a) }' % (f, callee, r.range(1, 3)))
        mains.append('    let _ = Process.println(Str.fromInt(Main.%s(%s, %s)));' % (f, inp(r.range(0, 6)), r.pick([inp(3), '4', '0'])))
    text = ('class Main {\n  function inp(s: Str): int = s.toInt()\n' + '\n'.join(funs)
            + '\n  function main(): unit = {\n' + '\n'.join(mains) + '\n  }\n}\n')
    return {'sources': {'Main': text}, 'entry': 'Main', 'features': ['call-heavy']}


def programs(tier, seed):
    rng = Rng(seed ^ 0xC02141)
    progs = []
    n_gen, n_order, n_call = (32, 8, 12) if tier == 'quick' else (400, 100, 200)
    n_struct = 12 if tier == 'quick' else 200
    for i in range(n_gen):
        r = rng.fork()
        progs.append(gen_program(r, {'big': i % 6 == 0, 'nfun': 5, 'depth': 2 + i % 2, 'loops': True, 'closures': i % 3 == 1,
                                     'vec': i % 6 == 2, 'strings': i % 4 == 3, 'interfaces': i % 2 == 1, 'loop_focus': i % 2 == 0,
                                     'avoid_known_iv': True}))
    for i in range(n_order):
        progs.append(gen_order_program(rng.fork()))
    for i in range(n_call):
        progs.append(call_heavy_program(rng.fork()))
    for i in range(n_struct):
        progs.append(struct_program(rng.fork()))
    return progs


def dump(progs, extra=None):
    jobs = []
    for i, p in enumerate(progs):
        jobs.append(dict({'id': 2 * i, 'sources': p['sources'], 'entry': p['entry'], 'fuel': 300000, 'mode': 'pipeline'}, **(extra or {})))
        jobs.append(dict({'id': 2 * i + 1, 'sources': p['sources'], 'entry': p['entry'], 'fuel': 300000, 'mode': 'raw', 'sroa': False}, **(extra or {})))
    chunks = [jobs[i::NCPU] for i in range(NCPU)]

    def run_chunk(c):
        if not c:
            return []
        rc, out = vh(['inl-dump'], input='\n'.join(json.dumps(j) for j in c) + '\n', timeout=1200)
        return [json.loads(l) for l in out.splitlines() if l.startswith('{')]
    res = {}
    with concurrent.futures.ThreadPoolExecutor(max_workers=NCPU) as ex:
        for part in ex.map(run_chunk, chunks):
            for r in part:
                if isinstance(r.get('id'), int):
                    res[r['id']] = r
    return res


def same_run(a, b):
    return a is not None and b is not None and a.get('lines') == b.get('lines') and a.get('ending') == b.get('ending')


# ------------------------------------------------------------------ synthetic MIR (harness job kind 2)
OPSYN = ['PLUS', 'MINUS', 'MUL', 'LT', 'LE', 'EQ', 'NE', 'XOR', 'LAND', 'DIV', 'MOD']


def gen_inline_mir(r):
    """A random MIR program (names are strings) of small functions that call each other: every statement form in the
    callees, the same name bound in both branches of an IfElse / in a SingleIf body and again after it / as final
    assignment of nested IfElse (legal: the scopes are disjoint), loops with and without break collector, LateInit,
    calls with and without collector, self calls, calls through closures; now and then a callee that binds a name twice in
    one scope (the real pass panics: checked_bind) or a call with too few arguments."""
    nfun = r.range(2, 5)
    ar = [r.range(0, 3) for _ in range(nfun)]
    funcs = []

    def lit():
        return r.pick([['i', 0], ['i', 1], ['i', 2], ['i', 7], ['i', -1], ['j', 1]])

    def expr(scope):
        if scope and r.chance(3, 5):
            return ['v', r.pick(scope), 0]
        return lit()

    for fi in range(nfun):
        cnt = [0]
        pool = ['x%d' % k for k in range(4)]          # few names: reuse across disjoint scopes is frequent

        def fresh(scope, reuse=True):
            if reuse and r.chance(1, 3):
                cand = [n for n in pool if n not in scope]
                if cand:
                    return r.pick(cand)
            cnt[0] += 1
            return 'y%d_%d' % (fi, cnt[0])

        def stmts(scope, depth, n, in_loop):
            out = []
            scope = list(scope)
            for _ in range(n):
                k = r.below(15)
                if k < 3:
                    x = fresh(scope)
                    out.append(['bin', x, r.pick(OPSYN), expr(scope), expr(scope)])
                    scope.append(x)
                elif k == 3:
                    x = fresh(scope)
                    out.append(['not', x, expr(scope)])
                    scope.append(x)
                elif k == 4:
                    x = fresh(scope)
                    out.append(['prim', x, r.pick(['idx', 'isptr', 'cast']), 2, r.below(3), expr(scope)])
                    scope.append(x)
                elif k in (5, 6):
                    callee = r.pick(list(range(nfun)) + [90])
                    x = fresh(scope) if r.chance(2, 3) else None
                    na = ar[callee] if callee < nfun else 1
                    if r.chance(1, 25) and na > 0:
                        na -= 1                                        # too few arguments
                    out.append(['call', ['fn', callee, [0] * na, 0], [expr(scope) for _q in range(na)], 0, x])
                    if x is not None:
                        scope.append(x)
                elif k == 7 and depth > 0:
                    c = expr(scope)
                    s1, sc1 = stmts(scope, depth - 1, r.range(0, 2), in_loop)
                    s2, sc2 = stmts(scope, depth - 1, r.range(0, 2), in_loop)
                    fas = []
                    for _q in range(r.range(0, 2)):
                        x = fresh(scope + [q[0] for q in fas])
                        fas.append([x, 0, expr(sc1), expr(sc2)])
                    out.append(['if', c, s1, s2, fas])
                    scope.extend(q[0] for q in fas)
                elif k == 8 and depth > 0:
                    lv = fresh(scope, False)
                    inner = scope + [lv]
                    g = fresh(inner, False)
                    body = [['bin', g, 'LT', ['v', lv, 0], ['i', r.range(1, 3)]],
                            ['sif', ['v', g, 0], True, [['brk', expr(inner + [g])]]]]
                    more, sc = stmts(inner + [g], depth - 1, r.range(0, 2), True)
                    n1 = fresh(sc, False)
                    body += more + [['bin', n1, 'PLUS', ['v', lv, 0], ['i', 1]]]
                    bc = fresh(sc + [n1], False) if r.chance(2, 3) else None
                    out.append(['while', [[lv, 0, ['i', 0], ['v', n1, 0]]], body, None if bc is None else [bc, 0]])
                    # the body of a While is not a scope of the rewriting context: its names stay bound
                    scope = sc + [n1] + ([bc] if bc is not None else [])
                elif k == 9:
                    x = fresh(scope)
                    out.append(['decl', x, 0])
                    out.append(['assign', x, expr(scope)])
                    scope.append(x)
                elif k == 10:
                    x = fresh(scope)
                    out.append(['struct', x, 2, [expr(scope) for _q in range(r.range(1, 3))]])
                    scope.append(x)
                elif k == 11:
                    x = fresh(scope)
                    out.append(['closure', x, 3, r.below(nfun), 4, expr(scope)])
                    scope.append(x)
                    if r.chance(1, 2):
                        y = fresh(scope)
                        out.append(['call', ['var', x, 3], [expr(scope)], 0, y])
                        scope.append(y)
                elif k == 12 and depth > 0:
                    s1, _sc = stmts(scope, depth - 1, r.range(1, 2), in_loop)
                    out.append(['sif', expr(scope), r.chance(1, 2), s1])
                elif k == 13 and r.chance(1, 12) and scope:
                    out.append(['bin', r.pick(scope), 'PLUS', lit(), lit()])       # a second binding in the same scope
            return out, scope

        params = ['p%d_%d' % (fi, j) for j in range(ar[fi])]
        body, sc = stmts(params, 2, r.range(1, 4), False)
        funcs.append({'name': fi, 'params': params, 'atys': [0] * ar[fi], 'rty': 0, 'body': body, 'ret': expr(sc)})
    mbody, msc = [], []
    for k in range(r.range(2, 5)):
        callee = r.below(nfun)
        x = 'm%d' % k
        mbody.append(['call', ['fn', callee, [0] * ar[callee], 0], [expr(msc) for _q in range(ar[callee])], 0, x])
        msc.append(x)
    funcs.append({'name': nfun, 'params': [], 'atys': [], 'rty': 0, 'body': mbody, 'ret': expr(msc)})
    return funcs


def gen_sroa_mir(r):
    """One MIR function for the scalar-replacement pass: structs that are only loaded from (in the same block, in nested
    blocks, inside loops), structs that escape in every way the analysis knows (operand, argument, condition, final
    assignment, break value, loop variable, assignment, field of another struct, closure context, return value),
    closures that are called / passed on, loads whose result is a loop value, chains of substitutions."""
    cnt = [0]

    def fresh(p='v'):
        cnt[0] += 1
        return '%s%d' % (p, cnt[0])

    def lit():
        return r.pick([['i', 0], ['i', 1], ['i', 5], ['i', -2], ['j', 3]])
    structs, closures, ints = [], [], ['a', 'b']

    def iexpr():
        return ['v', r.pick(ints), 0] if r.chance(3, 4) else lit()

    def stmts(depth, n, in_loop):
        out = []
        for _ in range(n):
            k = r.below(16)
            if k < 3:
                x = fresh()
                out.append(['bin', x, r.pick(OPSYN[:8]), iexpr(), iexpr()])
                ints.append(x)
            elif k < 5:
                x = fresh('s')
                fields = [(['v', r.pick(structs)[0], 2] if structs and r.chance(1, 6) else iexpr()) for _q in range(r.range(1, 3))]
                out.append(['struct', x, 2, fields])
                structs.append((x, len(fields)))
            elif k < 8 and structs:
                s0, nf = r.pick(structs)
                x = fresh()
                out.append(['prim', x, 'idx', 0, r.below(nf), ['v', s0, 2]])
                ints.append(x)
            elif k == 8:
                x = fresh('c')
                out.append(['closure', x, 3, r.below(3), 4, iexpr()])
                closures.append(x)
            elif k == 9 and closures:
                x = fresh()
                out.append(['call', ['var', r.pick(closures), 3], [iexpr() for _q in range(r.range(0, 2))], 0, x])
                ints.append(x)
            elif k == 10:
                args = [iexpr()]
                if structs and r.chance(1, 3):
                    args.append(['v', r.pick(structs)[0], 2])          # escapes as an argument
                if closures and r.chance(1, 4):
                    args.append(['v', r.pick(closures), 3])
                x = fresh()
                out.append(['call', ['fn', 7, [0] * len(args), 0], args, 0, x])
                ints.append(x)
            elif k == 11 and depth > 0:
                c = iexpr()
                mark = len(ints)
                s1 = stmts(depth - 1, r.range(0, 2), in_loop)
                e1 = iexpr()
                del ints[mark:]
                s2 = stmts(depth - 1, r.range(0, 2), in_loop)
                e2 = iexpr()
                del ints[mark:]
                x = fresh()
                out.append(['if', c, s1, s2, [[x, 0, e1, e2]] if r.chance(2, 3) else []])
                ints.append(x) if out[-1][4] else None
            elif k == 12 and depth > 0:
                lv = fresh('i')
                g = fresh()
                ints.append(lv)
                mark = len(ints)
                body = [['bin', g, 'GE', ['v', lv, 0], ['i', r.range(1, 3)]], ['sif', ['v', g, 0], False, [['brk', iexpr()]]]]
                body += stmts(depth - 1, r.range(1, 3), True)
                nxt = iexpr()                                          # may be a load of the body
                lvs = [[lv, 0, lit(), nxt]]
                if structs and r.chance(1, 3):
                    # a struct-typed loop variable rebuilt in the body (the shape of the seeded change C02-4)
                    s_in = fresh('s')
                    body.append(['struct', s_in, 2, [iexpr(), iexpr()]])
                    pv = fresh('s')
                    lvs.append([pv, 2, ['v', r.pick(structs)[0], 2], ['v', s_in, 2]])
                del ints[mark:]
                bc = fresh()
                out.append(['while', lvs, body, [bc, 0]])
                ints.append(bc)
            elif k == 13 and depth > 0:
                mark = len(ints)
                s1 = stmts(depth - 1, r.range(1, 2), in_loop)
                del ints[mark:]
                out.append(['sif', iexpr(), r.chance(1, 2), s1])
            elif k == 14:
                x = fresh()
                out.append(['decl', x, 0])
                out.append(['assign', x, iexpr()])
                ints.append(x)
            elif k == 15 and structs and r.chance(1, 3):
                x = fresh()
                out.append(['prim', x, r.pick(['cast', 'isptr']), 2, 0, ['v', r.pick(structs)[0], 2]])    # escapes as an operand
                ints.append(x)
        return out
    body = stmts(2, r.range(3, 8), False)
    ret = iexpr() if r.chance(3, 4) or not structs else ['v', r.pick(structs)[0], 2]
    return {'name': 0, 'params': ['a', 'b'], 'atys': [0, 0], 'rty': 0, 'body': body, 'ret': ret}


def synthetic(ck, tier, seed):
    rng = Rng(seed ^ 0x51A11)
    n_inl, n_sroa = (120, 240) if tier == 'quick' else (2500, 5000)
    iprogs = [gen_inline_mir(rng.fork()) for _ in range(n_inl)]
    sfuncs = [gen_sroa_mir(rng.fork()) for _ in range(n_sroa)]
    jobs = [{'id': i, 'program': p, 'pass': 'inline'} for i, p in enumerate(iprogs)]
    jobs += [{'id': n_inl + i, 'program': [f], 'pass': 'sroa'} for i, f in enumerate(sfuncs)]
    chunks = [jobs[i::NCPU] for i in range(NCPU)]

    def run_chunk(c):
        if not c:
            return []
        rc, out = vh(['inl-dump'], input='\n'.join(json.dumps(j) for j in c) + '\n', timeout=1200)
        return [json.loads(l) for l in out.splitlines() if l.startswith('{')]
    res = {}
    with concurrent.futures.ThreadPoolExecutor(max_workers=NCPU) as ex:
        for part in ex.map(run_chunk, chunks):
            for r in part:
                if isinstance(r.get('id'), int):
                    res[r['id']] = r
    st = {'inline_programs': n_inl, 'inline_model_eq_real': 0, 'inline_differs': 0, 'inline_real_panics': 0, 'inline_both_panic': 0,
          'inline_sites': 0, 'inline_changed': 0, 'inline_side_conditions_hold': 0, 'inline_inst': [0, 0, 0, 0], 'inline_inst_diff_on_wf': 0,
          'sroa_functions': n_sroa, 'sroa_model_eq_real': 0, 'sroa_differs': 0, 'sroa_changed': 0, 'sroa_real_panics': 0, 'sroa_both_panic': 0,
          'sroa_loads_substituted': 0, 'sroa_closures': 0, 'sroa_structs': 0, 'sroa_deletion_theorem_applies': 0, 'sroa_seeded_variant_differs': 0}
    kinds = {}
    cases = []
    for i in range(n_inl + n_sroa):
        r = res.get(i)
        if r is None or 'harness_panic' in r or 'error' in r:
            ck.obligation('inl-dump(synthetic %d)' % i, False, json.dumps(r)[:300])
            continue
        if i < n_inl:
            for f in iprogs[i]:
                stmt_kinds(f['body'], kinds)
            stage = {'base': r['base'], 'before': iprogs[i], 'after': r.get('after') or []}
            defs, term, nm = gallina_stage(stage, 'y%d' % i)
            if 'panic' in r:
                term = '[tie_inline_none 4000 by%d]' % i
            cases.append((i, defs, term))
        else:
            f = sfuncs[i - n_inl]
            a = (r.get('after') or [None])[0]
            panicked = a is None or 'panic' in a
            case = {'before': f, 'after': f if panicked else a}
            defs, term = gallina_sroa(case, {'4': [[], 4]}, 'y%d' % i)
            if panicked:
                term = 'tie_sroa_none %s sby%d' % (g_list(['(4, ([], 4))']), i)
            cases.append((i, defs, '[%s]' % term))
    nshard = max(1, min(NCPU, len(cases)))
    shards = [cases[k::nshard] for k in range(nshard)]
    cjobs = [('c02inl_syn_%d_%d' % (os.getpid(), k), HEADER + '\n'.join(c[1] for c in sh_) + '\nEval vm_compute in %s.\n' % g_list(c[2] for c in sh_))
             for k, sh_ in enumerate(shards)]
    outs = coq_eval_many(cjobs, timeout=1500)
    for k, (rc, o) in enumerate(outs):
        resl = coq_result(o) if rc == 0 else None
        rows = None
        if resl is not None:
            try:
                rows = parse_nested(resl)
            except Exception:
                rows = None
        if rows is None or len(rows) != len(shards[k]):
            ck.obligation('model-evaluation(C02inl synthetic shard %d)' % k, False, o[-800:])
            continue
        for (i, _d, _t), row in zip(shards[k], rows):
            r = res[i]
            if i < n_inl:
                where = {'mir_program': iprogs[i]}
                if 'panic' in r:
                    st['inline_real_panics'] += 1
                    ck.case(['syn-inl', iprogs[i]], False)
                    if row[0][0] == 1:
                        st['inline_both_panic'] += 1
                    else:
                        ck.disagree('C02inl.Inline.optimize_functions vs inlining::optimize_functions on a synthetic MIR program', where,
                                    'the mirror succeeds', 'the real pass panics: ' + str(r['panic'])[:200], how='vh inl-dump job {"program": .., "pass": "inline"}')
                    continue
                tie, inst = row
                status, sc, wfb, nsites, changed, nrounds, nfun, wfa = tie
                ck.case(['syn-inl', iprogs[i]], bool(changed))
                st['inline_sites'] += nsites
                st['inline_changed'] += changed
                st['inline_side_conditions_hold'] += sc
                for j in range(4):
                    st['inline_inst'][j] += inst[j]
                if status == 0:
                    st['inline_model_eq_real'] += 1
                else:
                    st['inline_differs'] += 1
                    ck.disagree('C02inl.Inline.optimize_functions vs inlining::optimize_functions on a synthetic MIR program', where,
                                'optimize_functions mangle_c false (recovered supply)' + (' fails' if status == 2 else ''), (r.get('after') or [])[:2],
                                how='vh inl-dump job {"program": .., "pass": "inline"}; coqc work/c02inl_syn_<pid>_%d.v' % k)
                if inst[2] and sc:
                    st['inline_inst_diff_on_wf'] += 1
                    ck.property_failure('the inlining pass changes behaviour on a synthetic MIR program that satisfies the side conditions of the '
                                        'theorem (Gallina semantics)', where, observed={'instances': inst})
            else:
                f = sfuncs[i - n_inl]
                where = {'mir_function': f}
                a = (r.get('after') or [None])[0]
                if a is None or 'panic' in a:
                    st['sroa_real_panics'] += 1
                    ck.case(['syn-sroa', f], False)
                    if row[0][0] == 1:
                        st['sroa_both_panic'] += 1
                    else:
                        ck.disagree('C02inl.Sroa.sroa_func vs scalar_replacement::optimize_function on a synthetic MIR function', where,
                                    'the mirror succeeds', 'the real pass panics', how='vh inl-dump job {"program": .., "pass": "sroa"}')
                    continue
                status, changed, wfb, seeded_eq, nst, ncl, nsub, delonly = row[0]
                ck.case(['syn-sroa', f], bool(changed))
                st['sroa_changed'] += changed
                st['sroa_structs'] += nst
                st['sroa_closures'] += ncl
                st['sroa_loads_substituted'] += nsub
                st['sroa_seeded_variant_differs'] += 1 - seeded_eq
                if changed:
                    st['sroa_deletion_theorem_applies'] += delonly
                if status == 0:
                    st['sroa_model_eq_real'] += 1
                else:
                    st['sroa_differs'] += 1
                    ck.disagree('C02inl.Sroa.sroa_func vs scalar_replacement::optimize_function on a synthetic MIR function', where,
                                'sroa_func ver_now' + (' fails' if status == 2 else ''), a,
                                how='vh inl-dump job {"program": .., "pass": "sroa"}; coqc work/c02inl_syn_<pid>_%d.v' % k)
    st['stmt_kinds'] = kinds
    ck.extra_cov['inl_synthetic'] = st
    for k, v in st.items():
        if isinstance(v, int):
            ck.count('inl:syn:' + k, v)
    ck.obligation('C02inl synthetic tie ran', st['inline_sites'] > 0 and st['sroa_loads_substituted'] > 0,
                  '%d + %d cases' % (n_inl, n_sroa))
    print('C02inl synthetic MIR: inlining programs=%d model=real %d differs %d real panics %d (mirror fails too: %d) sites %d changed %d '
          'side conditions hold %d instances=%s diff on wf %d | sroa functions=%d model=real %d differs %d changed %d real panics %d (mirror too %d) '
          'structs %d closures %d loads substituted %d deletion theorem covers %d seeded variant differs %d'
          % (n_inl, st['inline_model_eq_real'], st['inline_differs'], st['inline_real_panics'], st['inline_both_panic'], st['inline_sites'],
             st['inline_changed'], st['inline_side_conditions_hold'], st['inline_inst'], st['inline_inst_diff_on_wf'], n_sroa,
             st['sroa_model_eq_real'], st['sroa_differs'], st['sroa_changed'], st['sroa_real_panics'], st['sroa_both_panic'], st['sroa_structs'],
             st['sroa_closures'], st['sroa_loads_substituted'], st['sroa_deletion_theorem_applies'], st['sroa_seeded_variant_differs']))
    return st


# ------------------------------------------------------------------ the check
def inl(ck, tier, seed):
    progs = programs(tier, seed)
    res = dump(progs)
    st = {'programs': len(progs), 'jobs': 0, 'rejected': 0, 'stages': 0, 'stages_changed': 0, 'model_eq_real': 0, 'model_differs': 0,
          'model_fails': 0, 'side_conditions_hold': 0, 'wf_before': 0, 'wf_after': 0, 'sites_inlined': 0, 'rounds': 0, 'functions': 0,
          'inst': [0, 0, 0, 0], 'inst_diff_on_wf': 0, 'real_panics': 0, 'undecodable_names': 0, 'mirsem_same': 0, 'mirsem_diff': 0,
          'mirsem_skipped': 0}
    ss = {'functions': 0, 'changed': 0, 'model_eq_real': 0, 'model_differs': 0, 'model_fails': 0, 'wf_before': 0, 'real_panics': 0,
          'seeded_variant_differs': 0, 'structs_replaced': 0, 'closures_replaced': 0, 'loads_substituted': 0,
          'changed_deletion_theorem_applies': 0}
    kinds = {}
    cases = []          # (job id, stage index, defs, term, names)
    scases = []         # (job id, index, defs, term, where, case)
    for jid in sorted(res):
        r = res[jid]
        p = progs[jid // 2]
        st['jobs'] += 1
        if r.get('rejected') or 'lowering_panic' in r:
            st['rejected'] += 1
            continue
        if 'harness_panic' in r or 'error' in r or 'stages' not in r:
            ck.obligation('inl-dump(job %d)' % jid, False, json.dumps(r)[:300])
            continue
        for xi, case in enumerate(r.get('sroa', [])):
            where = {'sources': p['sources'], 'entry': p['entry'], 'sroa_case': xi, 'function': r['fnames'][case['before']['name']]}
            if 'panic' in case:
                ss['real_panics'] += 1
                ck.property_failure('the scalar-replacement pass panicked: ' + str(case['panic'])[:200], where, how='vh inl-dump job (sroa)')
                continue
            d, t = gallina_sroa(case, r['ftys'], '%d_%d' % (jid, xi))
            scases.append((jid, xi, d, t, None, where, case))
        for si, stage in enumerate(r['stages']):
            if 'rounds_panic' in stage:
                continue
            where = {'sources': p['sources'], 'entry': p['entry'], 'stage': si, 'mode': 'pipeline' if jid % 2 == 0 else 'raw'}
            if 'panic' in stage:
                st['real_panics'] += 1
                ck.property_failure('the inlining pass panicked: ' + str(stage['panic'])[:200], where,
                                    how='vh inl-dump job (mode %s, stage %d)' % (where['mode'], si))
                continue
            st['stages'] += 1
            for f in stage['before']:
                stmt_kinds(f['body'], kinds)
            rb, ra = stage['runs'].get('before'), stage['runs'].get('after')
            if rb is None or ra is None or rb.get('overflowed') or rb['ending']['kind'] in ('out-of-fuel', 'stack-overflow'):
                st['mirsem_skipped'] += 1
            elif same_run(rb, ra):
                st['mirsem_same'] += 1
            else:
                st['mirsem_diff'] += 1
                ck.property_failure('the inlining pass changes the behaviour of the program (MIR interpreter before / after the pass)',
                                    where, expected=rb, observed=ra, how='vh inl-dump job (mode %s, stage %d)' % (where['mode'], si))
            defs, term, nm = gallina_stage(stage, '%d_%d' % (jid, si))
            cases.append((jid, si, defs, term, nm, where, stage))
    ninl = len(cases)
    cases = cases + scases
    nshard = max(1, min(NCPU, len(cases)))
    # shards balanced by size
    order = sorted(range(len(cases)), key=lambda i: -len(cases[i][2]))
    shards = [[] for _ in range(nshard)]
    sizes = [0] * nshard
    for i in order:
        k = sizes.index(min(sizes))
        shards[k].append(i)
        sizes[k] += len(cases[i][2])
    cjobs = []
    for k, idxs in enumerate(shards):
        parts = [cases[i][2] for i in idxs]
        terms = [(cases[i][3] if i < ninl else '[%s]' % cases[i][3]) for i in idxs]
        cjobs.append(('c02inl_%d_%d' % (os.getpid(), k), HEADER + '\n'.join(parts) + '\nEval vm_compute in %s.\n' % g_list(terms)))
    outs = coq_eval_many(cjobs, timeout=1500) if cases else []
    for k, (rc, o) in enumerate(outs):
        resl = coq_result(o) if rc == 0 else None
        rows = None
        if resl is not None:
            try:
                rows = parse_nested(resl)
            except Exception:
                rows = None
        if rows is None or len(rows) != len(shards[k]):
            ck.obligation('model-evaluation(C02inl shard %d)' % k, False, o[-800:])
            continue
        for i, row in zip(shards[k], rows):
            jid, si, _d, _t, nm, where, stage = cases[i]
            if i >= ninl:
                status, changed, wfb, seeded_eq, nst, ncl, nsub, delonly = row[0]
                ck.case(['sroa', where['sources'], where['function'], si], bool(changed))
                ss['functions'] += 1
                ss['changed'] += changed
                ss['wf_before'] += wfb
                ss['seeded_variant_differs'] += 1 - seeded_eq
                ss['structs_replaced'] += nst
                ss['closures_replaced'] += ncl
                ss['loads_substituted'] += nsub
                if changed:
                    ss['changed_deletion_theorem_applies'] += delonly
                if status == 0:
                    ss['model_eq_real'] += 1
                else:
                    ss['model_differs' if status == 1 else 'model_fails'] += 1
                    ck.disagree('C02inl.Sroa.sroa_func vs scalar_replacement::optimize_function', where,
                                'sroa_func ver_now of the function' + (' fails' if status == 2 else ''), stage.get('after'),
                                how='coqc work/c02inl_<pid>_%d.v (sb%d_%d)' % (k, jid, si))
                continue
            tie, inst = row
            status, sc, wfb, nsites, changed, nrounds, nfun, wfa = tie
            ck.case(['inl', where['sources'], where['mode'], si], bool(changed))
            st['functions'] += nfun
            st['stages_changed'] += changed
            st['sites_inlined'] += nsites
            st['rounds'] += nrounds
            st['wf_before'] += wfb
            st['wf_after'] += wfa
            st['side_conditions_hold'] += sc
            st['undecodable_names'] += len(nm.undecodable)
            for j in range(4):
                st['inst'][j] += inst[j]
            if status == 0:
                st['model_eq_real'] += 1
            else:
                st['model_differs' if status == 1 else 'model_fails'] += 1
                ck.disagree('C02inl.Inline.optimize_functions vs inlining::optimize_functions', where,
                            'optimize_functions mangle_c false before (recovered supply)' + (' fails' if status == 2 else ''),
                            {'undecodable': nm.undecodable[:5], 'after': stage['after'][:2]},
                            how='coqc work/c02inl_<pid>_%d.v (b%d_%d)' % (k, jid, si))
            if status == 0 and not sc:
                ck.disagree('C02inl side conditions (site_ok at every inlined site, distinct function names) on a real program', where,
                            'optimize_functions mangle_c true = optimize_functions mangle_c false', 'the checked run fails',
                            how='coqc work/c02inl_<pid>_%d.v (b%d_%d)' % (k, jid, si))
            if inst[2] and sc:
                st['inst_diff_on_wf'] += 1
                ck.property_failure('the inlining pass changes behaviour on a program that satisfies the side conditions of the theorem '
                                    '(Gallina semantics)', where, observed={'instances': inst})
    st['stmt_kinds'] = kinds
    ck.extra_cov['inl'] = st
    for k, v in st.items():
        if isinstance(v, int):
            ck.count('inl:' + k, v)
    ck.obligation('C02inl inlining tie ran', st['stages'] > 0 and st['sites_inlined'] > 0, '%d stages' % st['stages'])
    print('C02inl inlining: programs=%d jobs=%d rejected=%d stages=%d changed=%d | model=real %d differs %d fails %d | side conditions hold %d '
          'wf before/after %d/%d | sites inlined %d rounds %d functions %d | instances[oof,same,diff,done]=%s | mirsem same/diff/skipped %d/%d/%d '
          '| real panics %d undecodable names %d'
          % (st['programs'], st['jobs'], st['rejected'], st['stages'], st['stages_changed'], st['model_eq_real'], st['model_differs'],
             st['model_fails'], st['side_conditions_hold'], st['wf_before'], st['wf_after'], st['sites_inlined'], st['rounds'], st['functions'],
             st['inst'], st['mirsem_same'], st['mirsem_diff'], st['mirsem_skipped'], st['real_panics'], st['undecodable_names']))
    print('C02inl inlining: statement forms: %s' % json.dumps(kinds, sort_keys=True))
    ck.extra_cov['sroa'] = ss
    for k, v in ss.items():
        ck.count('sroa:' + k, v)
    ck.obligation('C02inl scalar-replacement tie ran', ss['functions'] > 0 and ss['changed'] > 0, '%d functions' % ss['functions'])
    print('C02inl scalar replacement: functions=%d changed=%d | model=real %d differs %d fails %d | wf before %d | structs replaced %d closures '
          'devirtualised %d loads substituted %d | changed functions the deletion theorem covers %d | seeded variant C02-4 differs on %d '
          '| real panics %d'
          % (ss['functions'], ss['changed'], ss['model_eq_real'], ss['model_differs'], ss['model_fails'], ss['wf_before'],
             ss['structs_replaced'], ss['closures_replaced'], ss['loads_substituted'], ss['changed_deletion_theorem_applies'],
             ss['seeded_variant_differs'], ss['real_panics']))
    synthetic(ck, tier, seed)
    return st


def run(tier='quick', seed=1, replay=None):
    vlib.OUT_ROOT = os.path.join(vlib.OUT_ROOT, 'work', 'c02inl') if not vlib.ALT else vlib.OUT_ROOT
    ck = Check('C02', tier, seed, level='proof (partial)')
    ck.checker_cmd = 'python3 -c "from checks import c02_inl; c02_inl.run()"'
    if not SCRATCH:
        check_props(ck, 'theories/C02inl/Props.v')
    inl(ck, tier, seed)
    return ck.finish()


if __name__ == '__main__':
    sys.path.insert(0, '/verif')
    tier = sys.argv[1] if len(sys.argv) > 1 else 'quick'
    seed = int(sys.argv[2]) if len(sys.argv) > 2 else 1
    sys.exit(run(tier, seed))
