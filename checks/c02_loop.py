"""C02 loop layer: the "loop" pass of the optimizer (loop_optimizations.rs = loop-invariant code motion, induction
analysis, closed form of counting loops, induction-variable elimination, strength reduction, re-expansion)
re-implemented in Gallina (coq/theories/C02loop), with theorems per sub-pass (Props.v), and tied to the real pass
by comparing its OUTPUT: `vh mir-dump` prints every function before / after the real pass together with the
temporaries the run allocated; `Driver.loop_pass` is run on `before` with that supply inside coqc (vm_compute)
and must produce exactly the real `after`.  Inputs: generated programs (gen/progs.py, loop_focus) at both
positions the pass has in a round sequence, synthetic MIR loops through the replay mode of `vh mir-dump`, and the
witnesses of the findings.  Sanity runs of the Gallina semantics before / after on argument vectors biased to the
bounds (testing).

`loops(ck, tier, seed)` is called from checks/c02.py; `run()` is a standalone wrapper that writes its evidence and
replay files under /verif/work/c02loop-out (never /verif/evidence).
"""
import concurrent.futures
import json
import os
import re
import sys

if '/verif' not in sys.path:
    sys.path.insert(0, '/verif')

from gen.progs import gen_program
from gen.rng import Rng
from lib.vlib import Check, NCPU, check_props, coq_eval_many, coq_result, vh
from checks.c02_deep import g_func, g_names, size

PROFILE = 'release'        # the model's compile-time arithmetic is the arithmetic of a build without overflow checks
# one round is ccp, sroa, loop, cse, lvn, dce (lib.rs): the loop pass at its position in round 1 and in round 2
CHAIN = ['ccp', 'sroa', 'loop', 'cse', 'lvn', 'dce', 'ccp', 'sroa', 'loop']
LOOP_AT = [2, 8]
HEADER = ('From Coq Require Import ZArith NArith List Bool. Import ListNotations.\n'
          'From SV Require Import Common.Int32 C02deep.Syntax C02deep.Sem C02loop.Corr.\n'
          'Open Scope Z_scope.\n')
COLS = ['status', 'wf', 'licm', 'extract', 'alg', 'ive', 'sr', 'old_K_licm_divmod', 'old_K_guard_used', 'K_iv', 'K_iv_known', 'K_iv_exact',
        'K_base_dropped', 'K_nested_break', 'K_sr_defs', 'runs_same', 'runs_differ', 'trap_prefix_ok', 'trap_prefix_lost',
        'thm_instance']
MIN32, MAX32 = -2 ** 31, 2 ** 31 - 1


# ------------------------------------------------------------------ programs
def programs(tier, seed):
    rng = Rng(seed ^ 0x100B)
    n = 90 if tier == 'quick' else 700
    progs = []
    cdir = '/verif/corpus/C02'
    for fn in sorted(os.listdir(cdir)) if os.path.isdir(cdir) else []:
        if fn.endswith('.sam'):
            progs.append({'sources': {'Main': open(os.path.join(cdir, fn)).read()}, 'entry': 'Main'})
    for i in range(n):
        r = rng.fork()
        progs.append(gen_program(r, {'big': i % 7 == 0, 'nfun': 6, 'depth': 2 + i % 2, 'loops': True, 'closures': False,
                                     'vec': False, 'strings': False, 'interfaces': False, 'loop_focus': True,
                                     'avoid_known_iv': False}))
    return progs


def dump(progs):
    jobs = [{'id': i, 'sources': p['sources'], 'entry': p['entry'], 'passes': CHAIN, 'fragment': 2} for i, p in enumerate(progs)]
    chunks = [jobs[i::NCPU] for i in range(NCPU)]

    def run_chunk(c):
        if not c:
            return []
        rc, out = vh(['mir-dump'], profile=PROFILE, input='\n'.join(json.dumps(j) for j in c) + '\n', timeout=1200)
        return [json.loads(l) for l in out.splitlines() if l.startswith('{')]
    res = {}
    with concurrent.futures.ThreadPoolExecutor(max_workers=NCPU) as ex:
        for part in ex.map(run_chunk, chunks):
            for r in part:
                res[r.get('id')] = r
    return res


def real_loop_pass(funcs, profile=PROFILE):
    jobs = [{'id': i, 'mir': f, 'pass': 'loop'} for i, f in enumerate(funcs)]
    chunks = [jobs[i::NCPU] for i in range(NCPU)]

    def run_chunk(c):
        if not c:
            return []
        rc, out = vh(['mir-dump'], profile=profile, input='\n'.join(json.dumps(j) for j in c) + '\n', timeout=1200)
        return [json.loads(l) for l in out.splitlines() if l.startswith('{')]
    res = [None] * len(funcs)
    with concurrent.futures.ThreadPoolExecutor(max_workers=NCPU) as ex:
        for part in ex.map(run_chunk, chunks):
            for r in part:
                res[r['id']] = r
    return res


# ------------------------------------------------------------------ synthetic MIR loops
class LoopGen:
    """Well-formed (single-assignment, well-scoped) functions around ONE loop of the shape the induction analysis
    looks for, with every ingredient varied: guard operator and polarity, stride sign and kind (literal / outer
    variable), literal / outer-variable bounds and initial values, further basic induction variables, derived
    induction variables built by + and * chains (also products of two induction-affine values, which are NOT
    derived), loop variables fed by derived variables, invariant computations, calls, nested if / single-if, an
    inner loop, uses of the induction variables in calls.  `hostile` adds the shapes of the excluded classes."""

    def __init__(self, rng, hostile=False):
        self.r = rng
        self.n = 0
        self.hostile = hostile

    def fresh(self):
        self.n += 1
        return self.n

    def lit(self, pool=None):
        return ['i', self.r.pick(pool or [0, 1, 2, 3, 5, 7, 10, -1, -2, -3, 100])]

    def function(self):
        r = self.r
        params = [self.fresh() for _ in range(r.range(1, 4))]
        pre = []
        outer = list(params)
        for _ in range(r.below(3)):
            x = self.fresh()
            pre.append(['bin', x, r.pick(['PLUS', 'MUL', 'MINUS']), ['v', r.pick(outer)], self.lit()])
            outer.append(x)

        def inv_operand(lits=None):
            return ['v', r.pick(outer)] if r.chance(1, 3) else self.lit(lits)

        # loop variables: the guard's basic induction variable, further basic ones, others
        i = self.fresh()
        gop = r.pick(['LT', 'LE', 'GT', 'GE'])
        up = r.chance(1, 2)
        stride = inv_operand([1, 1, 2, 3, 5] if up else [-1, -1, -2, -3])
        if r.chance(1, 12):
            stride = ['i', 0]
        bound = inv_operand([0, 5, 10, 20, 33, -7, 100])
        init = inv_operand([0, 1, 3, 10, -4, 12, 30]) if not r.chance(1, 4) else ['v', r.pick(params)]
        lvs = [[i, init, None]]
        basics = [i]
        for _ in range(r.pick([0, 0, 1, 1, 2])):
            j = self.fresh()
            lvs.append([j, inv_operand(), None])
            basics.append(j)
        others = []
        for _ in range(r.pick([0, 1, 1, 2])):
            k = self.fresh()
            others.append(k)
            lvs.append([k, inv_operand(), None])
        lvs = r.shuffle(lvs)
        cc = self.fresh()
        invert = r.chance(1, 2)
        scope = outer + [v[0] for v in lvs]
        brk_val = ['v', r.pick(scope)] if r.chance(3, 4) else self.lit()
        body = [['bin', cc, gop, ['v', i], bound]]
        guard_stmt = ['sif', ['v', cc], invert, [['brk', brk_val]]]
        if self.hostile and r.chance(1, 6):
            c2 = self.fresh()
            pre.append(['bin', c2, 'LT', ['v', r.pick(outer)], self.lit()])
            guard_stmt = ['sif', ['v', cc], invert, [['sif', ['v', c2], False, [['brk', brk_val]]]]]
        body.append(guard_stmt)
        ints = list(scope)
        affine = list(basics)          # names whose value is affine in a basic induction variable
        rest = []
        for _ in range(r.range(1, 7)):
            k = r.below(100)
            x = self.fresh()
            if k < 35:
                a = ['v', r.pick(affine)]
                if r.chance(1, 4):
                    b = ['v', r.pick(affine)]
                    op = r.pick(['PLUS', 'PLUS', 'MUL'])
                else:
                    b = inv_operand([1, 2, 3, -2, 4, 0, 7, -1])
                    op = r.pick(['PLUS', 'MUL', 'MUL', 'MINUS'])
                if r.chance(1, 2):
                    a, b = b, a
                rest.append(['bin', x, op, a, b])
                if op != 'MINUS' or a[0] == 'v':
                    affine.append(x)
                ints.append(x)
            elif k < 50:
                rest.append(['bin', x, r.pick(['PLUS', 'MUL', 'MINUS', 'DIV', 'MOD', 'LT', 'XOR']), inv_operand(), inv_operand([1, 2, 3, 0, -1, 7])])
                ints.append(x)
            elif k < 62:
                rest.append(['bin', x, r.pick(['PLUS', 'MUL', 'MINUS', 'LT', 'EQ', 'DIV']), ['v', r.pick(ints)], ['v', r.pick(ints)] if r.chance(1, 2) else self.lit()])
                ints.append(x)
            elif k < 74:
                ret = x if r.chance(2, 3) else None
                rest.append(['call', r.below(3), [['v', r.pick(ints)] for _ in range(r.range(1, 2))], ret])
                if ret is not None:
                    ints.append(ret)
            elif k < 82:
                c = self.fresh()
                rest.append(['bin', c, r.pick(['LT', 'EQ', 'GE']), ['v', r.pick(ints)], self.lit()])
                y, z = self.fresh(), self.fresh()
                rest.append(['if', ['v', c], [['bin', y, 'PLUS', ['v', r.pick(ints)], self.lit()]],
                             [['call', r.below(3), [['v', r.pick(ints)]], z]], [[x, ['v', y], ['v', z]]]])
                ints += [c, x]
            elif k < 88:
                c = self.fresh()
                rest.append(['bin', c, r.pick(['LT', 'NE']), ['v', r.pick(ints)], self.lit()])
                rest.append(['sif', ['v', c], r.chance(1, 2), [['call', r.below(3), [['v', r.pick(ints)]], None]]])
                ints.append(c)
            elif k < 93:
                # an inner loop (not optimised by this pass: the body of a loop is not searched)
                q, qc, qs, qb = self.fresh(), self.fresh(), self.fresh(), x
                rest.append(['while', [[q, ['v', r.pick(ints)], ['v', qs]]],
                             [['bin', qc, 'GE', ['v', q], ['i', 3]], ['sif', ['v', qc], False, [['brk', ['v', q]]]],
                              ['bin', qs, 'PLUS', ['v', q], ['i', 1]]], qb])
                ints.append(qb)
            elif k < 96:
                # struct allocation (hoisted when all fields are invariant) and a field load from it
                fields = [inv_operand() if r.chance(1, 2) else ['v', r.pick(ints)] for _ in range(r.range(1, 3))]
                rest.append(['struct', x, r.below(3), fields])
                y = self.fresh()
                rest.append(['prim', y, 'idx', 0, r.below(len(fields)), ['v', x]])
                ints.append(y)
            else:
                rest.append(['not', x, ['v', cc]]) if self.hostile else rest.append(['prim', x, 'idx', r.below(2), r.below(2), ['v', r.pick(ints)]])
                ints.append(x)
        if self.hostile and r.chance(1, 4):
            x = self.fresh()
            rest.append(['bin', x, 'PLUS', ['v', cc], ['v', r.pick(ints)]])
            ints.append(x)
        # collectors of the basic induction variables, loop values of the others
        for lv in lvs:
            if lv[0] in basics:
                c = self.fresh()
                amount = stride if lv[0] == i else inv_operand([1, 2, -1, 3, 4])
                st = ['bin', c, 'PLUS', ['v', lv[0]], amount]
                if r.chance(1, 10):
                    st = ['bin', c, r.pick(['MUL', 'MINUS']), ['v', lv[0]], amount]      # not an induction variable
                rest.insert(r.below(len(rest) + 1) if r.chance(1, 3) else len(rest), st)
                lv[2] = ['v', c]
                ints.append(c)
        body += rest
        defined_top = [s[1] for s in rest if s[0] in ('bin', 'not', 'prim', 'struct')] + [s[3] for s in rest if s[0] == 'call' and s[3] is not None] \
            + [s[4][0][0] for s in rest if s[0] == 'if'] + [s[3] for s in rest if s[0] == 'while' and s[3] is not None]
        for lv in lvs:
            if lv[2] is None:
                pool = [d for d in defined_top] + scope
                lv[2] = ['v', r.pick(pool)] if not r.chance(1, 8) else self.lit()
        bc = self.fresh() if r.chance(4, 5) else None
        loop = ['while', lvs, body, bc]
        post = []
        ret = ['v', bc] if bc is not None else ['v', r.pick(outer)]
        wrap = r.below(10)
        if wrap == 0:
            c = self.fresh()
            f1 = self.fresh()
            stmts = pre + [['bin', c, 'LT', ['v', params[0]], ['i', 5]],
                           ['if', ['v', c], [loop], [], [[f1, ret if bc is not None else ['i', 0], ['i', 7]]]]]
            return {'params': params, 'body': stmts, 'ret': ['v', f1]}
        return {'params': params, 'body': pre + [loop] + post, 'ret': ret}


def counting_loop(r):
    """A counting loop with literal initial value, stride and bound (what loop_algebraic_optimization turns into a
    closed form), every guard kind and polarity, strides of either sign and 0, bounds around the initial value and
    near the ends of the range, optional further induction variables with literal / parameter strides, every kind
    of break value."""
    n = [0]

    def fresh():
        n[0] += 1
        return n[0]
    params = [fresh() for _ in range(r.range(0, 2))]
    i, cc, coll = fresh(), fresh(), fresh()
    big = r.chance(1, 6)
    i0 = r.pick([MAX32 - 5, MIN32 + 3, MAX32, MIN32]) if big else r.range(-12, 12)
    stride = r.pick([1, 1, 2, 3, 7, -1, -2, -5, 0, 1 << 30, -(1 << 30)]) if not big else r.pick([1, -1, 2, -3, 1 << 30])
    bound = (i0 + r.pick([-20, -3, -1, 0, 1, 2, 9, 10, 33]) if not big else r.pick([MAX32, MIN32, MAX32 - 1, MIN32 + 1, 0]))
    bound = max(MIN32, min(MAX32, bound))
    lvs = [[i, ['i', i0], ['v', coll]]]
    tail = [['bin', coll, 'PLUS', ['v', i], ['i', stride]]]
    gens = []
    for _ in range(r.pick([0, 1, 1, 2])):
        j, jc = fresh(), fresh()
        init = ['v', r.pick(params)] if params and r.chance(1, 3) else ['i', r.range(-5, 50)]
        inc = ['v', r.pick(params)] if params and r.chance(1, 4) else ['i', r.pick([1, 2, -3, 7, 0, 1 << 29])]
        lvs.append([j, init, ['v', jc]])
        tail.append(['bin', jc, 'PLUS', ['v', j], inc])
        gens.append(j)
    lvs = r.shuffle(lvs)
    tail = r.shuffle(tail)
    bv = r.pick([['v', i], ['v', i]] + [['v', g] for g in gens] + [['v', p] for p in params] + [['i', r.range(-3, 9)]])
    body = [['bin', cc, r.pick(['LT', 'LE', 'GT', 'GE']), ['v', i], ['i', bound]],
            ['sif', ['v', cc], r.chance(1, 2), [['brk', bv]]]] + tail
    bc = fresh() if r.chance(5, 6) else None
    ret = ['v', bc] if bc is not None else ['i', 0]
    return {'params': params, 'body': [['while', lvs, body, bc]], 'ret': ret}


def synthetic(tier, seed):
    rng = Rng(seed ^ 0x5100B)
    n = 500 if tier == 'quick' else 5000
    fs = [LoopGen(rng.fork()).function() for _ in range(n)]
    rng2 = Rng(seed ^ 0x40571E)
    fs += [LoopGen(rng2.fork(), hostile=True).function() for _ in range(n // 5)]
    rng3 = Rng(seed ^ 0xC0047)
    return fs + [counting_loop(rng3.fork()) for _ in range(n // 2)]


# the MIR-level witnesses of the refuted theorems (Props.v), replayed on the real pass
W_LICM_DIV = {'params': [1, 2], 'body': [
    ['while', [[3, ['v', 1], ['v', 6]]],
     [['bin', 4, 'GE', ['v', 3], ['i', 3]], ['sif', ['v', 4], False, [['brk', ['v', 3]]]],
      ['bin', 5, 'DIV', ['i', 10], ['v', 2]], ['call', 0, [['v', 5]], None],
      ['bin', 6, 'PLUS', ['v', 3], ['i', 1]]], 7]], 'ret': ['v', 7]}
W_GUARD_USED = {'params': [1], 'body': [
    ['while', [[2, ['v', 1], ['v', 5]]],
     [['bin', 3, 'LT', ['v', 2], ['i', 3]], ['sif', ['v', 3], True, [['brk', ['v', 2]]]],
      ['call', 0, [['v', 3]], None],
      ['bin', 5, 'PLUS', ['v', 2], ['i', 1]]], 6]], 'ret': ['v', 6]}


def fmt_case(sup, before, after):
    return '(%s, %s, %s)' % (g_names(sup), g_func(before), g_func(after))


# ------------------------------------------------------------------ the check
def loops(ck, tier, seed):
    check_props(ck, 'theories/C02loop/Props.v', extra_deps=['theories/C02', 'theories/C02deep'])
    progs = programs(tier, seed)
    res = dump(progs)
    cases = []          # (supply, before, after, where)
    nfun = infrag = 0
    for i, p in enumerate(progs):
        r = res.get(i)
        if r is None or 'functions' not in r:
            ck.count('loop:program:' + ('rejected' if r and r.get('rejected') else 'no-dump'))
            continue
        for f in r['functions']:
            nfun += 1
            if 'skip' in f:
                ck.count('loop:outside-fragment:' + f['skip'])
                continue
            infrag += 1
            for pn in f['panics']:
                if pn['pass'] == 'loop':
                    ck.property_failure('the loop pass panicked on %s: %s' % (f['name'], pn['msg'][:200]),
                                        {'sources': p['sources'], 'entry': p['entry'], 'function': f['name'], 'pass': 'loop'},
                                        expected='the pass returns', observed=pn['msg'][:300])
            vs = f['versions']
            for k in LOOP_AT:
                if vs[k] is None or vs[k + 1] is None:
                    continue
                if '"while"' not in json.dumps(vs[k]):
                    ck.count('loop:function-without-loop')
                    continue
                cases.append((f['fresh'][k] or [], vs[k], vs[k + 1], {'program': i, 'function': f['name'], 'round': 1 + LOOP_AT.index(k),
                                                                       'sources': p['sources']}))
    syn = synthetic(tier, seed) + [W_LICM_DIV, W_GUARD_USED]
    real = real_loop_pass(syn)
    for k, (f0, r) in enumerate(zip(syn, real)):
        if r is None:
            ck.count('loop:synthetic:no-result')
            continue
        if 'panic' in r:
            ck.count('loop:synthetic:real-pass-panics')
            cases.append((None, f0, None, {'synthetic': k, 'panic': r['panic'][:200]}))
            continue
        if 'after' not in r:
            ck.count('loop:synthetic:outside-fragment')
            continue
        cases.append((r.get('fresh', []), f0, r['after'], {'synthetic': k}))
    ck.extra_cov['loop_functions'] = nfun
    ck.extra_cov['loop_functions_in_fragment'] = infrag
    ck.extra_cov['loop_fragment_coverage'] = round(infrag / nfun, 3) if nfun else 0
    ck.extra_cov['loop_synthetic_functions'] = len(syn)
    print('C02loop: %d of %d MIR functions in the fragment (%.1f%%); %d applications of the loop pass to compare'
          % (infrag, nfun, 100.0 * infrag / max(nfun, 1), len(cases)))
    order = sorted(range(len(cases)), key=lambda j: -size(cases[j][1]))
    nshard = max(1, min(4 * NCPU, len(cases) // 30 + 1))
    shards = [order[s::nshard] for s in range(nshard)]
    jobs = []
    for si, idxs in enumerate(shards):
        rows = []
        for j in idxs:
            sup, before, after, _ = cases[j]
            if after is None:       # the real pass panicked: the model must panic too (status 2)
                rows.append(fmt_case([], before, before))
            else:
                rows.append(fmt_case(sup, before, after))
        body = HEADER + 'Definition cs : list (list name * func * func) := [\n%s].\nEval vm_compute in (tie_cases cs).\n' % ';\n'.join(rows)
        jobs.append(('c02loop_%d' % si, body))
    outs = coq_eval_many(jobs, timeout=1500)
    tot = dict((c, 0) for c in COLS)
    nstat = {'same': 0, 'differ': 0, 'model-panics': 0, 'both-panic': 0}
    for si, (rc, o) in enumerate(outs):
        resl = coq_result(o) if rc == 0 else None
        if resl is None:
            ck.obligation('model-evaluation(C02loop shard %d)' % si, False, o[-600:])
            continue
        rows = [[int(x) for x in re.findall(r'(\d+)%N', g)] for g in re.findall(r'\[([^\[\]]*)\]', resl)]
        idxs = shards[si]
        if len(rows) != len(idxs):
            ck.obligation('model-evaluation(C02loop shard %d)' % si, False, 'row count %d vs %d' % (len(rows), len(idxs)))
            continue
        for j, row in zip(idxs, rows):
            sup, before, after, where = cases[j]
            d = dict(zip(COLS, row))
            kind = 'synthetic' if 'synthetic' in where else 'generated'
            ck.case(['loop', before], d['extract'] > 0 or d['licm'] > 0)
            if after is None:
                if d['status'] == 2:
                    nstat['both-panic'] += 1
                    ck.count('loop:%s:model-and-real-pass-panic(K_nested_break)' % kind)
                else:
                    ck.disagree('C02loop.Driver.loop_pass vs the real loop pass', {'mir': before}, 'the model returns', 'panic: ' + where['panic'],
                                how="echo '{\"id\":0,\"pass\":\"loop\",\"mir\":<mir>}' | vh mir-dump")
                continue
            for c in COLS[2:]:
                tot[c] += d[c]
                if d[c]:
                    ck.count('loop:%s:%s' % (kind, c), d[c])
            if d['wf'] == 0:
                ck.count('loop:%s:input-not-well-formed' % kind)
            if d['status'] == 0:
                nstat['same'] += 1
            else:
                nstat['differ' if d['status'] == 1 else 'model-panics'] += 1
                ck.disagree('C02loop.Driver.loop_pass vs the real loop pass (%s)' % ('outputs differ' if d['status'] == 1 else 'the model panics'),
                            {'mir': before, 'fresh': sup, 'where': {k: v for k, v in where.items() if k != 'sources'}},
                            'Driver.loop_pass (coqc vm_compute)', after,
                            how="echo '{\"id\":0,\"pass\":\"loop\",\"mir\":<mir>}' | vh mir-dump ; theories/C02loop/Driver.v")
                if 'sources' in where:
                    ck.sample({'disagreeing_program': where['sources']})
            in_class = d['K_iv_exact'] or d['K_base_dropped'] or d['K_nested_break']
            if d['runs_differ'] or d['trap_prefix_lost']:
                # the Gallina semantics sees different behaviour before / after the REAL pass
                if in_class:
                    ck.count('loop:%s:behaviour-differs-inside-an-excluded-class' % kind)
                else:
                    ck.disagree('C02loop: sem before / after the real loop pass differ OUTSIDE the excluded classes (theorem instance fails)',
                                {'mir': before, 'where': {k: v for k, v in where.items() if k != 'sources'}}, 'same behaviour', after,
                                how='theories/C02loop/Corr.v sem_cases_l')
    for k, v in nstat.items():
        ck.count('loop:tie:' + k, v)
    ck.extra_cov['loop_tie'] = nstat
    ck.extra_cov['loop_subpasses_fired'] = {c: tot[c] for c in ('licm', 'extract', 'alg', 'ive', 'sr')}
    ck.extra_cov['loop_classes_met'] = {c: tot[c] for c in COLS[7:15]}
    ck.extra_cov['loop_sanity_runs'] = {c: tot[c] for c in COLS[15:19]}
    # pairs (before, after) of the REAL pass that are literally instances of the function-level theorem
    # C02loop_pass_preserves (decidable domain evaluated in coqc, Cover.in_theorem_domain)
    ck.extra_cov['loop_function_theorem_instances'] = {'instances': tot['thm_instance'], 'of': nstat['same']}
    ck.obligation('C02loop tie ran', nstat['same'] > 0, json.dumps(nstat))
    print('C02loop tie: %s; sub-passes fired %s; classes met %s; sanity runs %s; function-level theorem instances %s'
          % (nstat, ck.extra_cov['loop_subpasses_fired'], ck.extra_cov['loop_classes_met'], ck.extra_cov['loop_sanity_runs'],
             ck.extra_cov['loop_function_theorem_instances']))


def run(tier='quick', seed=1, replay=None):
    import lib.vlib as vlib
    if not vlib.ALT:
        vlib.OUT_ROOT = '/verif/work/c02loop-out'       # standalone runs never write /verif/evidence or /verif/replay
    ck = Check('C02', tier, seed, level='proof')
    ck.pid = 'C02loop'
    ck.checker_cmd = 'make -C /verif/coq theories/C02loop/Props.vo (coqc 8.16.1) + Print Assumptions per theorem'
    loops(ck, tier, seed)
    return ck.finish()


if __name__ == '__main__':
    sys.exit(run(sys.argv[1] if len(sys.argv) > 1 else 'quick', int(sys.argv[2]) if len(sys.argv) > 2 else 1))
