"""C02 layer C: translation validation by execution.  MIR before/after optimization (all 32 on/off
configurations in the thorough tier, a covering subset in the quick tier, each pass in isolation)
is run in the harness MIR interpreter (vh mir-run) and the printed lines / endings are compared."""
import itertools
import json
import os

from gen.progs import gen_program
from gen.rng import Rng
from lib.vlib import vh

ALL = [list(c) for c in itertools.product([False, True], repeat=5)]
QUICK = [[True] * 5, [False] * 5, [False, False, True, False, False], [True, True, False, False, False],
         [False, False, False, True, True], [True, False, True, True, False]]
PASSES = [{'pass': p} for p in ['ccp', 'sroa', 'loop', 'cse', 'lvn', 'dce', 'inlining', 'unused']]
EXCLUDED_ENDINGS = ('out-of-fuel', 'stack-overflow')


def known_iv(iv_log):
    """Known_C02_iv_guard: an induction-variable elimination rewrote `i op g` into `m*i+c < m*g+c` where that is not an
    equivalence: the guard is not `<`, the multiplier is not a positive constant, or one of the new bound m*g+c, the new
    initial value m*i0+c and the new value m*i_exit+c at the value with which the loop is left (i_exit = i0 + inc*K,
    K the trip count) is not known to be representable (constants that fit 32 bits): the code computes all of them in
    wrapping arithmetic without a check."""
    def in32(x):
        return -2 ** 31 <= x <= 2 ** 31 - 1
    for e in iv_log:
        op, m = e[0], e[1]
        c, g, i0, inc = (e + [None, None, None, None])[2:6] if isinstance(e, list) else (None, None, None, None)
        if op != 0 or m is None or m <= 0:
            return True
        if c is None or g is None or i0 is None or not in32(m * g + c) or not in32(m * i0 + c):
            return True
        if inc is None or inc <= 0:
            return True
        trips = 0 if i0 >= g else (g - i0 + inc - 1) // inc
        if not in32(m * (i0 + inc * trips) + c):
            return True
    return False


def excluded(unopt):
    k = unopt['ending']['kind']
    if unopt.get('overflowed'):
        return 'overflow'
    if k == 'trap' and unopt['ending'].get('detail', '').startswith('div'):
        return 'div-trap'
    if k in EXCLUDED_ENDINGS:
        return k
    return None


def differs(a, b):
    if a['lines'] != b['lines']:
        n = min(len(a['lines']), len(b['lines']))
        k = next((i for i in range(n) if a['lines'][i] != b['lines'][i]), n)
        return 'line %d: %r vs %r' % (k, a['lines'][k] if k < len(a['lines']) else '<end>', b['lines'][k] if k < len(b['lines']) else '<end>')
    if a['ending'] != b['ending']:
        return 'ending %s vs %s' % (a['ending'], b['ending'])
    return None


def monitor(ck, tier, seed, replay=None):
    progs = []
    cdir = '/verif/corpus/C02'
    for fn in sorted(os.listdir(cdir)) if os.path.isdir(cdir) else []:
        if fn.endswith('.sam'):
            progs.append({'sources': {'Main': open(os.path.join(cdir, fn)).read()}, 'entry': 'Main', 'features': ['corpus:' + fn]})
    if replay:
        rp = json.load(open(replay))
        if 'sources' in (rp.get('input') or {}):
            progs = [{'sources': rp['input']['sources'], 'entry': rp['input'].get('entry', 'Main'), 'features': ['replay']}]
    else:
        rng = Rng(seed ^ 0x7A55)
        n = 200 if tier == 'quick' else 2000
        for i in range(n):
            r = rng.fork()
            loopy = i % 2 == 0
            progs.append(gen_program(r, {'big': i % 5 == 0, 'nfun': 5, 'depth': 2 + i % 2, 'loops': True,
                                         'closures': not loopy, 'vec': not loopy, 'interfaces': not loopy,
                                         'avoid_known_iv': i % 4 != 1, 'loop_focus': loopy}))
    configs = (ALL if tier == 'thorough' else QUICK) + PASSES
    jobs = [{'id': i, 'sources': p['sources'], 'entry': p['entry'], 'fuel': 3000000, 'configs': configs} for i, p in enumerate(progs)]
    chunks = [jobs[i::16] for i in range(16)]
    import concurrent.futures
    results = {}

    def run_chunk(c):
        if not c:
            return []
        rc, out = vh(['mir-run'], input='\n'.join(json.dumps(j) for j in c) + '\n', timeout=2400)
        return [json.loads(l) for l in out.splitlines() if l.startswith('{')]
    with concurrent.futures.ThreadPoolExecutor(max_workers=16) as ex:
        for part in ex.map(run_chunk, chunks):
            for r in part:
                results[r['id']] = r
    known_seen = 0
    for i, p in enumerate(progs):
        r = results.get(i)
        inp = {'sources': p['sources'], 'entry': p['entry']}
        if r is None or 'harness_panic' in r:
            ck.notes.append('mir-run gave no result for a program: %s' % (r or {}).get('harness_panic', 'missing')[:200]) if len(ck.notes) < 5 else None
            continue
        if r.get('rejected'):
            ck.count('mir:rejected-by-front-end')
            continue
        if 'lowering_panic' in r:
            ck.property_failure('lowering to MIR panicked: ' + r['lowering_panic'][:200], inp)
            continue
        unopt = r['unopt']
        why = excluded(unopt)
        ck.count('mir:unopt:' + unopt['ending']['kind'] + ('(excluded:%s)' % why if why else ''))
        ck.case(['mir', p['sources']], why is None)
        if unopt['ending']['kind'] == 'fault':
            ck.property_failure('unoptimized MIR is ill-formed when executed: ' + unopt['ending'].get('detail', '')[:200], inp)
            continue
        for o in r['opt']:
            cfg = o['config']
            cname = cfg['pass'] if isinstance(cfg, dict) else ''.join('1' if b else '0' for b in cfg)
            if 'optimizer_panic' in o:
                ck.property_failure('optimizer panicked (config %s): %s' % (cname, o['optimizer_panic'][:200]), dict(inp, config=cfg))
                continue
            if 'outcome' not in o:
                continue
            out = o['outcome']
            ck.count('mir:configs_run')
            if why == 'div-trap' and not unopt.get('overflowed'):
                # the trap itself is implementation-defined (an optimisation may remove it), but what was printed before it
                # must still be printed first: the unoptimised lines are a prefix of the optimised ones
                if out['lines'][:len(unopt['lines'])] != unopt['lines']:
                    ck.property_failure('optimized MIR (config %s) loses or changes output printed before a division trap' % cname,
                                        dict(inp, config=cfg), expected={'lines': unopt['lines'][:40], 'ending': unopt['ending']},
                                        observed={'lines': out['lines'][:40], 'ending': out['ending']}, how='./check C02 --replay <this file>')
                continue
            if why:
                continue
            if out['ending']['kind'] in EXCLUDED_ENDINGS and unopt['ending']['kind'] not in EXCLUDED_ENDINGS and out['ending']['kind'] == 'stack-overflow':
                continue
            d = differs(unopt, out)
            if d is None:
                continue
            klass = None
            if known_iv(out.get('iv_log', [])):
                # attributable to the known call site only if switching the eliminations off removes it
                klass = 'C02-iv-elimination-guard'
                known_seen += 1
            ck.property_failure('optimized MIR (config %s [lvn,cse,loop,inlining,sroa]) behaves differently: %s' % (cname, d),
                                dict(inp, config=cfg), expected={'lines': unopt['lines'][:40], 'ending': unopt['ending']},
                                observed={'lines': out['lines'][:40], 'ending': out['ending'], 'iv_log': out.get('iv_log')},
                                how='./check C02 --replay <this file>', klass=klass)
    ck.extra_cov['mir_programs'] = len(progs)
    ck.extra_cov['mir_configs_per_program'] = len(configs)
