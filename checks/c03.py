"""C03 — programs accepted by the checker never go wrong (DESIGN.md section 4, C03)."""
import json
import os

from checks.c01 import load_corpus
from gen import mutate
from gen.progs import gen_infer_program, gen_layout_program, gen_order_program, gen_program, infer_violation_programs
from gen.rng import Rng
from lib.e2e import run_pipeline
from lib.front import run_jobs
from lib.vlib import Check, check_props, vh

PID = 'C03'


def validate_wasm(ck, recs, progs):
    files = [os.path.join(r['dir'], '__all__.wasm') for r in recs if r['compile'] == 'ok']
    idx = [i for i, r in enumerate(recs) if r['compile'] == 'ok']
    if not files:
        return
    rc, out = vh(['wasm-validate'] + files, timeout=900)
    res = [json.loads(l) for l in out.splitlines() if l.startswith('{')]
    for i, v in zip(idx, res):
        ck.count('wasmparser:' + ('valid' if v['valid'] else 'invalid'))
        if not v['valid']:
            ck.property_failure('emitted WebAssembly module is rejected by wasmparser: ' + v.get('error', '')[:200],
                                {'sources': progs[i]['sources'], 'entry': progs[i]['entry']})


def judge(ck, prog, rec, label=''):
    inp = {'sources': prog['sources'], 'entry': prog['entry']}
    comp = str(rec['compile'])
    if rec.get('front_panic'):
        ck.property_failure('the front end panicked: ' + str(rec['front_panic'])[:200], inp)
        return
    if rec['errors']:
        ck.count('rejected-by-checker')
        return
    if comp.startswith('panic'):
        ck.property_failure('compilation of an accepted program crashed: ' + comp[:300], inp, how='./check C03 --replay <this file>')
        return
    if comp != 'ok':
        ck.property_failure('checker reported no error but compile_sources returned an error', inp)
        return
    ck.count('compiled')
    src, wasm, ts = rec['src'], rec['wasm'], rec['ts']
    if src and src['ending']['kind'] == 'interpreter-error' and 'fallthrough' in src['ending'].get('detail', ''):
        ck.property_failure('a pattern match that no arm handles was accepted: ' + src['ending']['detail'][:200], inp)
    if ts is not None and ts['ending']['kind'] == 'invalid-ts':
        ck.property_failure('emitted TypeScript is not syntactically valid: ' + ts['ending']['detail'][:200], inp)
    if ts is not None and ts['ending']['kind'] == 'engine-fault':
        ck.property_failure('emitted TypeScript ends in a JavaScript type fault: ' + ts['ending']['detail'][:200], inp)
    if wasm is not None:
        k = wasm['ending']['kind']
        ck.count('wasm:' + k)
        if k in ('invalid-module', 'not-instantiable', 'no-main'):
            ck.property_failure('emitted WebAssembly is not valid/instantiable: %s' % wasm['ending']['detail'][:200], inp)
        elif k == 'engine-fault':
            ck.property_failure('execution ends in an engine-level fault: %s' % wasm['ending']['detail'][:200], inp,
                                observed=wasm['ending'])
        elif k == 'unreachable':
            if not (src and src['ending']['kind'] in ('vec-bounds', 'excluded', 'out-of-fuel', 'stack-overflow')):
                ck.property_failure('execution reaches `unreachable` although the source semantics has no Vec bounds panic here '
                                    '(source ending: %s)' % (src and src['ending']), inp, observed=wasm['ending'])


def run(tier, seed, replay=None):
    ck = Check(PID, tier, seed, level='proof')
    ck.checker_cmd = 'make -C /verif/coq theories/TypeKernel/Props.vo (coqc 8.16.1) + Print Assumptions per theorem'
    ck.trusted = [
        'Coq 8.16.1 kernel; no axioms',
        'theorems: type-system kernel (theories/TypeKernel: assignability is structural identity on Any-free types, meet/subst/solve '
        'soundness), C07 (an accepted match is exhaustive) and C01 (no cast inserted after a successful discrimination can fail, given '
        'well-formed layouts) - each tied to the code by its own correspondence; type soundness of the whole language is NOT proved',
        'monitors (testing): compile under catch_unwind in debug and release builds, wasmparser validation, headless Chrome run '
        '(engine fault classes), node parse of the type-erased TypeScript, reference interpreter for match fallthrough',
    ]
    # the kernel theorems C03 rests on (each has its own correspondence in its own check)
    check_props(ck, 'theories/C07/Props.v')
    check_props(ck, 'theories/C01/Props.v')
    try:
        if not os.path.exists('/verif/coq/theories/TypeKernel/Props.v'):
            raise ImportError
        from lib import typekernel
        typekernel.props(ck)
        typekernel.kernel_correspondence(ck, tier, seed, PID)
    except ImportError:
        ck.notes.append('type-kernel theory not built yet')
    if replay:
        rp = json.load(open(replay))
        progs = [{'sources': rp['input']['sources'], 'entry': rp['input']['entry'], 'features': ['replay']}]
        mut = []
    else:
        rng = Rng(seed ^ 0xC03)
        progs = load_corpus(PID)
        n = 100 if tier == 'quick' else 1500
        for i in range(n):
            r = rng.fork()
            progs.append(gen_infer_program(r) if i % 10 == 6 else gen_order_program(r) if i % 10 == 8 else gen_layout_program(r) if i % 3 == 1
                         else gen_program(r, {'big': i % 4 == 0, 'nfun': 4 + i % 3, 'depth': 2 + i % 3}))
        samples = mutate.load_samples()
        mut = []
        for i in range(24 if tier == 'quick' else 400):
            name, srcs = mutate.gen_mutant(rng.fork(), samples)
            if name:
                mut.append({'sources': srcs, 'entry': 'tests.AllTests', 'features': ['mutant:' + name], 'mutated': name})
    if not replay:
        # the passes that delete or merge definitions (MIR / LIR unused-name elimination, type deduplication): Gallina mirrors,
        # closure / exactness / semantics theorems, output equality with the real passes, and a verified validator
        # (`lir_no_dangling`, proved to decide "no dangling reference") on the FINAL LIR of every generated program
        from checks import c03_names
        check_props(ck, 'theories/C03names/Props.v')
        c03_names.names(ck, tier, seed)
    ck.rule = ('accepted generated programs (gen/progs.py incl. layout-focused programs) run end to end; token-level mutants of tests/*.sam '
               'that the checker still accepts are compiled (whole test program set) in debug and release builds and validated; '
               'distinct = distinct program text; non-trivial = accepted by the checker')
    if not replay:
        # single-fault (ill-typed) variants of generated programs: whatever the checker ACCEPTS among them is an accepted
        # program like any other and goes through the whole pipeline (a checker that has become too permissive shows up
        # here as an accepted program that goes wrong; on a sound checker none is accepted and this costs one front-end run each)
        from gen import faults
        fr = Rng(seed ^ 0xC03F)
        bases = [faults.fault_base(fr.fork(), i) for i in range(40 if tier == 'quick' else 400)]
        fjobs, fprogs = [], []
        for bp in bases:
            allm = [m for m in faults.all_faults(bp['sources']['Main'], 'generated')
                    if faults.family(m['kind']) in ('operand-type', 'arg-type', 'match-arm', 'arity', 'typearg-arity', 'bound', 'interface', 'branch-type')]
            chain = [m for m in allm if faults.family(m['kind']) == 'branch-type']
            for m in (fr.shuffle(chain)[:4] + fr.shuffle(allm)[:6]):
                src = dict(bp['sources'])
                src['Main'] = m['text']
                fprogs.append({'sources': src, 'entry': 'Main', 'features': ['accepted-fault:' + m['kind']]})
                fjobs.append({'id': len(fjobs), 'sources': src, 'entries': ['Main'], 'compile': False})
        for rep in range(2 if tier == 'quick' else 10):
            for kind, x in infer_violation_programs(fr.fork()):
                fprogs.append({'sources': x['sources'], 'entry': 'Main', 'features': ['accepted-fault:infer:' + kind]})
                fjobs.append({'id': len(fjobs), 'sources': x['sources'], 'entries': ['Main'], 'compile': False})
        accepted = 0
        chunks = [fjobs[i::16] for i in range(16)]
        import concurrent.futures
        with concurrent.futures.ThreadPoolExecutor(max_workers=16) as ex:
            for part in ex.map(lambda c: run_jobs(c) if c else [], chunks):
                for r in part:
                    if not r['errors'] and not r.get('front_panic'):
                        progs.append(fprogs[r['id']])
                        accepted += 1
        ck.count('fault-variants:checked', len(fjobs))
        ck.count('fault-variants:accepted', accepted)
    recs = run_pipeline(progs, 'c03')
    for p, r in zip(progs, recs):
        ck.case(p['sources'], not r['errors'])
        judge(ck, p, r)
    validate_wasm(ck, recs, progs)
    # release build: compilation must not crash either
    jobs = [{'id': i, 'sources': p['sources'], 'entries': [p['entry']], 'compile': True} for i, p in enumerate(progs)]
    for res in run_jobs(jobs, profile='release'):
        if str(res['compile']).startswith('panic'):
            ck.property_failure('compilation crashed in the release build: ' + res['compile'][:300],
                                {'sources': progs[res['id']]['sources'], 'entry': progs[res['id']]['entry'], 'profile': 'release'})
    # accepted mutants of the repository's samples
    if mut:
        from lib.vlib import WORK
        base = os.path.join(WORK, 'e2e_c03m')
        jobs = [{'id': i, 'sources': m['sources'], 'entries': [m['entry']], 'compile': True, 'with_std': False,
                 'out_dir': os.path.join(base, 'm%d' % i)} for i, m in enumerate(mut)]
        import concurrent.futures
        chunks = [jobs[i::8] for i in range(8)]
        mres = {}
        with concurrent.futures.ThreadPoolExecutor(max_workers=8) as ex:
            for part in ex.map(lambda c: run_jobs(c) if c else [], chunks):
                for r in part:
                    mres[r['id']] = r
        files, owners = [], []
        for i, m in enumerate(mut):
            r = mres[i]
            accepted = not r['errors'] and not r.get('front_panic')
            ck.case(['mutant', m['mutated'], m['sources'][m['mutated']]], accepted)
            ck.count('mutant:' + ('accepted' if accepted else 'rejected'))
            rec = {'compile': r['compile'], 'errors': r['errors'], 'front_panic': r.get('front_panic'), 'src': None, 'wasm': None, 'ts': None}
            small = {'sources': {m['mutated']: m['sources'][m['mutated']]}, 'entry': m['entry'],
                     'note': 'all other modules of /repo/tests and /repo/std unchanged'}
            judge(ck, small, rec)
            if r['compile'] == 'ok':
                files.append(os.path.join(base, 'm%d' % i, '__all__.wasm'))
                owners.append(small)
        if files:
            rc, out = vh(['wasm-validate'] + files, timeout=900)
            for v, o in zip([json.loads(l) for l in out.splitlines() if l.startswith('{')], owners):
                if not v['valid']:
                    ck.property_failure('emitted WebAssembly for an accepted mutant is invalid: ' + v.get('error', '')[:200], o)
    ck.extra_cov['programs'] = len(progs)
    ck.extra_cov['mutants'] = len(mut)
    if progs:
        ck.sample({'program': progs[-1]['sources'].get('Main', '')[:1000], 'wasm_ending': recs[-1]['wasm'] and recs[-1]['wasm']['ending']})
    return ck.finish()
