"""C03, slice on the passes that DELETE or MERGE definitions (coq/theories/C03names):
  samlang-optimization/src/unused_name_elimination.rs    (MIR: functions, type definitions, closure types, string globals)
  samlang-compiler/src/lir_unused_name_elimination.rs    (the same on LIR)
  samlang-compiler/src/mir_type_deduplication.rs         (structurally equal type definitions merged, every mention renamed)

Layer A: theories/C03names/Props.v (closure: no dangling reference after an elimination, entry points kept; the kept set
  is exactly the reachable set; the program after the MIR elimination has the same `sem` at the same fuel; deduplication is
  a renaming onto representatives with equal definitions and preserves `sem` up to the renaming; the validators decide the
  declarative statements; seeded variant C03-6 and the tree before b69b06c refuted).
Layer B: `vh names-dump` prints the whole real program before each pass as a term of C03names/Syntax.v and the names that
  survive.  Inside coqc (vm_compute, sharded): the Gallina pass on the real `before` keeps exactly the names the real pass
  kept (all vectors, in order); for deduplication the Gallina output equals the real output term for term.
Verified validator (a decidable checker proved to decide the declarative "no dangling reference" statement): evaluated on
  every real output, in particular `lir_no_dangling` on the FINAL LIR of every generated program - what the WebAssembly
  emitter consumes.  A dangling reference in a real output for an accepted program is a C03 property failure.

`names(ck, tier, seed)` is the library entry (for checks/c03.py); `run()` is a standalone wrapper (evidence and replay
files under /verif/work/c03names/, never /verif/evidence).
"""
import concurrent.futures
import json
import os
import re
import sys

from gen.progs import gen_builtin_program, gen_infer_program, gen_layout_program, gen_program
from gen.rng import Rng
from lib import vlib
from lib.vlib import Check, NCPU, check_props, sh, vh

HEADER = ('From Coq Require Import ZArith NArith List Bool. Import ListNotations.\n'
          'From SV Require Import Common.Int32 C03names.Syntax C03names.Elim C03names.Dedup C03names.Spec C03names.Corr.\n'
          'Open Scope N_scope.\n')
# development: theories under /verif/work/c03names/theories/C03names instead of the live tree
SCRATCH = os.environ.get('C03NAMES_SCRATCH')
SYNTHETIC = ['decl', 'fty', 'parent']


def coq_eval(name, text, timeout=900):
    os.makedirs(vlib.WORK, exist_ok=True)
    path = os.path.join(vlib.WORK, name + '.v')
    with open(path, 'w') as f:
        f.write(text)
    cmd = ['coqc', '-noglob', '-Q', os.path.join(vlib.COQ, 'theories'), 'SV', '-Q', os.path.join(vlib.COQ, 'generated'), 'SVG']
    if SCRATCH:
        cmd += ['-Q', SCRATCH, 'SV.C03names']
    rc, out = sh(cmd + [path], timeout=timeout, cwd=vlib.WORK)
    for ext in ('.vo', '.vok', '.vos', '.glob') + (('.v',) if rc == 0 else ()):      # the case file is kept when coqc failed
        try:
            os.remove(path[:-2] + ext)
        except FileNotFoundError:
            pass
    return rc, out


def coq_eval_many(jobs, timeout=900):
    with concurrent.futures.ThreadPoolExecutor(max_workers=NCPU) as ex:
        futs = [ex.submit(coq_eval, n, t, timeout) for n, t in jobs]
        return [f.result() for f in futs]


def coq_result(out):
    m = re.search(r'^\s*=\s*(.*?)\n\s*:\s', out, re.S | re.M)
    return None if not m else ' '.join(m.group(1).split())


def parse_nested(text):
    t = re.sub(r'%[A-Za-z]+', '', text).replace(';', ',').replace('(', '[').replace(')', ']')
    t = re.sub(r'\s+', '', t)
    return json.loads(t)


def g_list(xs):
    return '[' + '; '.join(str(x) for x in xs) + ']'


def hooks_present():
    """the four wrappers this slice asked for (samlang_compiler::verif) are in the tree that is being checked"""
    try:
        text = open(os.path.join(vlib.REPO, 'crates/samlang-compiler/src/lib.rs')).read()
    except OSError:
        return False
    return 'lir_unused_name_elimination' in text and 'type_deduplication' in text and 'compile_sources_to_mir_before_dedup' in text


# ------------------------------------------------------------------ programs
def enum_heavy_program(r):
    """enums whose variants are never all built / matched, generic boxes, closures over them: what the eliminations
    and the deduplication act on (structurally equal classes, payload types that only a type definition mentions)"""
    n = 2 + r.below(3)
    L = []
    for i in range(n):
        L.append('class P%d(val a: int, val b: Str) { method sum(): int = this.a + %d }' % (i, i))
        L.append('class Q%d(val a: int, val b: Str) { method sum(): int = this.a - %d }' % (i, i))
        L.append('class E%d(A%d(P%d), B%d(Q%d, int), C%d) {\n  method tag(): int = match this { A%d(p) -> p.sum(), B%d(q, k) -> q.sum() + k, C%d -> %d }\n}'
                 % (i, i, i, i, i, i, i, i, i, i))
        L.append('class F%d(A%d(P%d), B%d(Q%d, int), C%d) {\n  method tag(): int = match this { A%d(p) -> 1, B%d(q, k) -> k, C%d -> %d }\n}'
                 % (i, i, i, i, i, i, i, i, i, i + 7))
        L.append('class Bx%d<T>(Only%d(T), None%d) { method isSome(): bool = match this { Only%d(_) -> true, None%d -> false } }' % (i, i, i, i, i))
    body = []
    for i in range(n):
        k = r.below(6)
        if k == 0:
            body.append('    let _ = Process.println(Str.fromInt(E%d.C%d().tag()));' % (i, i))
        elif k == 1:
            body.append('    let _ = Process.println(Str.fromInt(E%d.A%d(P%d.init(%d, "x")).tag() + F%d.C%d().tag()));' % (i, i, i, r.below(9), i, i))
        elif k == 2:
            body.append('    let _ = Process.println(Str.fromInt(F%d.B%d(Q%d.init(1, "y"), %d).tag()));' % (i, i, i, r.below(9)))
        elif k == 3:
            body.append('    let f%d = (e: E%d) -> e.tag();\n    let _ = Process.println(Str.fromInt(f%d(E%d.B%d(Q%d.init(2, "z"), 3))));' % (i, i, i, i, i, i))
        elif k == 4:
            body.append('    let _ = Process.println(if Bx%d.Only%d(E%d.C%d()).isSome() { "s" } else { "n" });' % (i, i, i, i))
        else:
            body.append('    let _ = Process.println(if Bx%d.None%d<F%d>().isSome() { "s" } else { "n" });' % (i, i, i))
    L.append('class Main {\n  function main(): unit = {\n' + '\n'.join(body) + '\n  }\n}')
    return {'sources': {'Main': '\n'.join(L) + '\n'}, 'entry': 'Main', 'features': ['enum-heavy']}


def bounded_generic_program(r):
    """methods of generic classes called through a bounded type parameter, a generic interface method, a method value: the
    places where generics specialisation has to find a function under the name of a specialised type"""
    n = 1 + r.below(3)
    L = ['interface Show { method show(): Str }', 'interface Size { method size(): int }']
    for i in range(n):
        L.append('class Bx%d<T>(val v: T) : Show, Size { method show(): Str = "bx%d" method size(): int = %d }' % (i, i, i + 1))
        L.append('class Pr%d<A, B>(val a: A, val b: B) : Show { method show(): Str = "pr%d" method first(): A = this.a }' % (i, i))
    L.append('class Leaf(val k: int) : Show, Size { method show(): Str = Str.fromInt(this.k) method size(): int = this.k }')
    body = []
    args = ['Leaf.init(%d)' % r.below(9)]
    for i in range(n):
        args += ['Bx%d.init(%d)' % (i, r.below(9)), 'Bx%d.init("s")' % i, 'Bx%d.init(Leaf.init(2))' % i,
                 'Pr%d.init(1, Bx%d.init(true))' % (i, i), 'Pr%d.init(Bx%d.init(3), "t")' % (i, i)]
    for k in range(3 + r.below(4)):
        a = r.pick(args)
        c = r.below(4)
        if c == 0:
            body.append('    let _ = Process.println(Main.p(%s));' % a)
        elif c == 1 and not a.startswith('Pr'):
            body.append('    let _ = Process.println(Str.fromInt(Main.q(%s)));' % a)
        elif c == 2:
            body.append('    let _ = Process.println(Main.twice(%s, %s));' % (a, r.pick(args)))
        else:
            body.append('    let _ = Process.println(Main.viaLambda(%s));' % a)
    L.append('class Main {\n  function <T: Show> p(t: T): Str = t.show()\n  function <T: Size> q(t: T): int = t.size() + 1\n'
             '  function <A: Show, B: Show> twice(a: A, b: B): Str = a.show() :: b.show()\n'
             '  function <T: Show> viaLambda(t: T): Str = { let f = () -> t.show(); f() }\n'
             '  function main(): unit = {\n' + '\n'.join(body) + '\n  }\n}')
    return {'sources': {'Main': '\n'.join(L) + '\n'}, 'entry': 'Main', 'features': ['generic-class-under-bound']}


def programs(tier, seed):
    from checks.c01 import load_corpus
    rng = Rng(seed ^ 0xC03A)
    progs = load_corpus('C03')
    n_gen, n_lay, n_inf, n_bi, n_enum = (40, 30, 16, 6, 28) if tier == 'quick' else (500, 350, 200, 60, 300)
    n_bound = 10 if tier == 'quick' else 120
    for i in range(n_gen):
        r = rng.fork()
        progs.append(gen_program(r, {'big': i % 5 == 0, 'nfun': 4 + i % 3, 'depth': 2 + i % 2, 'loops': True, 'closures': i % 2 == 1,
                                     'vec': i % 4 == 2, 'strings': i % 3 == 0, 'interfaces': i % 2 == 0}))
    for i in range(n_lay):
        progs.append(gen_layout_program(rng.fork()))
    for i in range(n_inf):
        progs.append(gen_infer_program(rng.fork()))
    for i in range(n_bi):
        progs.append(gen_builtin_program(rng.fork()))
    for i in range(n_enum):
        progs.append(enum_heavy_program(rng.fork()))
    for i in range(n_bound):
        progs.append(bounded_generic_program(rng.fork()))
    return progs


def dump(progs):
    jobs = [({'id': i, 'synthetic': p['synthetic']} if 'synthetic' in p else {'id': i, 'sources': p['sources'], 'entry': p['entry']})
            for i, p in enumerate(progs)]
    chunks = [jobs[i::NCPU] for i in range(NCPU)]

    def run_chunk(c):
        if not c:
            return []
        rc, out = vh(['names-dump'], input='\n'.join(json.dumps(j) for j in c) + '\n', timeout=1200)
        return [json.loads(l) for l in out.splitlines() if l.startswith('{')]
    res = {}
    with concurrent.futures.ThreadPoolExecutor(max_workers=NCPU) as ex:
        for part in ex.map(run_chunk, chunks):
            for r in part:
                if isinstance(r.get('id'), int):
                    res[r['id']] = r
    return res


# ------------------------------------------------------------------ the tie
def names(ck, tier, seed, progs=None):
    progs = programs(tier, seed) if progs is None else progs
    # the three hand-made MIR programs of the blind spots (ProofsWitness.wit_mir_*) go through the REAL passes as well
    progs = list(progs) + [{'synthetic': k, 'sources': {'synthetic': k}, 'entry': '', 'features': ['synthetic']} for k in SYNTHETIC]
    res = dump(progs)
    hooks = hooks_present()
    st = {'programs': len(progs), 'rejected': 0, 'hooks': int(hooks),
          'mir_stages': 0, 'mir_stages_distinct': 0, 'mir_deleting': 0, 'mir_model_eq_real': 0, 'mir_model_differs': 0, 'mir_rel_closed': 0,
          'mir_no_dangling_before': 0, 'mir_no_dangling_after': 0, 'mir_names_wf': 0, 'mir_deleted_functions': 0, 'mir_deleted_types': 0,
          'mir_deleted_globals': 0, 'mir_not_sub_vector': 0,
          'lir_stages': 0, 'lir_deleting': 0, 'lir_model_eq_real': 0, 'lir_model_differs': 0, 'lir_rel_closed': 0, 'lir_no_dangling_before': 0,
          'lir_deleted_functions': 0, 'lir_deleted_types': 0, 'lir_deleted_globals': 0, 'lir_equals_seeded_c03_6': 0, 'lir_equals_pre_b69b06c': 0,
          'final_lir_validated': 0, 'final_lir_no_dangling': 0, 'final_lir_dangling': 0,
          'dedup_stages': 0, 'dedup_model_eq_real': 0, 'dedup_model_differs': 0, 'dedup_model_none': 0, 'dedup_merged_closures': 0,
          'dedup_merged_typedefs': 0, 'dedup_subtypes_renamed': 0, 'dedup_no_dangling_before': 0, 'dedup_no_dangling_after': 0,
          'dedup_equal_after_renaming': 0, 'real_panics': 0, 'model_failures': 0, 'wf_inputs': 0, 'wf_checked': 0, 'synthetic_mir_dangling': 0, 'synthetic_lir_dangling': 0,
          'spec_validated': 0, 'spec_no_dangling': 0, 'spec_dangling': 0, 'spec_functions': 0}
    cases = []      # (kind, job id, where, definitions text, term, input)
    for jid in sorted(res):
        r = res[jid]
        p = progs[jid]
        inp = {'sources': p['sources'], 'entry': p['entry']}
        if 'synthetic' in p:
            inp['synthetic'] = p['synthetic']
        if r.get('rejected'):
            st['rejected'] += 1
            continue
        if 'lowering_panic' in r or 'front_panic' in r:
            # an accepted program on which lowering crashes is C03's own monitor's business (checks/c03.py); counted here
            st['real_panics'] += 1
            continue
        if 'harness_panic' in r or 'error' in r or 'stages' not in r:
            ck.obligation('names-dump(job %d)' % jid, False, json.dumps(r)[:300])
            continue
        seen_before = set()
        pending_spec = None
        for si, s in enumerate(r['stages']):
            kind = s['kind']
            where = dict(inp, stage=kind, where=s.get('where'))
            tag = '%d_%d' % (jid, si)
            if s.get('hook_missing') or 'rounds_panic' in s or 'optimizer_panic' in s:
                continue
            if 'panic' in s or 'lowering_panic' in s:
                st['real_panics'] += 1
                ck.property_failure('%s panicked on an accepted program: %s' % (kind, str(s.get('panic') or s.get('lowering_panic'))[:200]),
                                    where, how='vh names-dump')
                continue
            if kind == 'spec':
                if 'before' in s:
                    d = 'Definition p%s : msources := %s.\n' % (tag, s['before'])
                    cases.append(('spec', jid, None, d, 'mir_spec_case p%s %s' % (tag, g_list(s['builtin_fns'])), dict(where, fname_text=s['fname_text'])))
                else:
                    pending_spec = s
            elif kind == 'mir-elim':
                st['mir_stages'] += 1
                if s['before'] in seen_before:
                    continue
                seen_before.add(s['before'])
                if not s['sub_vector']:
                    st['mir_not_sub_vector'] += 1
                    ck.disagree('unused_name_elimination::optimize_sources output is not a sub-vector of its input', where,
                                'retain() of the four vectors', 'definitions changed or reordered', how='vh names-dump')
                    continue
                nm = s['after_names']
                d = 'Definition b%s : msources := %s.\n' % (tag, s['before'])
                t = 'mir_elim_case b%s %s %s %s %s' % (tag, g_list(nm['globals']), g_list(nm['closures']), g_list(nm['typedefs']), g_list(nm['funcs']))
                cases.append(('mir', jid, s.get('where'), d, t, where))
            elif kind == 'lir-elim':
                st['lir_stages'] += 1
                if not s['sub_vector']:
                    ck.disagree('optimize_lir_sources_by_eliminating_unused_ones output is not a sub-vector of its input', where,
                                'filter() of the three vectors', 'definitions changed or reordered', how='vh names-dump')
                    d = 'Definition a%s : lsources := %s.\n' % (tag, s['after'])
                    cases.append(('final', jid, 'final', d, 'lir_final_case a%s' % tag, where))
                    continue
                nm = s['after_names']
                d = 'Definition b%s : lsources := %s.\n' % (tag, s['before'])
                t = 'lir_elim_case b%s %s %s %s' % (tag, g_list(nm['globals']), g_list(nm['typedefs']), g_list(nm['funcs']))
                cases.append(('lir', jid, 'final', d, t, where))
            elif kind == 'lir-final':
                d = 'Definition a%s : lsources := %s.\n' % (tag, s['after'])
                cases.append(('final', jid, 'final', d, 'lir_final_case a%s' % tag, where))
            elif kind == 'dedup':
                st['dedup_stages'] += 1
                d = ('Definition b%s : msources := %s.\nDefinition a%s : msources := %s.\n' % (tag, s['before'], tag, s['after']))
                tbl = g_list('(%d, %d, %d)' % (e[0], e[1], e[2]) for e in s['derive'])
                par = g_list('(%d, %d)' % (e[0], e[1]) for e in s['parents_after'])
                cases.append(('dedup', jid, None, d, 'dedup_case b%s a%s %s %s' % (tag, tag, tbl, par), where))
                if pending_spec is not None:
                    # the program right after generics specialisation = the input of the deduplication
                    d = 'Definition p%s : msources := %s.\n' % (tag, s['before'])
                    cases.append(('spec', jid, None, d, 'mir_spec_case p%s %s' % (tag, g_list(pending_spec['builtin_fns'])),
                                  dict(where, stage='spec', fname_text=pending_spec['fname_text'])))
                    pending_spec = None
    st['mir_stages_distinct'] = sum(1 for c in cases if c[0] == 'mir')
    # shards balanced by size
    nshard = max(1, min(NCPU, len(cases)))
    order = sorted(range(len(cases)), key=lambda i: -len(cases[i][3]))
    shards = [[] for _ in range(nshard)]
    sizes = [0] * nshard
    for i in order:
        k = sizes.index(min(sizes))
        shards[k].append(i)
        sizes[k] += len(cases[i][3])
    cjobs = []
    for k, idxs in enumerate(shards):
        cjobs.append(('c03names_%d_%d' % (os.getpid(), k),
                      HEADER + ''.join(cases[i][3] for i in idxs) + '\nEval vm_compute in %s.\n' % g_list(cases[i][4] for i in idxs)))
    outs = coq_eval_many(cjobs, timeout=1500) if cases else []
    for k, (rc, o) in enumerate(outs):
        resl = coq_result(o) if rc == 0 else None
        rows = None
        if resl is not None:
            try:
                rows = parse_nested(resl)
            except Exception:
                rows = None
        if rows is None or len(rows) != len(shards[k]):
            st['model_failures'] += 1
            ck.obligation('model-evaluation(C03names shard %d)' % k, False, o[-800:])
            continue
        for i, row in zip(shards[k], rows):
            kind, jid, place, _d, _t, where = cases[i]
            how = 'coqc work/c03names_<pid>_%d.v (%s of job %d)' % (k, kind, jid)
            if kind == 'mir':
                tie, rel, ndb, nda, wf, df, dt, dg, wfb = row
                st['wf_inputs'] += wfb
                st['wf_checked'] += 1
                ck.case(['mir-elim', where['sources'], place], bool(df or dt or dg))
                st['mir_deleting'] += 1 if (df or dt or dg) else 0
                st['mir_rel_closed'] += rel
                st['mir_no_dangling_before'] += ndb
                st['mir_no_dangling_after'] += nda
                st['mir_names_wf'] += wf
                st['mir_deleted_functions'] += df
                st['mir_deleted_types'] += dt
                st['mir_deleted_globals'] += dg
                if tie:
                    st['mir_model_eq_real'] += 1
                else:
                    st['mir_model_differs'] += 1
                    ck.disagree('C03names.Elim.mir_elim vs unused_name_elimination::optimize_sources (names kept)', where,
                                'the names kept by mir_elim on the real input', 'the real pass kept other names', how=how)
                if where.get('synthetic'):
                    # expected: the real pass leaves the dangling type exactly as the model does (refuted full statement)
                    st['synthetic_mir_dangling'] += 1 if (tie and ndb and not nda and not wf) else 0
                elif not rel or (ndb and not nda):
                    ck.property_failure('the MIR after unused-name elimination mentions a name whose definition the pass deleted '
                                        '(dangling reference in a real output)', where, how=how)
            elif kind == 'lir':
                tie, rel, ndb, nda, eq_seed, eq_pre, df, dt, dg, wfb = row
                st['wf_inputs'] += wfb
                st['wf_checked'] += 1
                ck.case(['lir-elim', where['sources']], bool(df or dt or dg))
                st['lir_deleting'] += 1 if (df or dt or dg) else 0
                st['lir_rel_closed'] += rel
                st['lir_no_dangling_before'] += ndb
                st['lir_deleted_functions'] += df
                st['lir_deleted_types'] += dt
                st['lir_deleted_globals'] += dg
                st['final_lir_validated'] += 1
                st['final_lir_no_dangling'] += nda
                if tie:
                    st['lir_model_eq_real'] += 1
                else:
                    st['lir_model_differs'] += 1
                    st['lir_equals_seeded_c03_6'] += eq_seed
                    st['lir_equals_pre_b69b06c'] += eq_pre
                    ck.disagree('C03names.Elim.lir_elim VNow vs lir_unused_name_elimination (names kept)', where,
                                'the names kept by lir_elim VNow on the real input',
                                'the real pass kept other names' + (' (= the model of seeded change C03-6: IsPointer type not collected)' if eq_seed else '')
                                + (' (= the model of the tree before b69b06c)' if eq_pre else ''), how=how)
                if where.get('synthetic'):
                    st['final_lir_validated'] -= 1
                    st['final_lir_no_dangling'] -= nda
                    st['synthetic_lir_dangling'] += 1 - nda
                elif not nda or not rel:
                    st['final_lir_dangling'] += 1 - nda
                    ck.property_failure('the final LIR of an accepted program has a dangling reference: a kept definition mentions a type / '
                                        'string / function that is not defined (validator lir_no_dangling = false on the real output)',
                                        where, observed={'rel_closed': rel, 'no_dangling_before_elimination': ndb}, how=how)
            elif kind == 'final':
                ok, nt, ns, nfv, nfc, nm_, _f, _t2, _g = row
                ck.case(['lir-final', where['sources']], True)
                st['final_lir_validated'] += 1
                st['final_lir_no_dangling'] += ok
                if not ok:
                    st['final_lir_dangling'] += 1
                    ck.property_failure('the final LIR of an accepted program has a dangling reference (validator lir_no_dangling = false): '
                                        '%d type, %d string, %d function-value, %d callee, %d entry-point references without a definition'
                                        % (nt, ns, nfv, nfc, nm_), where, how=how)
            elif kind == 'spec':
                ok, nt, ns, nfv, nfc, nmn, nfun, wfb = row[:8]
                fc, fv, ts = row[8:8 + nfc], row[8 + nfc:8 + nfc + nfv], row[8 + nfc + nfv:]
                ck.case(['spec', where['sources']], True)
                st['spec_validated'] += 1
                st['spec_no_dangling'] += ok
                st['spec_functions'] += nfun
                if not ok:
                    st['spec_dangling'] += 1
                    names_ = where.get('fname_text', {})
                    missing = sorted({names_.get(str(i), '#%d' % i) for i in fc + fv})
                    ck.property_failure('the MIR right after generics specialisation mentions a name that nothing defines (validator '
                                        'mir_no_dangling_ext = false): %d callee, %d function-value, %d type, %d string, %d entry-point references; '
                                        'undefined functions: %s; undefined type ids: %s'
                                        % (nfc, nfv, nt, ns, nmn, ', '.join(missing)[:300], sorted(set(ts))[:8]),
                                        {'sources': where['sources'], 'entry': where['entry']}, how=how)
            elif kind == 'dedup':
                status, c, t, f, pp, ndb, nda, mc, mt, ms, dup, wfb = row
                st['wf_inputs'] += wfb
                st['wf_checked'] += 1
                ck.case(['dedup', where['sources']], bool(mc or mt))
                st['dedup_merged_closures'] += mc
                st['dedup_merged_typedefs'] += mt
                st['dedup_subtypes_renamed'] += ms
                st['dedup_no_dangling_before'] += ndb
                st['dedup_no_dangling_after'] += nda
                st['dedup_equal_after_renaming'] += 1 if dup else 0
                if status == 0:
                    st['dedup_model_eq_real'] += 1
                else:
                    st['dedup_model_differs' if status == 1 else 'dedup_model_none'] += 1
                    ck.disagree('C03names.Dedup.dedup vs mir_type_deduplication::deduplicate', where,
                                'dedup of the real input' + (' is None (a loop form before the tail-recursion rewrite)' if status == 2 else ''),
                                {'closures_equal': c, 'typedefs_equal': t, 'functions_equal': f, 'parents_agree': pp}, how=how)
                if ndb and not nda:
                    ck.property_failure('type deduplication leaves a dangling reference (mir_no_dangling true before, false after)', where, how=how)
    if st['wf_inputs'] != st['wf_checked']:
        ck.disagree('hypothesis of the C03names theorems (distinct function names, distinct type-definition names) on a real input', {},
                    'm_wf_b / l_wf_b = true on every real program', '%d of %d inputs violate it' % (st['wf_checked'] - st['wf_inputs'], st['wf_checked']))
    ck.extra_cov['names'] = st
    for k, v in st.items():
        ck.count('names:' + k, v)
    ck.obligation('C03names MIR elimination tie ran', st['mir_stages_distinct'] > 0 and st['mir_deleting'] > 0,
                  '%d stages, %d deleting' % (st['mir_stages_distinct'], st['mir_deleting']))
    ck.obligation('C03names blind spots of the MIR pass replayed on the real passes (model = real, dangling type in MIR and in the final LIR)',
                  st['synthetic_mir_dangling'] == len(SYNTHETIC) and st['synthetic_lir_dangling'] == len(SYNTHETIC),
                  '%d / %d of %d' % (st['synthetic_mir_dangling'], st['synthetic_lir_dangling'], len(SYNTHETIC)))
    if hooks:
        ck.obligation('C03names validator on the MIR after generics specialisation ran', st['spec_validated'] > 0, '%d programs' % st['spec_validated'])
    ck.obligation('C03names final-LIR validator ran', st['final_lir_validated'] > 0, '%d programs' % st['final_lir_validated'])
    if hooks:
        ck.obligation('C03names LIR elimination tie ran', st['lir_stages'] > 0 and st['lir_deleting'] > 0, '%d stages' % st['lir_stages'])
        ck.obligation('C03names deduplication tie ran', st['dedup_stages'] > 0 and st['dedup_merged_typedefs'] + st['dedup_merged_closures'] > 0,
                      '%d stages' % st['dedup_stages'])
    else:
        ck.notes.append('C03names: hooks compile_sources_to_mir_before_dedup / type_deduplication / compile_mir_to_lir_before_elimination / '
                        'lir_unused_name_elimination are not in this tree: LIR-elimination and deduplication ties skipped, the final-LIR '
                        'validator runs on the output of the public pipeline')
    st['programs'] -= len(SYNTHETIC)
    print('C03names: programs=%d rejected=%d hooks=%d | MIR elimination: stages %d (distinct %d, deleting %d) model=real %d differs %d | closure on real '
          'output %d | no_dangling before/after %d/%d | names_wf %d | deleted functions/types/globals %d/%d/%d'
          % (st['programs'], st['rejected'], st['hooks'], st['mir_stages'], st['mir_stages_distinct'], st['mir_deleting'], st['mir_model_eq_real'],
             st['mir_model_differs'], st['mir_rel_closed'], st['mir_no_dangling_before'], st['mir_no_dangling_after'], st['mir_names_wf'],
             st['mir_deleted_functions'], st['mir_deleted_types'], st['mir_deleted_globals']))
    print('C03names: LIR elimination: stages %d (deleting %d) model=real %d differs %d (= seeded C03-6: %d, = pre-b69b06c: %d) | closure on real '
          'output %d | deleted functions/types/globals %d/%d/%d | FINAL LIR validated %d: no dangling reference %d, dangling %d'
          % (st['lir_stages'], st['lir_deleting'], st['lir_model_eq_real'], st['lir_model_differs'], st['lir_equals_seeded_c03_6'],
             st['lir_equals_pre_b69b06c'], st['lir_rel_closed'], st['lir_deleted_functions'], st['lir_deleted_types'], st['lir_deleted_globals'],
             st['final_lir_validated'], st['final_lir_no_dangling'], st['final_lir_dangling']))
    print('C03names: deduplication: stages %d model=real %d differs %d none %d | merged closure types %d, type definitions %d, sub-types renamed %d | '
          'no_dangling before/after %d/%d | outputs with two definitions equal after renaming %d | real panics %d | distinct-name hypotheses hold on %d/%d inputs'
          % (st['dedup_stages'], st['dedup_model_eq_real'], st['dedup_model_differs'], st['dedup_model_none'], st['dedup_merged_closures'],
             st['dedup_merged_typedefs'], st['dedup_subtypes_renamed'], st['dedup_no_dangling_before'], st['dedup_no_dangling_after'],
             st['dedup_equal_after_renaming'], st['real_panics'], st['wf_inputs'], st['wf_checked']))
    print('C03names: MIR right after generics specialisation (hook compile_sources_to_mir_before_dedup): validated %d programs (%d functions): '
          'every mentioned function / type / string defined or a runtime-library name %d, dangling %d'
          % (st['spec_validated'], st['spec_functions'], st['spec_no_dangling'], st['spec_dangling']))
    print('C03names: hand-made MIR programs for the three blind spots of the MIR pass, through the real passes: dangling after the MIR elimination %d/%d '
          '(and model = real), dangling in the final LIR %d/%d' % (st['synthetic_mir_dangling'], len(SYNTHETIC), st['synthetic_lir_dangling'], len(SYNTHETIC)))
    return st


def run(tier='quick', seed=1, replay=None):
    vlib.OUT_ROOT = os.path.join(vlib.OUT_ROOT, 'work', 'c03names') if not vlib.ALT else vlib.OUT_ROOT
    ck = Check('C03', tier, seed, level='proof (partial)')
    ck.checker_cmd = 'python3 -c "from checks import c03_names; c03_names.run()"'
    if not SCRATCH:
        check_props(ck, 'theories/C03names/Props.v')
    progs = None
    if replay:
        rp = json.load(open(replay))
        progs = [{'sources': rp['input']['sources'], 'entry': rp['input']['entry'], 'features': ['replay']}]
    names(ck, tier, seed, progs)
    return ck.finish()


if __name__ == '__main__':
    sys.path.insert(0, '/verif')
    tier = sys.argv[1] if len(sys.argv) > 1 else 'quick'
    seed = int(sys.argv[2]) if len(sys.argv) > 2 else 1
    sys.exit(run(tier, seed))
