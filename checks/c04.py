"""C04 — TypeScript and WebAssembly back ends agree (DESIGN.md section 4, C04)."""
import json
import os
import subprocess

from checks.c01 import load_corpus
from gen.progs import gen_builtin_program, gen_infer_program, gen_layout_program, gen_order_program, gen_program
from gen.rng import Rng
from lib import opstable
from lib.e2e import run_pipeline, same_behaviour
from lib.vlib import WORK, Check, build_harness, check_props

PID = 'C04'
KNOWN_BY_CORPUS = {
    '001-unboxed-enum-loose-equality.sam': 'C04-ts-loose-equality',
    '002-div-rounding.sam': 'C04-div-rounding',
    '003-vec-int-i31.sam': 'C04-vec-int-i31',
    '004-string-constant-escapes.sam': 'C04-string-constants',
    '005-string-constant-non-ascii.sam': 'C04-string-constants',
    '007-vec-capacity.sam': 'C04-vec-capacity-is-backend-specific',
}


def generate():
    return opstable.generate()


def strict_div_excluded(prog, idx):
    """Does the reference run perform a division whose quotient is negative and inexact?"""
    _, binp, _ = build_harness('debug')
    req = os.path.join(WORK, 'c04_strict_%d.json' % idx)
    with open(req, 'w') as f:
        json.dump({'sources': prog['sources'], 'entry': prog['entry'], 'fuel': 30000000}, f)
    p = subprocess.run([binp, 'src-run', '--json', req], stdout=subprocess.PIPE, stderr=subprocess.PIPE, text=True,
                       env=dict(os.environ, SRCSEM_STRICT_DIV='1'), timeout=120)
    line = [l for l in p.stdout.splitlines() if l.startswith('{')]
    if not line:
        return False
    e = json.loads(line[-1])['ending']
    return e['kind'] == 'excluded' and 'div-rounding' in e.get('detail', '')


def comparable(o):
    return o is not None and o['ending']['kind'] in ('return', 'panic', 'vec-bounds', 'unreachable')


def canon(o):
    """The documented Vec bounds panics are ordinary panics with a fixed message in both back ends (the TypeScript runner
    labels them vec-bounds); a bare `unreachable` of the WebAssembly runtime is a different ending."""
    k = o['ending']['kind']
    if k == 'vec-bounds':
        return {'lines': o['lines'], 'ending': {'kind': 'panic', 'detail': o['ending'].get('detail', '')}}
    return o


def run(tier, seed, replay=None):
    ck = Check(PID, tier, seed, level='proof')
    ck.checker_cmd = 'regenerate coq/generated/OpsTable.v from the real printers, then make -C /verif/coq theories/C04/Props.vo + Print Assumptions'
    ck.trusted = [
        'Coq 8.16.1 kernel; no axioms',
        'translator T-ops (harness/src/ops_table.rs + lib/opstable.py): runs the real LIR TypeScript printer and the real WAT printer '
        'on `r = a OP b` for the 16 operators and parses the two texts into the tiny expression languages of theories/C04/Sem.v',
        'JsNum assumption: on 32-bit operands Math.floor(a / b) is the floor of the exact quotient, % is the truncating remainder, '
        '+ - * are exact below 2^53 (theories/C04/Sem.v js_infix) - sampled against node by the monitor',
        'theories/Common/Int32.v rt_binop as the meaning of the WebAssembly instructions',
        'engines: node 20 running the type-erased emitted TypeScript (engines/ts_erase_lib.js), headless Chrome 147 for WebAssembly; '
        'the reference interpreter harness/src/srcsem.rs only decides which runs are excluded (overflow, division by zero)',
        'runtime library (Str/Vec builtins): hand models of both implementations with theorems (theories/C04rt), text-hash staleness guard and differential execution on every run (checks/c04_rt.py); the rest of instruction selection is compared by execution only',
    ]
    try:
        generate()
        ck.obligation('operator tables regenerated from the real printers', True, 'coq/generated/OpsTable.v')
    except Exception as e:       # noqa
        ck.obligation('operator tables regenerated from the real printers', False, str(e)[:300])
    check_props(ck, 'theories/C04/Props.v', extra_deps=['theories/Common', 'generated'])
    # the runtime libraries of both back ends: models, theorems, text-hash staleness guard, differential run
    from checks.c04_rt import rt
    rt(ck, tier, seed)

    if replay:
        rp = json.load(open(replay))
        progs = [{'sources': rp['input']['sources'], 'entry': rp['input']['entry'], 'features': ['replay']}]
    else:
        progs = load_corpus(PID)
        n = 120 if tier == 'quick' else 2500
        rng = Rng(seed ^ 0xC04)
        for i in range(n):
            if i % 10 == 3:
                progs.append(gen_builtin_program(rng.fork()))        # the runtime libraries of both back ends
            elif i % 10 == 5:
                progs.append(gen_order_program(rng.fork()))          # evaluation order of receivers / callees / arguments / operands
            elif i % 10 == 9:
                progs.append(gen_infer_program(rng.fork()))          # generic calls, method values, partly annotated lambdas
            elif i % 10 == 7:
                progs.append(gen_layout_program(rng.fork(), single_field=False))    # enum representations (TS reads tags, wasm tests types)
            else:
                progs.append(gen_program(rng.fork(), {'big': False, 'vec_small': True, 'min_struct_fields': 2, 'nfun': 4 + i % 3,
                                                      'depth': 2 + i % 3}))
    if not replay:
        from gen.progs import oob_programs
        progs = progs + oob_programs()      # Vec accesses that leave the bounds at chosen places (always run)
    ck.rule = ('generated accepted programs with division/remainder operands of every sign combination, string constants (ASCII), Vec '
               'elements below 2^30, structs with >= 2 fields (generators stay out of the four open classes, which are replayed from '
               'corpus/C04); distinct = distinct program text; non-trivial = both back ends ran and the run is not excluded')
    recs = run_pipeline(progs, 'c04')
    for i, (prog, rec) in enumerate(zip(progs, recs)):
        label = (prog.get('features') or [''])[0]
        corpus_kid = KNOWN_BY_CORPUS.get(label.split(':', 1)[1]) if label.startswith('corpus:') else None
        if not rec['engine_ok']:
            ck.notes.append('WebAssembly engine unavailable: comparison skipped')
            break
        if rec['compile'] != 'ok':
            ck.count('not-compiled')
            continue
        src, ts, wasm = rec['src'], rec['ts'], rec['wasm']
        if ts is not None and ts['ending']['kind'] == 'invalid-ts':
            if corpus_kid:
                ck.known_witness(corpus_kid, True, 'emitted TypeScript is not valid')
            else:
                ck.property_failure('emitted TypeScript is not syntactically valid: ' + ts['ending']['detail'][:200],
                                    {'sources': prog['sources'], 'entry': prog['entry']})
            continue
        excl = src is not None and src['ending']['kind'] == 'excluded' and src['ending']['detail'] in ('overflow', 'div-by-zero')
        ck.count('excluded' if excl else 'compared')
        ck.case(prog['sources'], not excl)
        if excl or not comparable(ts) or not comparable(wasm):
            if not excl:
                ck.count('not-comparable:%s/%s' % (ts and ts['ending']['kind'], wasm and wasm['ending']['kind']))
            continue
        d = same_behaviour(canon(ts), canon(wasm))
        if corpus_kid:
            ck.known_witness(corpus_kid, d is not None, d or 'back ends agree')
            continue
        if d is None:
            continue
        klass = 'C04-div-rounding' if strict_div_excluded(prog, i) else None
        if klass is None and any('.capacity()' in t for t in prog['sources'].values()):
            klass = 'C04-vec-capacity-is-backend-specific'
        ck.property_failure('TypeScript and WebAssembly back ends differ: ' + d, {'sources': prog['sources'], 'entry': prog['entry']},
                            expected={'wasm': {'lines': wasm['lines'][:40], 'ending': wasm['ending']}},
                            observed={'ts': {'lines': ts['lines'][:40], 'ending': ts['ending']}},
                            how='./check C04 --replay <this file>', klass=klass)
    ck.extra_cov['programs'] = len(progs)
    if progs:
        ck.sample({'program': progs[-1]['sources']['Main'][:1200], 'ts': recs[-1]['ts'], 'wasm': recs[-1]['wasm']})
    return ck.finish()
