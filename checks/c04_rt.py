"""C04 (and the run-time half of C01) - the RUNTIME LIBRARY of the two back ends.

Layer A: coq/theories/C04rt/Props.v (theorems over the hand models of libsam.wat and of the TypeScript prolog).
Layer B: (1) structural guard: the text of every modelled function is hashed; a changed text makes the model STALE
             (obligation failure) and the differential run below decides whether the behaviour changed;
         (2) differential run on every check: one generated samlang driver calls every built-in on boundary and random
             arguments, is compiled ONCE by the real compiler (vh front), the emitted WebAssembly runs in headless Chrome,
             the emitted TypeScript in node, and every printed line is compared with the value the model gives for the
             same call (vm_compute inside coqc, coq/theories/C04rt/Corr.v).
Layer C: the same run compares the two engines with each other: a difference is the property failing on the implementation.

`rt(ck, tier, seed)` is called by checks/c04.py (writes nothing but scratch files under work/); `run(tier, seed)` is a
standalone wrapper whose evidence goes to work/c04rt_standalone/evidence/C04rt.json."""
import concurrent.futures
import hashlib
import json
import os
import re
import shutil
import subprocess
import sys
import time

from gen.rng import Rng
from lib.e2e import ENG, _ts_run
from lib.front import run_jobs
from lib.vlib import REPO, ROOT, WORK, Check, check_props, coq_eval, coq_eval_many, coq_result

MIN32, MAX32 = -2147483648, 2147483647
TABLE = 'runtime library vs coq/theories/C04rt/Model.v'
# finding ids (known_findings.json): a difference between the engines is attributed to a class ONLY by the decidable
# predicate next to it
K_VEC31 = 'C04-vec-int-i31'                  # OPEN: an element outside [-2^30, 2^30) was stored in a Vec<int> of the driver
# FIXED findings of the runtime library (found by this check): their witnesses are replayed on every run through
# ck.known_witness - a fixed entry suppresses nothing, a difference in their class is a new failure like any other
FIXED_WITNESSES = {
    'C04-toInt-non-numeral': 'corpus/C04rt/001-toInt-non-numeral.sam',
    'C04-toInt-empty-string-traps': 'corpus/C04rt/002-toInt-empty-string-traps.sam',
    'C04-vec-negative-capacity': 'corpus/C04rt/003-vec-negative-capacity.sam',
}

# ------------------------------------------------------------------------------------------------ structural guard
# sha1 of the normalised text (comments stripped, white space collapsed) of everything Model.v was written from.
# Regenerate with `python3 -m checks.c04_rt --print-hashes` AFTER re-reading the changed function against Model.v.
MODEL_HASHES = {
    'loader.js:gcArrayToString+builtins': 'a51b1e43624d0002',
    'ts:__Process$panic': 'd7f6d5f461abf78f',
    'ts:__Process$println': 'a0cc2947470b5082',
    'ts:__Str$concat': '4cf123b518a18ee9',
    'ts:__Str$fromInt': 'fc8681cbd32b3739',
    'ts:__Str$toInt': '36daf030d3b770de',
    'ts:__Vec$capacity': 'ebe808c90c82c4c6',
    'ts:__Vec$empty': 'f0081453f7e92a83',
    'ts:__Vec$eq': '2ea11bd81d36f6d7',
    'ts:__Vec$get': '8e84cceb802cd787',
    'ts:__Vec$length': 'f6d7cdf044ebd8f1',
    'ts:__Vec$of': '646552811aabd776',
    'ts:__Vec$pop': '270fa8fcd4ec9cf8',
    'ts:__Vec$push': '3459b1b5e082f594',
    'ts:__Vec$reserve': '13e3c18a9de37457',
    'ts:__Vec$set': 'aaf3c7a311baabb5',
    'ts:__Vec$withCapacity': '5d09373aade7b22c',
    'wat:__$getBuiltinString': '462c2704d6b48c4e',
    'wat:__$strGet': '660e399d2d10f504',
    'wat:__$strLen': 'fc496adf89ee49a0',
    'wat:__$unwrapI31': '58022580e0f869b3',
    'wat:__Str$concat': '7eeb3aaeae5a356b',
    'wat:__Str$eq': '12117961cfe6011a',
    'wat:__Str$fromInt': '1aeff719406994a9',
    'wat:__Str$toInt': '2876e136d5cca639',
    'wat:__Vec$capacity': '042a5db735a83b98',
    'wat:__Vec$empty': '31ac9bbdf14ec1d9',
    'wat:__Vec$eq': 'b008cd8229191f80',
    'wat:__Vec$get': '3b5466ae809413c2',
    'wat:__Vec$length': '14d41ab7a3c355e3',
    'wat:__Vec$of': '1d462ca1d8c86ca0',
    'wat:__Vec$pop': '36475afbd89f831b',
    'wat:__Vec$push': 'f6eb812c92fdf966',
    'wat:__Vec$reserve': 'e1a697a95e7ecbc4',
    'wat:__Vec$set': '0ea79743ff7deda3',
    'wat:__Vec$withCapacity': 'f21d1ea90a59ec14',
    'wat:data $d0': 'd8fc1b6eb110f371',
    'wat:type $_Str': '6c52b6fb74165c25',
    'wat:type $_Vec': 'cfefce582753187b',
    'wat:type $_VecData': 'ca5fe3750b29bcdb',
}

WAT_FUNCS = ['__$getBuiltinString', '__Str$eq', '__Str$fromInt', '__Str$toInt', '__Str$concat', '__$strLen', '__$strGet', '__$unwrapI31',
             '__Vec$empty', '__Vec$withCapacity', '__Vec$of', '__Vec$length', '__Vec$capacity', '__Vec$reserve',
             '__Vec$push', '__Vec$pop', '__Vec$get', '__Vec$set', '__Vec$eq']
TS_FUNCS = ['__Str$concat', '__Process$println', '__Str$toInt', '__Str$fromInt', '__Process$panic', '__Vec$empty',
            '__Vec$withCapacity', '__Vec$of', '__Vec$length', '__Vec$capacity', '__Vec$reserve', '__Vec$push', '__Vec$pop',
            '__Vec$get', '__Vec$set', '__Vec$eq']


def _norm(text):
    return ' '.join(text.split())


def _h(text):
    return hashlib.sha1(_norm(text).encode()).hexdigest()[:16]


def strip_wat_comments(text):
    out = []
    for line in text.splitlines():
        i, q = 0, False
        while i < len(line):
            c = line[i]
            if c == '"':
                q = not q
            elif c == '\\' and q:
                i += 1
            elif not q and line.startswith(';;', i):
                break
            i += 1
        out.append(line[:i])
    return '\n'.join(out)


def wat_func(text, name):
    """Text of `(func $name ...)` (balanced), comments already stripped; None if absent."""
    m = re.search(r'\(func \$' + re.escape(name) + r'[\s(]', text)
    if not m:
        return None
    i, depth, q = m.start(), 0, False
    while i < len(text):
        c = text[i]
        if c == '"':
            q = not q
        elif c == '\\' and q:
            i += 1
        elif not q and c == '(':
            depth += 1
        elif not q and c == ')':
            depth -= 1
            if depth == 0:
                return text[m.start():i + 1]
        i += 1
    return None


def implementation_texts(emitted_ts, emitted_wat):
    """name -> text of everything the model mirrors, taken from /repo's libsam.wat, loader.js and from the prolog / type
    section of the code the real compiler just emitted."""
    t = {}
    wat_src = strip_wat_comments(open(os.path.join(REPO, 'crates/samlang-compiler/src/libsam.wat')).read())
    emitted = _norm(strip_wat_comments(emitted_wat))
    for f in WAT_FUNCS:
        body = wat_func(wat_src, f)
        t['wat:' + f] = body or ''
        if body and _norm(body) not in emitted:
            t['wat:' + f] = 'NOT-IN-EMITTED-WAT ' + body
    m = re.search(r'^\(data \$d0 .*$', wat_src, re.M)
    t['wat:data $d0'] = m.group(0) if m else ''
    for ty in ['_Str', '_VecData', '_Vec']:
        m = re.search(r'^\(type \$' + ty + r' .*$', emitted_wat, re.M)
        t['wat:type $' + ty] = m.group(0) if m else ''
    for f in TS_FUNCS:
        m = re.search(r'^const ' + re.escape(f) + r' = .*$', emitted_ts, re.M)
        t['ts:' + f] = m.group(0) if m else ''
    loader = open(os.path.join(REPO, 'crates/samlang-compiler/src/loader.js')).read()
    m = re.search(r'function gcArrayToString.*?\n  \}\n', loader, re.S)
    m2 = re.search(r'const builtins = \{.*?\n  \};\n', loader, re.S)
    t['loader.js:gcArrayToString+builtins'] = (m.group(0) if m else '') + (m2.group(0) if m2 else '')
    return t


def call_site_shapes(emitted_ts, emitted_wat):
    """The code the two printers emit AROUND the library calls, which the model takes for granted."""
    shapes = {}
    # string equality: TypeScript uses the operator on the payloads, WebAssembly calls $__Str$eq (xor 1 for !=)
    shapes['ts: a == b on Str is Number(x[1] === y[1])'] = bool(re.search(r'= Number\(\w+\[1\] === \w+\[1\]\);', emitted_ts))
    shapes['ts: a != b on Str is Number(x[1] !== y[1])'] = bool(re.search(r'= Number\(\w+\[1\] !== \w+\[1\]\);', emitted_ts))
    shapes['wat: a == b on Str is (call $__Str$eq ..)'] = bool(re.search(r'\(local\.set \$\w+ \(call \$__Str\$eq ', emitted_wat))
    shapes['wat: a != b on Str is (i32.xor (call $__Str$eq ..) 1)'] = bool(re.search(r'\(i32\.xor \(call \$__Str\$eq ', emitted_wat))
    # Vec<int>: elements boxed with ref.i31 on the way in, $__$unwrapI31 on the way out
    shapes['wat: Vec<int>.push boxes with ref.i31'] = bool(re.search(r'\(call \$__Vec\$push \(ref\.as_non_null \(local\.get \$\w+\)\) \(ref\.i31 \(local\.get ', emitted_wat))
    shapes['wat: Vec<int>.set boxes with ref.i31'] = bool(re.search(r'\(call \$__Vec\$set \(ref\.as_non_null \(local\.get \$\w+\)\) \(local\.get \$\w+\) \(ref\.i31 \(local\.get ', emitted_wat))
    shapes['wat: Vec.of(int) boxes with ref.i31'] = bool(re.search(r'\(call \$__Vec\$of \(ref\.i31 \(i32\.const 0\)\) \(ref\.i31 \(local\.get ', emitted_wat))
    shapes['wat: Vec<int>.pop unboxes with $__$unwrapI31'] = bool(re.search(r'\(call \$__\$unwrapI31 \(call \$__Vec\$pop ', emitted_wat))
    shapes['wat: Vec<int>.get unboxes with $__$unwrapI31'] = bool(re.search(r'\(call \$__\$unwrapI31 \(call \$__Vec\$get ', emitted_wat))
    return shapes


# ------------------------------------------------------------------------------------------------ statements
# ('fromInt', n) ('toInt', s) ('round', n) ('concat', a, b) ('streq', same, ne, a, b) ('print', s) ('panic', s)
# ('vnew', slot, kind, arg) ('vpush', slot, x) ('vpop', slot) ('vget', slot, i) ('vset', slot, i, x) ('vlen', slot)
# ('vreserve', slot, n) ('veq', s1, s2)
PRINTING = {'fromInt', 'toInt', 'round', 'concat', 'streq', 'print', 'vpop', 'vget', 'vlen', 'veq'}
FAMILY = {'fromInt': 'Str.fromInt', 'toInt': 'Str.toInt', 'round': 'Str.toInt', 'concat': 'Str.concat', 'streq': 'Str ==',
          'print': 'Process.println', 'panic': 'Process.panic'}
SAFE = [c for c in (chr(i) for i in range(32, 127)) if c not in '"\\`$']


def gz(n):
    return '(%d)' % n


def gs(s):
    return '[' + ';'.join(str(ord(c)) for c in s) + ']%N'


def gb(b):
    return 'true' if b else 'false'


def g_stmt(st):
    k = st[0]
    if k == 'fromInt':
        return 'SFromInt ' + gz(st[1])
    if k == 'toInt':
        return 'SToInt ' + gs(st[1])
    if k == 'round':
        return 'SRound ' + gz(st[1])
    if k == 'concat':
        return 'SConcat %s %s' % (gs(st[1]), gs(st[2]))
    if k == 'streq':
        return 'SStrEq %s %s %s %s' % (gb(st[1]), gb(st[2]), gs(st[3]), gs(st[4]))
    if k == 'print':
        return 'SPrint ' + gs(st[1])
    if k == 'panic':
        return 'SPanic ' + gs(st[1])
    if k == 'vnew':
        kind = {'empty': 'VEmpty', 'cap': '(VCap %s)' % gz(st[3] or 0), 'of': '(VOf %s)' % gz(st[3] or 0)}[st[2]]
        return 'SVNew %d %s' % (st[1], kind)
    if k == 'vpush':
        return 'SVPush %d %s' % (st[1], gz(st[2]))
    if k == 'vpop':
        return 'SVPop %d' % st[1]
    if k == 'vget':
        return 'SVGet %d %s' % (st[1], gz(st[2]))
    if k == 'vset':
        return 'SVSet %d %s %s' % (st[1], gz(st[2]), gz(st[3]))
    if k == 'vlen':
        return 'SVLen %d' % st[1]
    if k == 'vreserve':
        return 'SVReserve %d %s' % (st[1], gz(st[2]))
    if k == 'veq':
        return 'SVEq %d %d' % (st[1], st[2])
    raise ValueError(k)


def zexpr(n):
    """An int expression with run-time value n that the compiler cannot fold (z = "0".toInt())."""
    if n == MIN32:
        return 'z - 2147483647 - 1'
    return 'z + (%d)' % n if n < 0 else 'z + %d' % n


def sexpr(s):
    """A Str expression with run-time value s that is not a compile-time constant (constants are concatenated at compile time)."""
    return 'Main.s(z, "%s")' % s


class Emit:
    """Statements -> samlang source lines (vector variables get fresh names at every SVNew)."""

    def __init__(self, tag):
        self.tag, self.n, self.vars = tag, 0, {}

    def fresh(self, p):
        self.n += 1
        return '%s%sn%d' % (p, self.tag, self.n)

    def line(self, st):
        k = st[0]
        if k == 'fromInt':
            return 'Process.println(Str.fromInt(%s));' % zexpr(st[1])
        if k == 'toInt':
            return 'Process.println(Str.fromInt("%s".toInt()));' % st[1]
        if k == 'round':
            return 'Process.println(Str.fromInt(Str.fromInt(%s).toInt()));' % zexpr(st[1])
        if k == 'concat':
            return 'Process.println(%s :: %s);' % (sexpr(st[1]), sexpr(st[2]))
        if k == 'streq':
            op = '!=' if st[2] else '=='
            if st[1]:
                v = self.fresh('t')
                return 'let %s = %s; Main.show(%s %s %s);' % (v, sexpr(st[3]), v, op, v)
            return 'Main.show(%s %s %s);' % (sexpr(st[3]), op, sexpr(st[4]))
        if k == 'print':
            return 'Process.println(%s);' % sexpr(st[1])
        if k == 'panic':
            return 'let _ = Process.panic<unit>(%s);' % sexpr(st[1])
        if k == 'vnew':
            v = self.fresh('v')
            self.vars[st[1]] = v
            rhs = {'empty': 'Vec.empty<int>()', 'cap': 'Vec.withCapacity<int>(%s)' % zexpr(st[3] or 0),
                   'of': 'Vec.of(%s)' % zexpr(st[3] or 0)}[st[2]]
            return 'let %s = %s;' % (v, rhs)
        v = self.vars[st[1]]
        if k == 'vpush':
            return '%s.push(%s);' % (v, zexpr(st[2]))
        if k == 'vpop':
            return 'Process.println(Str.fromInt(%s.pop()));' % v
        if k == 'vget':
            return 'Process.println(Str.fromInt(%s.get(%s)));' % (v, zexpr(st[2]))
        if k == 'vset':
            return '%s.set(%s, %s);' % (v, zexpr(st[2]), zexpr(st[3]))
        if k == 'vlen':
            return 'Process.println(Str.fromInt(%s.length()));' % v
        if k == 'vreserve':
            return '%s.reserve(%s);' % (v, zexpr(st[2]))
        if k == 'veq':
            return 'Main.show(%s.eq(%s));' % (v, self.vars[st[2]])
        raise ValueError(k)


HELPERS = ('  function show(b: bool): unit = if b { Process.println("T") } else { Process.println("F") }\n'
           '  function s(k: int, a: Str): Str = if k == 0 { a } else { "?" }\n')


def module_text(chunks):
    """chunks: list of statement lists -> one module: class Main with one function per chunk and main calling them."""
    funs, calls = [], []
    for ci, ch in enumerate(chunks):
        em = Emit('c%d' % ci)
        body = '\n'.join('    ' + em.line(st) for st in ch)
        funs.append('  function c%d(z: int): unit = {\n%s\n  }\n' % (ci, body))
        calls.append('    Main.c%d(z);' % ci)
    return 'class Main {\n%s%s  function main(): unit = {\n    let z = "0".toInt();\n%s\n  }\n}\n' % (HELPERS, ''.join(funs), '\n'.join(calls))


def standalone(stmts):
    """A minimal replayable program for one statement list (for replay files)."""
    return {'sources': {'Main': module_text([stmts])}, 'entry': 'Main'}


# ------------------------------------------------------------------------------------------------ generators
def rand_i32(rng):
    k = rng.below(10)
    if k < 3:
        return rng.range(MIN32, MAX32)
    if k < 6:                       # every digit count
        d = rng.range(1, 10)
        lo, hi = 10 ** (d - 1), min(10 ** d - 1, MAX32)
        n = rng.range(lo, hi)
        return -n if rng.chance(1, 2) else n
    if k < 8:                       # around powers of ten and two
        p = rng.pick([10 ** rng.range(0, 9), 2 ** rng.range(0, 31)]) + rng.range(-2, 2)
        p = max(min(p, MAX32), 0)
        return -p if rng.chance(1, 2) else p
    return rng.pick([0, 1, -1, 9, -9, 10, -10, 11, -11, 99, -99, 100, -100, 101, -101, 1000000000, -1000000000, 1999999999,
                     -1999999999, 2000000000, -2000000000, MAX32, -MAX32, MIN32, MIN32 + 1, MAX32 - 1, 2147483639, -2147483639,
                     1073741824, -1073741824, 1073741823, 120034, -120034, 1000001, -1000001])


def rand_str(rng, maxlen=12):
    n = rng.pick([0, 1, 1, 2, 3, 3, 4, 5, 8, maxlen]) if not rng.chance(1, 40) else rng.range(40, 300)
    pool = SAFE if rng.chance(1, 2) else list('ab01- ')
    return ''.join(rng.pick(pool) for _ in range(n))


def gen_fromint(rng, n):
    fixed = [0, 1, -1, 9, -9, 10, -10, 12, -12, 21, -21, 99, -99, 100, -100, 1068, -1068, 12345, -12345, 120034, -120034, 999999,
             -999999, 1000000, MAX32, -MAX32, MIN32, MIN32 + 1, 1234567890, -1234567890, 1000000000, -1000000000]
    for d in range(1, 11):          # palindromic and non-palindromic digit strings of every length, both signs
        for digs in ('1234567890'[:d], '9' * d, '1' + '0' * (d - 1), '1' * (d - 1) + '2'):
            v = int(digs)
            if 0 < v <= MAX32:
                fixed += [v, -v]
    out = [('fromInt', v) for v in fixed]
    while len(out) < n:
        out.append(('fromInt', rand_i32(rng)))
    return out


def gen_toint(rng, n):
    junk = ['12abc', ' 42', '+5', '-', '--7', '7 ', '1e3', '0x10', '1_000', 'abc', '-a', ' -5', '- 5', '+', '+-1', '-+1', '0-1', '1-',
            '1.5', '.5', '-.5', '١', '00x', 'NaN', 'Infinity', '-Infinity', ' ', '  7', '7  8', '0 ', '-0x', '12:', '/5', ':5', '5/', '5:',
            '-/', '0a', 'a0', '+0', '-00a']
    junk = [j for j in junk if all(c in SAFE for c in j)]
    out = [('toInt', s) for s in junk + ['']]
    out += [('toInt', s) for s in ['0', '-0', '00', '-00', '007', '-007', '0012', '2147483647', '-2147483648', '2147483648', '-2147483649',
                                   '4294967296', '4294967295', '-4294967296', '9999999999', '99999999999', '123456789012345',
                                   '-123456789012345', '00000000000000000001', '-00000000002147483648', '1' + '0' * 14]]
    while len(out) < n:
        k = rng.below(20)
        if k < 11:                                              # canonical literal of a 32-bit value
            s = str(rand_i32(rng))
        elif k < 13:                                            # leading zeros
            v = rand_i32(rng)
            s = ('-' if v < 0 else '') + '0' * rng.range(1, 4) + str(abs(v))
        elif k < 15:                                            # numerals beyond 32 bits (exact in a double: <= 15 digits)
            d = rng.range(10, 15)
            s = ('-' if rng.chance(1, 2) else '') + str(rng.range(2147483648, 10 ** d))
        elif k < 18:                                            # a numeral damaged at one place
            s = str(rand_i32(rng))
            p = rng.below(len(s) + 1)
            s = s[:p] + rng.pick(list(' +-.axe/:') + [rng.pick(SAFE)]) + s[p + rng.below(2):]
        else:
            s = rand_str(rng, 6)
        out.append(('toInt', s))
    return out


def gen_round(rng, n):
    return [('round', v) for v in [0, -1, 1, MIN32, MAX32, -MAX32, 10, -10]] + [('round', rand_i32(rng)) for _ in range(n - 8)]


def gen_concat(rng, n):
    out = [('concat', '', ''), ('concat', 'a', ''), ('concat', '', 'b'), ('concat', 'ab', 'cd'), ('concat', '-', '1')]
    while len(out) < n:
        a = str(rand_i32(rng)) if rng.chance(1, 5) else rand_str(rng)
        b = str(rand_i32(rng)) if rng.chance(1, 5) else rand_str(rng)
        out.append(('concat', a, b))
    return out


def gen_streq(rng, n):
    out = [('streq', False, False, '', ''), ('streq', False, True, '', ''), ('streq', False, False, '', 'a'), ('streq', False, False, 'a', ''),
           ('streq', True, False, 'abc', 'abc'), ('streq', True, True, '', '')]
    while len(out) < n:
        a = rand_str(rng)
        k = rng.below(12)
        if k < 3:
            b = a
        elif k < 5 and a:                                       # one position differs (first, last, anywhere)
            p = rng.pick([0, len(a) - 1, rng.below(len(a))])
            c = rng.pick([x for x in SAFE if x != a[p]])
            b = a[:p] + c + a[p + 1:]
        elif k < 7:                                             # proper prefix / extension
            b = a[:rng.below(len(a) + 1)] if rng.chance(1, 2) else a + rng.pick(SAFE)
        elif k < 8:
            b = a.swapcase()
        else:
            b = rand_str(rng)
        ne = rng.chance(1, 3)
        if rng.chance(1, 12):
            out.append(('streq', True, ne, a, a))
        else:
            out.append(('streq', False, ne, a, b))
    return out


def rand_elem(rng, big):
    if big and rng.chance(1, 2):
        return rng.pick([1073741824, -1073741825, MAX32, MIN32, 1073741825, 1610612736, -1610612736, rng.range(1073741824, MAX32),
                         rng.range(MIN32, -1073741825)])
    k = rng.below(6)
    if k == 0:
        return rng.pick([1073741823, -1073741824, 1073741822, -1073741823, 0, 1, -1])
    if k == 1:
        return rng.range(-1073741824, 1073741823)
    return rng.range(-20, 40)


def gen_vec_chunk(rng, nops, big=False):
    """A random operation sequence over up to three vectors; every access is in bounds (lengths tracked here)."""
    ops, lens, vals = [], {}, {}
    def new(slot):
        k = rng.below(3)
        if k == 0:
            ops.append(('vnew', slot, 'empty', None)); lens[slot] = 0
        elif k == 1:
            ops.append(('vnew', slot, 'cap', rng.pick([0, 0, 1, 2, 3, 4, 5, 8, 9, 17, -1, -7, MIN32]))); lens[slot] = 0
        else:
            ops.append(('vnew', slot, 'of', rand_elem(rng, big))); lens[slot] = 1
    new(0)
    new(1)
    while len(ops) < nops:
        slot = rng.pick(sorted(lens))
        n = lens[slot]
        k = rng.below(100)
        if k < 3 and len(lens) < 3:
            new(len(lens))
        elif k < 6:
            new(slot)
        elif k < 38 or n == 0:
            if rng.chance(1, 6):                                # a burst: crosses the capacity-doubling points 4, 8, 16
                for _ in range(rng.range(2, 9)):
                    ops.append(('vpush', slot, rand_elem(rng, big))); lens[slot] += 1
            else:
                ops.append(('vpush', slot, rand_elem(rng, big))); lens[slot] += 1
        elif k < 48:
            ops.append(('vpop', slot)); lens[slot] -= 1
        elif k < 60:
            ops.append(('vset', slot, rng.pick([0, n - 1, rng.below(n)]), rand_elem(rng, big)))
        elif k < 75:
            ops.append(('vget', slot, rng.pick([0, n - 1, rng.below(n)])))
        elif k < 83:
            ops.append(('vlen', slot))
        elif k < 87:
            ops.append(('vreserve', slot, rng.pick([0, 1, n, n + 1, 2 * n + 3, rng.below(40), -1, -5])))
        else:
            other = rng.pick(sorted(lens))
            ops.append(('veq', slot, other))
            if rng.chance(1, 2):
                ops.append(('veq', other, slot))
    return ops


def gen_veq_chunk(rng):
    """Vec.eq on related contents: equal, prefix / longer, one element differs, empty against non-empty, self."""
    ops = []
    base = [rand_elem(rng, False) for _ in range(rng.pick([0, 1, 2, 3, 5, 9]))]
    other = list(base)
    k = rng.below(6)
    if k == 0 and other:
        other[rng.pick([0, len(other) - 1, rng.below(len(other))])] += 1
    elif k == 1:
        other = other[:rng.below(len(other) + 1)]
    elif k == 2:
        other = other + [rand_elem(rng, False) for _ in range(rng.range(1, 3))]
    elif k == 3:
        other = []
    for slot, xs in ((0, base), (1, other)):
        if xs and rng.chance(1, 2):
            ops.append(('vnew', slot, 'of', xs[0]))
            xs = xs[1:]
        else:
            ops.append(('vnew', slot, rng.pick(['empty', 'cap']), rng.below(6)))
        for x in xs:
            ops.append(('vpush', slot, x))
    if rng.chance(1, 3):                                        # same length reached through a pop: stale slot beyond length
        ops += [('vpush', 0, rand_elem(rng, False)), ('vpop', 0)]
    ops += [('veq', 0, 1), ('veq', 1, 0), ('veq', 0, 0), ('vlen', 0), ('vlen', 1)]
    return ops


def gen_trap_modules(rng, tier):
    """Statement lists that end in a documented panic / a trap; each becomes its own entry module."""
    mods = [[('print', 'before'), ('toInt', ''), ('print', 'after')]]
    for msg in ['boom', '', 'a b c !', 'x' * 70]:
        mods.append([('print', 'before'), ('panic', msg), ('print', 'after')])
    def pre(n, kind):
        ops = [('vnew', 0, kind, 3 if kind == 'cap' else (7 if kind == 'of' else None))]
        have = 1 if kind == 'of' else 0
        for i in range(n - have):
            ops.append(('vpush', 0, 10 + i))
        return ops
    for n, kind in [(0, 'empty'), (0, 'cap'), (1, 'of'), (1, 'empty'), (5, 'empty'), (4, 'cap')]:
        # pop until empty, then once more
        mods.append(pre(n, kind) + [('vpop', 0)] * n + [('vlen', 0), ('vpop', 0), ('print', 'after')])
        for i in [-1, n, n + 1, MAX32, MIN32, -n - 1, 1073741824, 4, 8]:
            if 0 <= i < n:
                continue
            if rng.chance(1, 2) or tier != 'quick':
                mods.append(pre(n, kind) + [('vlen', 0), ('vget', 0, i), ('print', 'after')])
            if rng.chance(1, 2) or tier != 'quick':
                mods.append(pre(n, kind) + [('vlen', 0), ('vset', 0, i, 5), ('print', 'after')])
    for c in [-1, MIN32]:                                       # negative capacity: clamped to 0 since fix 043a9a2, the run returns
        mods.append([('print', 'before'), ('vnew', 0, 'cap', c), ('vlen', 0), ('print', 'after')])
    # index just below the capacity but at/after the length: a slot that exists in the backing array
    mods.append([('vnew', 0, 'cap', 8), ('vpush', 0, 1), ('vget', 0, 1), ('print', 'after')])
    mods.append([('vnew', 0, 'cap', 8), ('vpush', 0, 1), ('vset', 0, 3, 9), ('print', 'after')])
    mods.append([('vnew', 0, 'empty', None)] + [('vpush', 0, i) for i in range(5)] + [('vpop', 0), ('vget', 0, 4), ('print', 'after')])
    for _ in range(6 if tier == 'quick' else 30):
        ops = gen_vec_chunk(rng.fork(), rng.range(5, 25))
        slot = 0
        n = 0
        for o in ops:                                           # length of slot 0 at the end
            if o[0] == 'vnew' and o[1] == 0:
                n = 1 if o[2] == 'of' else 0
            elif o[0] == 'vpush' and o[1] == 0:
                n += 1
            elif o[0] == 'vpop' and o[1] == 0:
                n -= 1
        bad = rng.pick([('vget', slot, n), ('vget', slot, -1), ('vset', slot, n, 1), ('vset', slot, n + rng.range(1, 9), 1)])
        mods.append(ops + [bad, ('print', 'after')])
    return mods


def gen_driver(rng, tier):
    """-> (chunks of the main driver [(family, stmts, big)], trap modules)."""
    scale = 1 if tier == 'quick' else 6
    fams = [('fromInt', gen_fromint(rng.fork(), 2300 * scale)), ('toInt', gen_toint(rng.fork(), 2300 * scale)),
            ('round', gen_round(rng.fork(), 400 * scale)), ('concat', gen_concat(rng.fork(), 2100 * scale)),
            ('streq', gen_streq(rng.fork(), 2100 * scale))]
    chunks = []
    for fam, stmts in fams:
        for i in range(0, len(stmts), 50):
            chunks.append((fam, stmts[i:i + 50], False))
    r = rng.fork()
    for i in range(40 * scale):
        chunks.append(('vec', gen_vec_chunk(r.fork(), r.range(30, 60)), False))
    for i in range(60 * scale):
        ch = []
        for _ in range(4):
            ch += gen_veq_chunk(r.fork())
        chunks.append(('vec', ch, False))
    for i in range(6 * scale):
        chunks.append(('vec', gen_vec_chunk(r.fork(), r.range(20, 40), big=True), True))
    return chunks, gen_trap_modules(rng.fork(), tier)


# ------------------------------------------------------------------------------------------------ engines
def run_wasm_jobs(wasm_path, mains, base, timeout_ms=120000):
    """mains: [{'id', 'main'}] entry points of ONE module (engines/run_wasm_multi.js: compiled once, fresh instance per entry)."""
    jf = os.path.join(base, 'wasm_job.json')
    with open(jf, 'w') as f:
        json.dump({'wasm': wasm_path, 'mains': mains}, f)
    try:
        p = subprocess.run(['node', os.path.join(ENG, 'run_wasm_multi.js'), jf, str(timeout_ms)], stdout=subprocess.PIPE,
                           stderr=subprocess.PIPE, text=True, timeout=timeout_ms / 1000 + 60)
    except subprocess.TimeoutExpired:
        return None
    res = {}
    for line in p.stdout.splitlines():
        if line.startswith('{'):
            o = json.loads(line)
            if 'engine' in o:
                return None
            res[o['id']] = {'lines': o['lines'], 'ending': o['ending']}
    return res


def g_ending(o, engine):
    k, d = o['ending']['kind'], o['ending'].get('detail', '')
    if k == 'return':
        return 'ERet'
    if engine == 'wasm':
        if k == 'unreachable':
            return '(ETrap TUnreachable)'
        if k == 'engine-fault' and 'array element access out of bounds' in d:
            return '(ETrap TArrayOOB)'
        if k == 'engine-fault' and 'null' in d:
            return '(ETrap TNullRef)'
        if k == 'engine-fault' and 'requested new array is too large' in d:
            return '(ETrap TAllocTooLarge)'
        if k == 'panic':
            return '(EThrow %s)' % gs(d)
    else:
        if k in ('vec-bounds', 'panic'):
            return '(EThrow %s)' % gs(d)
    return 'EBadDriver'                                          # anything else never equals a prediction of the model


def g_obs(lines, ending):
    return '(%s, %s)' % ('[' + '; '.join(gs(l) for l in lines) + ']', ending)


HEADER = ('From Coq Require Import ZArith NArith List. Import ListNotations.\n'
          'From SV Require Import Common.Int32 C04rt.Model C04rt.Corr.\nOpen Scope Z_scope.\n')


def run_model(cases, tag):
    """cases: list of (stmts, (wasm lines, ending term), (ts lines, ending term)).
    -> ({case index: {'wasm': ([line idx], ok), 'ts': (..)}}, [coqc errors])"""
    nshard = 16
    shards = [[] for _ in range(nshard)]
    for i, c in enumerate(cases):
        shards[i % nshard].append((i, c))
    jobs = []
    for si, sh_ in enumerate(shards):
        if not sh_:
            continue
        terms = ['mkCase [%s] %s %s' % ('; '.join(g_stmt(s) for s in st), g_obs(*ow), g_obs(*ot)) for _, (st, ow, ot) in sh_]
        body = HEADER + 'Definition cases : list case := [\n%s].\n' % ';\n'.join(terms)
        body += 'Eval vm_compute in (flat_fails cases).\n'
        jobs.append(('c04rt_%s_%d' % (tag, si), body))
    outs = coq_eval_many(jobs)
    fails, errors = {}, []
    ji = 0
    for si, sh_ in enumerate(shards):
        if not sh_:
            continue
        rc, out = outs[ji]
        ji += 1
        res = coq_result(out) if rc == 0 else None
        if res is None:
            errors.append(out[-1500:])
            continue
        nums = [int(x) for x in re.findall(r'\d+', res.replace('%N', ''))]
        p = 0
        while p < len(nums):
            idx = nums[p]; nw = nums[p + 1]; lw = nums[p + 2:p + 2 + nw]; okw = nums[p + 2 + nw]
            p += 3 + nw
            nt = nums[p]; lt = nums[p + 1:p + 1 + nt]; okt = nums[p + 1 + nt]
            p += 2 + nt
            fails[sh_[idx][0]] = {'wasm': (lw, bool(okw)), 'ts': (lt, bool(okt))}
    return fails, errors


def model_predict(stmts):
    rc, out = coq_eval('c04rt_predict', HEADER + 'Eval vm_compute in (predict [%s]).\n' % '; '.join(g_stmt(s) for s in stmts))
    return (coq_result(out) or out[-600:]).replace('%N', '')


# ------------------------------------------------------------------------------------------------ classification
def klass_of(stmt, chunk_big):
    """The class of a difference BETWEEN THE ENGINES on this statement; None = a new failure of the property."""
    if stmt[0].startswith('v') and chunk_big:
        return K_VEC31
    return None


def replay_fixed_witnesses(ck, base):
    """The witnesses of the repaired runtime-library findings: compile, run on both engines, compare."""
    ids = [k for k in FIXED_WITNESSES if any(x['id'] == k for x in ck.known)]
    if not ids:
        return
    srcs = {}
    for n, kid in enumerate(ids):
        srcs['W%d' % n] = open(os.path.join(ROOT, FIXED_WITNESSES[kid])).read()
    out = os.path.join(base, 'witnesses')
    rec = run_jobs([{'id': 0, 'sources': srcs, 'entries': sorted(srcs), 'compile': True, 'out_dir': out, 'with_std': False}])[0]
    if rec['compile'] != 'ok':
        for kid in ids:
            ck.known_witness(kid, True, 'witness no longer compiles: %s' % rec['compile'])
        return
    w = run_wasm_jobs(os.path.join(out, '__all__.wasm'), [{'id': n, 'main': '_W%d_Main$main' % n} for n in range(len(ids))], out)
    if w is None:
        return
    for n, kid in enumerate(ids):
        t = _ts_run(os.path.join(out, 'W%d.ts' % n), 20000)
        d = trap_difference(w[n], t)
        ck.known_witness(kid, d is not None, d or 'back ends agree: wasm %s / ts %s' % (w[n]['lines'][:6], t['lines'][:6]))
        ck.count('fixed witnesses replayed')


# ------------------------------------------------------------------------------------------------ the check
def rt(ck, tier, seed):
    t0 = time.time()
    ck.trusted += [
        'C04rt: coq/theories/C04rt/Model.v is HAND-WRITTEN from libsam.wat (instruction by instruction over Common/Int32) and from '
        'ts_prolog (statement by statement); tie = text hashes of every modelled function (stale-model guard) + differential run '
        'of every built-in through the real compiler, Chrome (wasm) and node (TS) against vm_compute of the model on every check',
        'C04rt: the JavaScript fragment used by the prolog is written down from ECMA-262 and trusted: js_String (Number::toString '
        'on integers, -0, NaN), js_parseInt10 (parseInt(s, 10); exact below 2^53), string + and ===, array length/push/pop/index',
        'C04rt: WebAssembly instruction meanings (i32 ops over Common/Int32, packed i8 arrays: array.set keeps 8 bits, array.get_s '
        'sign-extends, out-of-range index traps), array lengths below 2^31; loader.js gcArrayToString as String.fromCharCode of get_s',
    ]
    t_props = t0
    if not os.environ.get('C04RT_SKIP_PROPS'):                   # development only: the tie without the Coq build
        check_props(ck, 'theories/C04rt/Props.v', extra_deps=['theories/C17'])
    t_props = time.time()
    rng = Rng(seed ^ 0xC04A7)
    chunks, traps = gen_driver(rng, tier)
    base = os.path.join(WORK, 'c04rt_run')
    shutil.rmtree(base, ignore_errors=True)
    os.makedirs(base, exist_ok=True)
    sources = {'Drv': module_text([c[1] for c in chunks])}
    for i, m in enumerate(traps):
        sources['T%d' % i] = module_text([m])
    entries = ['Drv'] + ['T%d' % i for i in range(len(traps))]
    try:
        rec = run_jobs([{'id': 0, 'sources': sources, 'entries': entries, 'compile': True, 'out_dir': base, 'with_std': False}])[0]
    except Exception as e:      # noqa
        ck.obligation('C04rt driver compiled by the real compiler', False, str(e)[:300])
        return
    if rec['compile'] != 'ok':
        ck.obligation('C04rt driver compiled by the real compiler', False,
                      'compile=%s errors=%s' % (rec['compile'], json.dumps(rec['errors'])[:400]))
        return
    ck.obligation('C04rt driver compiled by the real compiler', True,
                  '%d chunks, %d trap modules, %d bytes of source' % (len(chunks), len(traps), sum(len(v) for v in sources.values())))
    t_comp = time.time()

    # ---- structural guard
    ts_text = open(os.path.join(base, 'Drv.ts')).read()
    wat_text = open(os.path.join(base, '__all__.wat')).read()
    texts = implementation_texts(ts_text, wat_text)
    for name in sorted(texts):
        got = _h(texts[name])
        want = MODEL_HASHES.get(name)
        if not texts[name] or texts[name].startswith('NOT-IN-EMITTED-WAT'):
            ck.obligation('model of %s is current' % name, False, 'text of %s not found in the implementation / emitted code' % name)
        elif want != got:
            ck.obligation('model of %s is current' % name, False,
                          'model of %s is stale: the implementation text changed (hash %s, model written from %s)' % (name, got, want))
        else:
            ck.obligation('model of %s is current' % name, True, got)
    for what, ok in sorted(call_site_shapes(ts_text, wat_text).items()):
        ck.obligation('call-site shape: ' + what, ok, '' if ok else 'shape not found in the emitted driver: the model of the call site is stale')

    # ---- engines
    jobs = [{'id': 0, 'main': '_Drv_Main$main'}] + [{'id': i + 1, 'main': '_T%d_Main$main' % i} for i in range(len(traps))]
    with concurrent.futures.ThreadPoolExecutor(max_workers=12) as ex:
        wf = ex.submit(run_wasm_jobs, os.path.join(base, '__all__.wasm'), jobs, base)
        tf = [ex.submit(_ts_run, os.path.join(base, e + '.ts'), 60000) for e in entries]
        ts_out = [f.result() for f in tf]
        wasm_out = wf.result()
    t_eng = time.time()
    if wasm_out is None or any(i not in wasm_out for i in range(len(jobs))):
        ck.notes.append('C04rt: WebAssembly engine unavailable: the differential run of the runtime library was skipped')
        return

    # ---- cases: the chunks of the main driver (transcripts cut by the number of printing statements) + the trap modules
    cases, meta = [], []            # meta: (kind, index, stmts, big, wasm lines, ts lines)
    def cut(out, engine):
        lines, pos, parts = out['lines'], 0, []
        for fam, stmts, big in chunks:
            n = sum(1 for s in stmts if s[0] in PRINTING)
            part = lines[pos:pos + n]
            pos += n
            parts.append((part, 'ERet' if len(part) == n else g_ending(out, engine)))
        return parts, pos == len(lines) and out['ending']['kind'] == 'return'
    wparts, wfull = cut(wasm_out[0], 'wasm')
    tparts, tfull = cut(ts_out[0], 'ts')
    for eng, full, out in (('wasm', wfull, wasm_out[0]), ('ts', tfull, ts_out[0])):
        if not full:
            ck.disagree(TABLE, {'driver': 'Drv', 'engine': eng}, 'every chunk runs to its end and main returns',
                        {'lines': len(out['lines']), 'ending': out['ending']}, how='work/c04rt_run/Drv.sam')
    for ci, (fam, stmts, big) in enumerate(chunks):
        cases.append((stmts, wparts[ci], tparts[ci]))
        meta.append(('chunk', ci, stmts, big, wparts[ci][0], tparts[ci][0], fam))
    for i, m in enumerate(traps):
        cases.append((m, (wasm_out[i + 1]['lines'], g_ending(wasm_out[i + 1], 'wasm')), (ts_out[i + 1]['lines'], g_ending(ts_out[i + 1], 'ts'))))
        meta.append(('trap', i, m, False, wasm_out[i + 1], ts_out[i + 1], 'trap'))
    fails, errors = run_model(cases, 'run')
    t_model = time.time()
    for e in errors:
        ck.obligation('C04rt model evaluation (coqc, vm_compute)', False, e[-400:])
    if not errors:
        ck.obligation('C04rt model evaluation (coqc, vm_compute)', True, '%d cases in 16 shards' % len(cases))

    # ---- model vs implementation
    ndis = 0
    for idx in sorted(fails):
        kind, i, stmts, big, wo, to, fam = meta[idx]
        printing = [s for s in stmts if s[0] in PRINTING]
        for eng in ('wasm', 'ts'):
            bad, ok = fails[idx][eng]
            if not bad and ok:
                continue
            ndis += 1
            if ndis > 12:
                continue
            if bad and kind == 'chunk':
                st = printing[bad[0]]
                j = stmts.index(st)
                pre = [s for s in stmts[:j] if s[0].startswith('v')] if st[0].startswith('v') else []
                obs = (wo if eng == 'wasm' else to)[bad[0]]
                ck.disagree(TABLE, {'engine': eng, 'call': list(st), 'after': [list(s) for s in pre], 'program': standalone(pre + [st])},
                            model_predict(pre + [st]), {'printed': obs}, how='Eval vm_compute in (predict [...]) with C04rt/Corr.v')
            else:
                o = wo if kind == 'trap' else {'lines': wo}
                o2 = to if kind == 'trap' else {'lines': to}
                ck.disagree(TABLE, {'engine': eng, 'statements': [list(s) for s in stmts], 'program': standalone(stmts)},
                            model_predict(stmts), o if eng == 'wasm' else o2, how='Eval vm_compute in (predict [...]) with C04rt/Corr.v')
    if ndis > 12:
        ck.notes.append('C04rt: %d model/implementation disagreements, first 12 recorded' % ndis)

    # ---- the property on the implementation: the two engines against each other
    found = []                      # (klass, what, input, expected, observed): failures outside every class are reported first
    for kind, i, stmts, big, wo, to, fam in meta:
        if kind == 'chunk':
            printing = [s for s in stmts if s[0] in PRINTING]
            for st in stmts:
                f = FAMILY.get(st[0], 'Vec')
                ck.count('calls:' + f)
                ck.case(['rt', list(st)], True)
            for j, st in enumerate(printing):
                ck.count('calls:Process.println')
                if j >= len(wo) or j >= len(to) or wo[j] == to[j]:
                    continue
                kl = klass_of(st, big)
                k = stmts.index(st)
                pre = [s for s in stmts[:k] if s[0].startswith('v')] if st[0].startswith('v') else []
                ck.count('engines differ [%s]' % (kl or 'NEW'))
                found.append((kl, 'runtime library: the back ends print different lines for %s' % (list(st),), pre + [st],
                              {'wasm': wo[j]}, {'ts': to[j]}))
        else:
            ck.count('trap modules')
            ck.case(['rt-trap', [list(s) for s in stmts]], True)
            d = trap_difference(wo, to)
            if d is None:
                continue
            kl = None
            ck.count('engines differ [%s]' % (kl or 'NEW'))
            found.append((kl, 'runtime library: the back ends end differently: ' + d, stmts, {'wasm': wo}, {'ts': to}))
    for kl, what, stmts, exp, obs in sorted(found, key=lambda f: f[0] is not None):
        ck.property_failure(what, standalone(stmts), expected=exp, observed=obs, how='./check C04 --replay <this file>', klass=kl)
    replay_fixed_witnesses(ck, base)
    ck.extra_cov['c04rt'] = {'chunks': len(chunks), 'trap_modules': len(traps), 'model_cases': len(cases),
                             'seconds': {'props': round(t_props - t0, 1), 'compile': round(t_comp - t_props, 1), 'engines': round(t_eng - t_comp, 1),
                                         'model': round(t_model - t_eng, 1)}}
    ck.sample({'c04rt': {'call': list(meta[0][2][0]), 'wasm': meta[0][4][:1], 'ts': meta[0][5][:1]}})


def trap_difference(w, t):
    """Both engines on one trap module: every panic is compared by message."""
    if w['lines'] != t['lines']:
        return 'printed lines differ: %r vs %r' % (w['lines'][-2:], t['lines'][-2:])
    kw, kt = w['ending']['kind'], t['ending']['kind']
    if kt == 'vec-bounds':
        kt = 'panic'          # the TypeScript runner labels the two documented Vec messages; they are ordinary panics
    if kw == kt == 'panic':
        return None if w['ending']['detail'] == t['ending']['detail'] else 'panic messages differ'
    if kw == kt == 'return':
        return None
    return 'endings differ: %s vs %s' % (w['ending'], t['ending'])


def run(tier, seed, replay=None):
    """Standalone: same as the call from checks/c04.py; evidence and replay files go under /verif/work/c04rt_standalone/
    (/verif/evidence and /verif/replay are reserved for the property ids)."""
    import lib.vlib as V
    ck = Check('C04rt', tier, seed, level='proof')
    kf = json.load(open(os.path.join(ROOT, 'known_findings.json')))
    ck.known = [k for k in kf['findings'] if k['property'] == 'C04']
    ck.checker_cmd = 'make -C /verif/coq theories/C04rt/Props.vo + Print Assumptions; python3 -m checks.c04_rt'
    ck.rule = ('one generated driver per run: every built-in of the runtime library on boundary and random arguments; distinct = '
               'distinct call; non-trivial = the call ran on both engines and was evaluated in the model')
    rt(ck, tier, seed)
    old = V.OUT_ROOT
    V.OUT_ROOT = os.path.join(V.WORK, 'c04rt_standalone')
    try:
        return ck.finish()
    finally:
        V.OUT_ROOT = old


if __name__ == '__main__':
    if '--print-hashes' in sys.argv:
        b = os.path.join(WORK, 'c04rt_hash')
        src = {'Drv': module_text([[('fromInt', 1)]])}
        run_jobs([{'id': 0, 'sources': src, 'entries': ['Drv'], 'compile': True, 'out_dir': b, 'with_std': False}])
        tx = implementation_texts(open(os.path.join(b, 'Drv.ts')).read(), open(os.path.join(b, '__all__.wat')).read())
        print('MODEL_HASHES = {')
        for k in sorted(tx):
            print('    %r: %r,' % (k, _h(tx[k])))
        print('}')
        sys.exit(0)
    tier = sys.argv[sys.argv.index('--tier') + 1] if '--tier' in sys.argv else 'quick'
    seed = int(os.environ.get('VERIF_SEED', '1'))
    sys.exit(run(tier, seed))
