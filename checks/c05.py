"""C05 — any input text yields a result or diagnostics, never a crash or a hang (DESIGN.md section 4, C05).

Layer A: coq/theories/C05 (scanners in bounds, progress, fuel, escape rule).
Layer B: Coq model of the lexer vs `vh lex-run lex` (samlang_parser::verif::lex) on random text, scanner
         soups, token soups and mutated samples: kinds, positions, bytes and lexer diagnostics must agree.
Layer C: crash / hang / abort monitor over parse -> check -> render -> format -> compile (`vh lex-run monitor`),
         plus the "syntax error reported whenever tokens were skipped or invented" oracle.
"""
import json
import os
import re

from gen import texts
from gen.rng import Rng
from lib.vlib import Check, check_props, coq_make, coq_eval, coq_eval_many, coq_result, vh, NCPU

PID = 'C05'
CORPUS = '/verif/corpus/C05'

KIND = {'keyword': 0, 'operator': 1, 'upper-id': 2, 'lower-id': 3, 'string': 4, 'int': 5,
        'line-comment': 6, 'block-comment': 7, 'doc-comment': 8, 'error': 9}
ERR = {'Invalid escape in string.': 0, 'Invalid token.': 1, 'Not a 32-bit integer.': 2}

HEADER = ('From Coq Require Import List NArith String. Import ListNotations.\n'
          'From SV Require Import C05.Model C05.Corr.\nOpen Scope string_scope.\nOpen Scope N_scope.\n')


# ----------------------------------------------------------------------------- layer B helpers

def g_bytes(b):
    return '(hx "%s")' % bytes(b).hex()


def line_starts(b):
    out = [0]
    for i, x in enumerate(b):
        if x == 10:
            out.append(i + 1)
    return out


def byte_offset(starts, n, line, col):
    if line >= len(starts):
        return None
    o = starts[line] + col
    end = starts[line + 1] - 1 if line + 1 < len(starts) else n
    return o if o <= end else None


def impl_views(text, res):
    """(token views, error views) of the implementation as Gallina, or None if not representable."""
    b = text.encode('utf-8')
    starts = line_starts(b)
    toks = []
    for k, sl, sc, el, ec, s in res['tokens']:
        if k.endswith('comment'):
            a, z = byte_offset(starts, len(b), sl, sc), byte_offset(starts, len(b), el, ec)
            raw = b[a:z] if a is not None and z is not None and a <= z else b'\xff<location outside the text>'
        elif k == 'error':
            raw = s[len('ERROR: '):].encode('utf-8')
        else:
            raw = s.encode('utf-8')
        toks.append('(%d, (%d, %d, %d, %d), %s)' % (KIND[k], sl, sc, el, ec, g_bytes(raw)))
    errs = []
    for sl, sc, el, ec, msg in res['errors']:
        errs.append('(%d, (%d, %d, %d, %d))' % (ERR.get(msg, 99), sl, sc, el, ec))
    return '[' + '; '.join(toks) + ']', '[' + '; '.join(errs) + ']'


def lex_impl(items):
    """items: [text] -> [result dict]"""
    inp = '\n'.join(json.dumps({'id': i, 'text': t}) for i, t in enumerate(items)) + '\n'
    rc, out = vh(['lex-run', 'lex'], input=inp, timeout=900)
    res = {}
    for l in out.split('\n'):
        if l.startswith('{'):
            v = json.loads(l)
            res[v['id']] = v
    return [res.get(i) for i in range(len(items))], rc


def case_gallina(text, res):
    tv, ev = impl_views(text, res)
    return '(%s, %s, %s)' % (g_bytes(text.encode('utf-8')), tv, ev)


def run_model_vm(items, results, tag, idxs_all):
    """The model inside coqc (vm_compute).  -> ({index: (code, k)}, [error text])"""
    nshard = NCPU
    shards = [[] for _ in range(nshard)]
    for n, i in enumerate(idxs_all):
        shards[n % nshard].append(i)
    jobs = []
    for si, idxs in enumerate(shards):
        if not idxs:
            continue
        cases = [case_gallina(items[i], results[i]) for i in idxs]
        body = HEADER + 'Definition cases : list (list N * list view * list errview) :=\n [%s].\n' % ';\n  '.join(cases)
        body += 'Eval vm_compute in (fails 0 cases).\n'
        jobs.append(('c05_%s_%d' % (tag, si), body))
    outs = coq_eval_many(jobs)
    fails, errors = {}, []
    ji = 0
    for si, idxs in enumerate(shards):
        if not idxs:
            continue
        rc, out = outs[ji]
        ji += 1
        res = coq_result(out) if rc == 0 else None
        if res is None:
            errors.append(out[-1500:])
            continue
        for a, c, k in re.findall(r'\((\d+), \((\d+), (\d+)\)\)', res):
            fails[idxs[int(a)]] = (int(c), int(k))
    return fails, errors


DRIVER_ML = r"""
(* driver for the extracted C05 model: reads cases, prints "<index> <code> <k>" per case *)
open C05_model
let rec pos_of_int n = if n = 1 then XH else if n land 1 = 0 then XO (pos_of_int (n lsr 1)) else XI (pos_of_int (n lsr 1))
let n_of_int n = if n = 0 then N0 else Npos (pos_of_int n)
let rec int_of_pos = function XH -> 1 | XO p -> 2 * int_of_pos p | XI p -> 2 * int_of_pos p + 1
let int_of_n = function N0 -> 0 | Npos p -> int_of_pos p
let hexv c = if c <= '9' then Char.code c - 48 else Char.code c - 87
let bytes_of_hex s =
  let l = String.length s / 2 in
  List.init l (fun i -> n_of_int (16 * hexv s.[2 * i] + hexv s.[2 * i + 1]))
let () =
  let input = ref [] and toks = ref [] and errs = ref [] and idx = ref 0 in
  (try
    while true do
      let line = input_line stdin in
      match String.split_on_char ' ' line with
      | ["C"; i; h] -> idx := int_of_string i; input := bytes_of_hex h; toks := []; errs := []
      | ["T"; k; a; b; c; d; h] ->
        let f x = n_of_int (int_of_string x) in
        toks := ((f k, (((f a, f b), f c), f d)), bytes_of_hex h) :: !toks
      | ["E"; k; a; b; c; d] ->
        let f x = n_of_int (int_of_string x) in
        errs := (f k, (((f a, f b), f c), f d)) :: !errs
      | ["."] ->
        let (c, k) = check_case ((!input, List.rev !toks), List.rev !errs) in
        Printf.printf "%d %d %d\n" !idx (int_of_n c) (int_of_n k)
      | _ -> ()
    done
  with End_of_file -> ())
"""

_extracted = {}


def build_extracted():
    """Extract C05.Corr.check_case to OCaml (ExtrOcamlBasic only) and build a native driver."""
    if 'bin' in _extracted:
        return _extracted['bin']
    from lib.vlib import sh
    d = '/verif/work/c05x'
    os.makedirs(d, exist_ok=True)
    with open(os.path.join(d, 'ex.v'), 'w') as f:
        f.write('From Coq Require Import Extraction ExtrOcamlBasic.\nFrom SV Require Import C05.Model C05.Corr.\n'
                'Extraction Language OCaml.\nExtraction "c05_model.ml" check_case model_view.\n')
    with open(os.path.join(d, 'driver.ml'), 'w') as f:
        f.write(DRIVER_ML)
    rc, out = sh(['coqc', '-noglob', '-Q', '/verif/coq/theories', 'SV', 'ex.v'], cwd=d, timeout=300)
    if rc == 0:
        rc, out2 = sh('ocamlfind ocamlopt -O2 -w -a c05_model.mli c05_model.ml driver.ml -o c05_driver 2>&1 || '
                      'ocamlfind ocamlopt -w -a c05_model.mli c05_model.ml driver.ml -o c05_driver', cwd=d, timeout=300)
        out += out2
    _extracted['bin'] = (os.path.join(d, 'c05_driver') if rc == 0 else None, out)
    return _extracted['bin']


def case_lines(i, text, res):
    b = text.encode('utf-8')
    starts = line_starts(b)
    out = ['C %d %s' % (i, b.hex())]
    for k, sl, sc, el, ec, s in res['tokens']:
        if k.endswith('comment'):
            a, z = byte_offset(starts, len(b), sl, sc), byte_offset(starts, len(b), el, ec)
            raw = b[a:z] if a is not None and z is not None and a <= z else b'\xff'
        elif k == 'error':
            raw = s[len('ERROR: '):].encode('utf-8')
        else:
            raw = s.encode('utf-8')
        out.append('T %d %d %d %d %d %s' % (KIND[k], sl, sc, el, ec, raw.hex()))
    for sl, sc, el, ec, msg in res['errors']:
        out.append('E %d %d %d %d %d' % (ERR.get(msg, 99), sl, sc, el, ec))
    out.append('.')
    return out


def run_model(items, results, tag, vm_sample=200):
    """Model vs implementation.  Bulk: the extracted model (native); a sample of small cases also inside
    coqc with vm_compute (so the extraction is cross-checked).  -> ({index: (code, k)}, [error text])"""
    import subprocess
    idxs = [i for i, r in enumerate(results) if r is not None and r['panic'] is None]
    fails, errors = {}, []
    binp, log = build_extracted()
    if binp is None:
        errors.append('extraction/ocamlopt failed: ' + log[-800:])
    else:
        nshard = min(NCPU, max(1, len(idxs) // 50 + 1))
        procs = []
        for si in range(nshard):
            lines = []
            for i in idxs[si::nshard]:
                lines += case_lines(i, items[i], results[i])
            procs.append(subprocess.Popen([binp], stdin=subprocess.PIPE, stdout=subprocess.PIPE, stderr=subprocess.PIPE, text=True))
            procs[-1]._payload = '\n'.join(lines) + '\n'
        import concurrent.futures
        with concurrent.futures.ThreadPoolExecutor(max_workers=nshard) as ex:
            outs = list(ex.map(lambda p: p.communicate(p._payload, timeout=1200), procs))
        seen = 0
        for p, (o, e) in zip(procs, outs):
            if p.returncode != 0:
                errors.append('extracted model driver failed: ' + (e or '')[-500:])
            for l in o.split('\n'):
                f = l.split()
                if len(f) == 3:
                    seen += 1
                    if f[1] != '0':
                        fails[int(f[0])] = (int(f[1]), int(f[2]))
        if seen != len(idxs):
            errors.append('extracted model answered %d of %d cases' % (seen, len(idxs)))
    # cross-check inside coqc on the smallest cases
    small = sorted(idxs, key=lambda i: (len(items[i]), i))[:vm_sample] + sorted(fails)[:20]
    small = sorted(set(small))
    vfails, verrs = run_model_vm(items, results, tag, small)
    errors += verrs
    for i in small:
        if (i in vfails) != (i in fails) and binp is not None:
            errors.append('extracted model and vm_compute disagree on case %d: %s vs %s' % (i, fails.get(i), vfails.get(i)))
    if binp is None:
        fails = vfails
    return fails, errors


def model_view(text):
    body = HEADER + 'Eval vm_compute in (model_view %s).\n' % g_bytes(text.encode('utf-8'))
    rc, out = coq_eval('c05_view', body)
    return coq_result(out) if rc == 0 else out[-600:]


WHY = {1: 'model: out-of-bounds access (Oob)', 2: 'model: out of fuel', 3: 'token streams differ at index', 4: 'lexer diagnostics differ'}


# ----------------------------------------------------------------------------- input streams

def layer_b_inputs(rng, n):
    samples = texts.sample_files()
    out = []
    for i in range(n):
        m = i % 5
        if m == 0:
            out.append(('random', texts.random_text(rng, 100)))
        elif m == 1:
            out.append(('scanner-soup', texts.scanner_soup(rng, 50)))
        elif m == 2:
            out.append(('token-soup', texts.token_soup(rng, 25)))
        else:
            name, text = rng.pick(samples)
            mut = texts.token_mutant(rng, text) if m == 3 else texts.tree_mutant(rng, text)
            # a window of the mutant keeps the Coq terms small
            if len(mut) > 700:
                a = rng.below(len(mut) - 600)
                mut = mut[a:a + 600]
            out.append(('token-mutant' if m == 3 else 'tree-mutant', mut))
    return out


def monitor_inputs(rng, n_per_stream, tier):
    samples = texts.sample_files()
    stdlib = dict(samples).get('tests/StdLib.sam', '')
    jobs = []
    for i in range(n_per_stream):
        jobs.append(('random', {'Main': texts.random_text(rng, 200)}))
        jobs.append(('random', {'Main': texts.scanner_soup(rng, 80)}))
        jobs.append(('token-soup', {'Main': texts.token_soup(rng, 60)}))
        name, text = rng.pick(samples)
        jobs.append(('mutant', {'Main': texts.token_mutant(rng, text), 'tests.StdLib': stdlib}))
        name, text = rng.pick(samples)
        jobs.append(('mutant', {'Main': texts.tree_mutant(rng, text), 'tests.StdLib': stdlib}))
        # syntactically valid, ill-typed: a pattern that cannot be checked and later uses of its names
        jobs.append(('ill-typed', {'Main': texts.bad_pattern_program(rng)}))
        if i % 4 == 0:
            # a single type fault in a generated well-typed program, laid out with multi-byte characters and line breaks everywhere
            from gen import faults
            fr = rng.fork()
            fp = faults.fault_base(fr, i)
            ms = faults.all_faults(fp['sources']['Main'], 'generated')
            if ms:
                m = fr.pick(ms)
                laid = texts.hostile_layout(fr, m['text'], 'unicode')
                if laid:
                    jobs.append(('ill-typed', dict(fp['sources'], Main=laid)))
        if i % 10 == 0:      # several modules at once
            a, b = rng.pick(samples), rng.pick(samples)
            jobs.append(('multi-module', {'A': texts.token_mutant(rng, a[1]), 'B': texts.tree_mutant(rng, b[1]),
                                          'C': texts.token_soup(rng, 30)}))
    return jobs


# nesting kinds the parser handles by recursive descent (chains built iteratively - binary operators, calls, field accesses,
# concatenation, else-if - have no limit)
RECURSIVE_KINDS = {'paren', 'block', 'ifelse', 'lambda', 'unary-not', 'unary-neg', 'generic', 'tuple', 'match', 'fn-type', 'tuple-pattern'}


def recovered_inputs():
    return [('ill-typed', {'Main': t}) for t in texts.recovered_name_programs()]


def nesting_inputs(tier):
    """22 nesting shapes up to depth / chain length 2000 (the bound of this check); beyond the parser's
    nesting limit (200) nested shapes must be rejected with a diagnostic, below it they must go through every
    stage.  Chains that the parser builds iteratively (calls, field accesses, binary operators, else-if) are
    not limited by the parser: they are exercised up to 2000 elements (measured stack limits of the later
    stages at 8 MiB: 2 400 .. 7 000 elements, reported as findings beyond the bound)."""
    depths = [10, 100, 190, 400, 2000] if tier == 'quick' else [10, 20, 50, 100, 150, 190, 199, 200, 201, 250, 400, 800, 1000, 1500, 2000]
    jobs = []
    for k in texts.NEST_KINDS:
        for d in depths:
            jobs.append(('nesting:%s:%d' % (k, d), {'Main': texts.deep_nesting(k, d)}))
    return jobs


def run_monitor(jobs, timeout=1500):
    """jobs: [(stream, {mod: text})] -> [result or None]"""
    # mutants of the samples are checked together with std/ (and tests/StdLib.sam, see monitor_inputs) so that
    # type checking and compilation go beyond "cannot resolve module"
    inp = '\n'.join(json.dumps({'id': i, 'sources': src, 'with_std': stream in ('mutant', 'multi-module', 'ill-typed') or stream.startswith('corpus:')})
                    for i, (stream, src) in enumerate(jobs)) + '\n'
    rc, out = vh(['lex-run', 'monitor', str(NCPU)], input=inp, timeout=timeout)
    res = {}
    for l in out.split('\n'):
        if l.startswith('{'):
            try:
                v = json.loads(l)
            except ValueError:
                continue
            res[v['id']] = v
    return [res.get(i) for i in range(len(jobs))], rc, out


def classify(stream, v):
    """Known-finding class id of a monitor failure, or None.  One class is open (exponential type checking: two corpus
    witnesses, recognised by their stream name); apart from it no class of C05 is open: the four
    findings of this check (empty doc comment, unbound type parameter in the checker, exponential if/else
    formatting, unbounded parser recursion) are repaired; their witnesses are in corpus/C05 and run first, and
    every panic, hang or abort is a violation."""
    if stream in ('corpus:013-nested-generic-calls.sam', 'corpus:014-diamond-interfaces.sam') and v.get('outcome') == 'hang':
        return 'C05-exponential-type-checking'
    return None




def oracle_excluded(src, o):
    """Exclusions of the skipped/invented-token oracle: none at present.  (Two classes were excluded while the
    defects behind them were open: the literal 2147483648 read as 0, and string literals with escaped quotes
    printed unescaped; both are repaired, so such a difference is a failure again.)"""
    return None


# ----------------------------------------------------------------------------- the check

def run(tier, seed, replay=None):
    ck = Check(PID, tier, seed, level='proof (partial)')
    ck.checker_cmd = 'make -C /verif/coq theories/C05/Props.vo (coqc 8.16.1, full .vo build) + Print Assumptions per theorem'
    ck.trusted = [
        'Coq 8.16.1 kernel; vm_compute for the model side of layer B and the Examples',
        'hand-written model coq/theories/C05/Model.v of the hand-written scanners of crates/samlang-parser/src/lexer.rs '
        '(skip_whitespace, lex_str_lit_opt, lex_line_comment_opt, lex_block_comment_opt, position bookkeeping, error-token '
        'arm, string_has_valid_escape, TokenProducer); tied to the code by differential execution through samlang_parser::verif::lex',
        'NOT modelled from code: the logos-generated DFA (keywords, operators, identifiers, integers); Model.lex_simple is a '
        'maximal-munch specification of it, tied by the same differential runs only',
        'JSON -> Gallina translation in checks/c05.py; comment tokens are compared by kind, location and the input slice at '
        'that location (their post-processed text is not modelled)',
        'layer C is testing: parser, checker, printer, compiler totality is monitored, not proved',
    ]
    ck.assumptions = ['inputs shorter than 2^32 bytes and lines (u32 counters do not wrap)']
    check_props(ck, 'theories/C05/Props.v')
    rc_, out_ = coq_make(['theories/C05/Corr.vo'])
    if rc_ != 0:
        ck.obligation('build-Corr.vo', False, out_[-600:])
    rng = Rng(seed)

    # ---- corpus (minimised witnesses of earlier findings; a fixed finding must stay fixed)
    corpus = []
    if os.path.isdir(CORPUS):
        for fn in sorted(os.listdir(CORPUS)):
            if fn.endswith('.sam'):
                corpus.append((fn, open(os.path.join(CORPUS, fn), encoding='utf-8').read()))
    if replay:
        rj = json.load(open(replay))
        inp = rj.get('input')
        if isinstance(inp, dict) and 'sources' in inp:
            corpus = [('replay', t) for t in inp['sources'].values()]
        elif isinstance(inp, dict) and 'text' in inp:
            corpus = [('replay', inp['text'])]

    # ---- layer B
    nb = 0 if replay else (4000 if tier == 'quick' else 20000)
    binputs = [('corpus:' + n, t) for n, t in corpus] + layer_b_inputs(rng.fork(), nb)
    items = [t for _, t in binputs]
    results, rc = lex_impl(items)
    if rc != 0:
        ck.obligation('harness-lex-run', False, 'vh lex-run lex exited with %s' % rc)
    for (stream, t), r in zip(binputs, results):
        ck.count('B:' + stream.split(':')[0])
        if r is None:
            ck.property_failure('lexer hook produced no result (process died?)', {'text': t})
            continue
        nontrivial = any(k[0] in ('string', 'line-comment', 'block-comment', 'doc-comment', 'int', 'error') for k in r['tokens'])
        ck.case(['B', t], nontrivial)
        for k in r['tokens']:
            ck.count('B-token:' + k[0])
        if r['panic'] is not None:
            ck.property_failure('the lexer panicked: ' + r['panic'], {'text': t}, expected='tokens or diagnostics',
                                observed='panic: ' + r['panic'], how='echo {"id":0,"text":...} | vh lex-run lex')
    fails, errors = run_model(items, results, 'r' if replay else 'g')
    for e in errors:
        ck.obligation('model-evaluation', False, e)
    for idx in sorted(fails)[:3]:
        code, k = fails[idx]
        ck.disagree('C05.lex (model) vs samlang_parser lexer (implementation)',
                    {'text': items[idx], 'why': WHY.get(code, code), 'index': k},
                    model_view(items[idx]), {'tokens': results[idx]['tokens'][max(0, k - 1):k + 2], 'errors': results[idx]['errors'][:5]})
    for idx in sorted(fails)[3:]:
        ck.corr_fail.append({'correspondence': 'C05.lex', 'input': {'text': items[idx]}, 'model': None, 'implementation': None, 'how': ''})
    ck.extra_cov['lexer_inputs_validated_against_model'] = sum(1 for r in results if r and r['panic'] is None) - len(fails)

    # ---- layer C
    n_stream = 0 if replay else (3000 if tier == 'quick' else 60000)
    jobs = [('corpus:' + n, {'Main': t}) for n, t in corpus]
    jobs += monitor_inputs(rng.fork(), n_stream // 5 if n_stream else 0, tier)
    if not replay:
        jobs += nesting_inputs(tier)
        jobs += recovered_inputs()
    mres, rc, raw = run_monitor(jobs, timeout=2400)
    if rc != 0:
        ck.obligation('harness-monitor', False, 'vh lex-run monitor exited with %s: %s' % (rc, raw[-300:]))
    # registered findings whose witness is one of the corpus files: replayed through known_witness
    failed_streams = {stream for (stream, _), v in zip(jobs, mres) if v is None or v['outcome'] != 'ok' or v.get('oracle')}
    for k in ck.known:
        w = os.path.basename(str(k.get('witness', '')))
        if w.endswith('.sam') and os.path.exists(os.path.join(CORPUS, w)):
            ck.known_witness(k['id'], ('corpus:' + w) in failed_streams, 'replayed %s through vh lex-run monitor' % w)
    excl = {}
    slowest = (0, None)
    for (stream, src), v in zip(jobs, mres):
        if v is not None and v.get('ms', 0) > slowest[0]:
            slowest = (v.get('ms', 0), stream)
        s0 = stream.split(':')[0]
        ck.count('C:' + s0)
        if v is None:
            ck.property_failure('monitor produced no result for an input', {'sources': src})
            continue
        ck.case(['C', src], v.get('errors', 0) > 0 or v.get('compile') == 'ok')
        ck.count('C-outcome:' + v['outcome'])
        if v.get('compile'):
            ck.count('C-compile:' + v['compile'])
        if s0 == 'nesting' and v['outcome'] == 'ok':
            # constructs the parser descends into recursively are limited to 200 levels: deeper ones must be REJECTED with a
            # diagnostic (that they merely did not crash on this machine's stack is not enough)
            _, kind, depth = stream.split(':')
            if kind in RECURSIVE_KINDS and int(depth) >= 400 and v.get('errors', 0) == 0:
                ck.property_failure('%s: nested %s levels deep and accepted without the nesting-limit diagnostic' % (stream, depth),
                                    {'generator': stream, 'text_head': list(src.values())[0][:200]}, expected='`Nesting is too deep.`',
                                    observed='no diagnostic', how='gen/texts.py deep_nesting(%r, %s) through vh lex-run monitor' % (kind, depth))
        if v['outcome'] != 'ok':
            what = {'panic': 'panic in ' + ', '.join('%s (%s)' % (p[0], p[1][:120]) for p in v.get('panics', [])),
                    'hang': 'no result within the 5 s watchdog (stage %s)' % v.get('stage'),
                    'abort': 'process aborted (signal %s, stage %s): %s' % (v.get('signal'), v.get('stage'), (v.get('stderr_tail') or '').strip()[-120:])}[v['outcome']]
            inp = {'sources': src} if sum(len(t) for t in src.values()) < 3000 else {'sources': {k: t[:200] + '...[%d bytes]' % len(t) for k, t in src.items()}, 'generator': stream}
            ck.property_failure('%s: %s' % (stream, what), inp, expected='a result or diagnostics',
                                observed=v['outcome'], how='vh lex-run monitor 1 < {"id":0,"sources":...}', klass=classify(stream, v))
        for o in v.get('oracle') or []:
            why = oracle_excluded(src, o)
            if why:
                excl[why] = excl.get(why, 0) + 1
                if why not in [s.get('excluded') for s in ck.samples if isinstance(s, dict)]:
                    ck.sample({'excluded': why, 'input': list(src.values())[0][:200], 'oracle': o}, cap=8)
                continue
            ck.property_failure('%s: %s' % (stream, o.get('what')), {'sources': src}, expected='an InvalidSyntax diagnostic, or print(parse(text)) re-lexes to the same significant tokens',
                                observed=o, how='vh lex-run monitor 1')
    ck.extra_cov['oracle_exclusions_hit'] = excl
    ck.extra_cov['monitor_slowest_input_ms'] = {'ms': slowest[0], 'stream': slowest[1], 'watchdog_ms': 5000}
    ck.rule = ('B: texts from 5 streams (random bytes/code points, scanner soups, token soups, token- and tree-mutants of every '
               'tests/*.sam and std/*.sam, windowed to 600 bytes); non-trivial = has a string, comment, int or error token. '
               'C: the same streams unwindowed + multi-module jobs + 22 nesting shapes at depths up to 2000 through '
               'parse -> format -> check -> render(text, IDE) -> compile_sources, each stage under catch_unwind, 8 MiB stacks '
               '(RUST_MIN_STACK for rayon workers too), 5 s watchdog, one child process per batch; non-trivial = has diagnostics '
               'or compiles. Oracle "syntax error reported when tokens were skipped or invented": for a module with no '
               'InvalidSyntax diagnostic, pretty_print_source_module(parse(text)) must re-lex to the same token sequence as the '
               'text, comments, parentheses, commas and semicolons dropped, imports compared as a multiset of token bags; '
               'no exclusions.')
    return ck.finish()
