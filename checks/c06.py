"""C06 — a program containing a static error is always rejected and never compiled (DESIGN.md section 4, C06).

Layer A  theories/C06/Props.v (integer-literal gate of the lexer + the gate of compile_sources) and the shared
         kernels the other clauses rest on: theories/TypeKernel/Props.v (a type mismatch on Any-free types is
         rejected by `assignable`), theories/C07/Props.v (an accepted match is exhaustive), theories/C15/Props.v
         (C15_lookup_unbound: a name with no enclosing binder does not resolve).
Layer B  literal gate: generated (previous token, digit string) pairs through the real lexer (`vh lex-run lex`)
         and the real parser (`vh fmt-run parse-expr`), compared inside coqc with the model C06.process_raw /
         lit_value of process_raw_token; any deviation is a correspondence disagreement.
         compile gate: on every job `errors != [] <-> compile_sources = Err`.
         type kernel: lib/typekernel.kernel_correspondence.
Layer C  single-fault injector gen/faults.py over generated two-module programs and over /repo/tests/*.sam and /repo/std/*.sam;
         oracle per mutant: >= 1 error located in the mutated module, compile_sources = Err, no panic.
"""
import concurrent.futures
import json
import os
import re

from gen import faults, mutate
from gen.rng import Rng
from lib import typekernel
from lib.front import run_jobs
from lib.vlib import ROOT, Check, check_props, coq_eval_many, coq_result, vh

PID = 'C06'
LIT_KLASS = 'C06-int-literal-gate'
HEADER = ('From Coq Require Import List ZArith Bool NArith. Import ListNotations.\n'
          'From SV Require Import C06.Model C06.Corr.\nOpen Scope Z_scope.\n')
# the diagnostics each fault family aims at (informational: the property only asks for >= 1 error in the module)
EXPECTED_DIAGNOSTIC = {
    'operand-type': {'Stacked'}, 'branch-type': {'Stacked'}, 'arg-type': {'Stacked'}, 'arity': {'Stacked'}, 'typearg-arity': {'Stacked'},
    'unbound-var': {'CannotResolveName'}, 'unresolved': {'CannotResolveClass', 'CannotResolveMember', 'CannotResolveModule', 'MissingExport', 'CannotResolveName'},
    'private': {'CannotResolveMember', 'MissingExport', 'CannotResolveClass'}, 'interface': {'MissingClassMemberDefinitions', 'Stacked'},
    'bound': {'IncompatibleSubType', 'Stacked'}, 'int-literal': {'InvalidSyntax'}, 'match-arm': {'NonExhaustiveMatch'},
}


def par_jobs(jobs, nchunk=16):
    chunks = [jobs[i::nchunk] for i in range(nchunk)]
    res = {}
    with concurrent.futures.ThreadPoolExecutor(max_workers=nchunk) as ex:
        for part in ex.map(lambda c: run_jobs(c) if c else [], chunks):
            for r in part:
                res[r['id']] = r
    return [res[j['id']] for j in jobs]


# ----------------------------------------------------------------------------- layer B: the literal gate

# (text before the literal, text after it, state of TokenProducer.pending when the literal arrives,
#  is `before + literal + after` an expression the parser can read)
CONTEXTS = [
    ('', '', 'PNone', False), ('  \n ', '', 'PNone', False),
    ('-', '', 'PMinus', True), ('- ', '', 'PMinus', True), ('-\n', '', 'PMinus', True), ('(-', ')', 'PMinus', True),
    ('f(-', ')', 'PMinus', True), ('- - ', '', 'PMinus', True), ('1 - ', '', 'PMinus', True), ('- /* c */ -', '', 'PMinus', True),
    ('+ ', '', 'POther', False), ('1 + ', '', 'POther', True), ('(', ')', 'POther', True), ('f(1, ', ')', 'POther', True),
    ('- /* c */ ', '', 'POther', True), ('- // c\n', '', 'POther', True), ('/* c */ ', '', 'POther', True),
    ('"s" ', '', 'POther', False), ('x ', '', 'POther', False), ('-2147483648 ', '', 'POther', False),
    ('1 * ', '', 'POther', True), ('if true { 1 } else { ', ' }', 'POther', True), ('!', '', 'POther', True),
]
BOUNDARY = ['0', '1', '9', '10', '42', '65536', '2147483646', '2147483647', '2147483648', '2147483649', '2147483650',
            '4294967295', '4294967296', '4294967297', '21474836480', '99999999999', '9223372036854775806',
            '9223372036854775807', '9223372036854775808', '9223372036854775809', '10000000000000000000',
            '18446744073709551616', '99999999999999999999', '123456789012345678901234567890', '1000000000', '999999999',
            '2000000000', '3000000000']


def gen_digits(rng):
    c = rng.below(10)
    if c < 5:
        return rng.pick(BOUNDARY)
    if c < 7:
        return str(2147483648 + rng.range(-3, 3))
    n = rng.pick([1, 2, 5, 9, 10, 10, 10, 11, 18, 19, 19, 20, 25])
    return str(rng.range(1, 9)) + ''.join(str(rng.below(10)) for _ in range(n - 1))


def last_int(tree):
    """The last integer literal of a dumped expression tree (depth first, left to right)."""
    found = [None]

    def walk(t):
        if isinstance(t, list):
            if len(t) == 2 and t[0] == 'int' and isinstance(t[1], int):
                found[0] = t[1]
            else:
                for x in t:
                    walk(x)
    walk(tree)
    return found[0]


def lit_gate_correspondence(ck, tier, seed):
    rng = Rng(seed ^ 0x11C06)
    n = 700 if tier == 'quick' else 7000
    cases = []
    for pre, post, prev, expr in CONTEXTS:          # every boundary literal in every context
        for ds in ('2147483647', '2147483648', '2147483649'):
            cases.append((pre, post, prev, expr, ds))
    while len(cases) < n:
        pre, post, prev, expr = rng.pick(CONTEXTS)
        cases.append((pre, post, prev, expr, gen_digits(rng)))
    lex_in = '\n'.join(json.dumps({'id': i, 'text': pre + ds}) for i, (pre, post, prev, expr, ds) in enumerate(cases)) + '\n'
    rc, out = vh(['lex-run', 'lex'], input=lex_in, timeout=600)
    lex = {}
    for line in out.splitlines():
        if line.startswith('{'):
            r = json.loads(line)
            lex[r['id']] = r
    par_in = '\n'.join(json.dumps({'id': i, 'text': pre + ds + post}) for i, (pre, post, prev, expr, ds) in enumerate(cases) if expr) + '\n'
    rc2, out2 = vh(['fmt-run', 'parse-expr'], input=par_in, timeout=600)
    par = {}
    for line in out2.splitlines():
        if line.startswith('{'):
            r = json.loads(line)
            par[r.get('id')] = r
    if len(lex) != len(cases):
        ck.obligation('literal-gate correspondence ran', False, 'vh lex-run lex: %d answers for %d inputs: %s' % (len(lex), len(cases), out[-300:]))
        return False
    rows, obs = [], []
    for i, (pre, post, prev, expr, ds) in enumerate(cases):
        r = lex[i]
        if r.get('panic'):
            ck.disagree('C06.process_raw vs TokenProducer::process_raw_token', {'text': pre + ds}, 'no panic (the model is total)', r['panic'])
            continue
        toks = r['tokens']
        last = toks[-1] if toks else None
        if not last or last[0] != 'int' or last[5] not in (ds, '-' + ds):
            ck.disagree('C06.process_raw vs TokenProducer::process_raw_token', {'text': pre + ds}, 'last token is the literal %s or -%s' % (ds, ds), last)
            continue
        merged = last[5] == '-' + ds
        err = any('Not a 32-bit integer' in e[4] for e in r['errors'])
        value = None
        p = par.get(i)
        if p is not None and not p.get('panic') and p.get('tree') is not None and p.get('errors') == (1 if err else 0):
            value = last_int(p['tree'])
        ck.case(['lit-gate', pre, ds, post], True)
        ck.count('lit-gate:%s:%s' % (prev, 'error' if err else 'merged' if merged else 'plain'))
        if value is not None:
            ck.count('lit-gate:value-observed')
        rows.append('mkL %s [%s] %s %s %s' % (prev, ';'.join(ds), 'true' if err else 'false', 'true' if merged else 'false',
                                              'None' if value is None else '(Some (%d))' % value))
        obs.append({'text': pre + ds + post, 'pending': prev, 'digits': ds, 'error': err, 'merged': merged, 'value': value})
    nshard = 2 if tier == 'quick' else 8
    jobs = []
    for s in range(nshard):
        part = rows[s::nshard]
        jobs.append(('c06_lit_%s_%d' % (tier, s), HEADER + 'Definition cs : list lcase := [\n%s].\nEval vm_compute in (lbad cs).\n' % ';\n'.join(part)))
    bad, failed = [], []
    for s, (rc, o) in enumerate(coq_eval_many(jobs)):
        resl = coq_result(o) if rc == 0 else None
        m = re.fullmatch(r'\[(.*?)\]', resl or '')
        if not m:
            failed.append(o[-400:])
            continue
        bad += [s + nshard * int(x) for x in re.findall(r'(\d+)%N', m.group(1))]
    if failed:
        ck.obligation('model-evaluation(C06.Corr.lbad)', False, failed[0])
        return False
    ck.obligation('literal-gate correspondence ran', True,
                  '%d observations of the real lexer/parser (error, merge, stored value); disagreements with C06.process_raw / lit_value: %d'
                  % (len(rows), len(bad)))
    for i in sorted(bad)[:5]:
        ck.disagree('C06.process_raw + lit_value vs TokenProducer::process_raw_token + source_parser.rs Literal::Int', obs[i],
                    'see theories/C06/Model.v (Eval vm_compute in (lmodel %s [%s]))' % (obs[i]['pending'], ';'.join(obs[i]['digits'])),
                    {k: obs[i][k] for k in ('error', 'merged', 'value')}, how="echo '{\"text\": ...}' | vh lex-run lex ; vh fmt-run parse-expr")
    ck.extra_cov['literal_gate_observations'] = len(rows)
    ck.extra_cov['literal_gate_disagreements'] = len(bad)
    ck.sample({'literal_gate_observations': obs[:2] + [o for o in obs if o['digits'] == '2147483648' and o['pending'] == 'POther'][:1]})
    return not bad


# ----------------------------------------------------------------------------- layer C: the oracle

def verdict(m, r):
    """None if the mutant is handled as the property demands, otherwise a description of the failure."""
    if r.get('front_panic'):
        return 'the front end panicked: ' + str(r['front_panic'])[:200]
    comp = str(r['compile'])
    if comp.startswith('panic'):
        return 'compile_sources panicked: ' + comp[:200]
    if not r['errors']:
        return 'no error is reported' + (' and the program is compiled' if comp == 'ok' else ' (compile: %s)' % comp)
    if comp == 'ok':
        return 'errors are reported but compile_sources emitted code'
    if not any(e['module'] == m['module'] for e in r['errors']):
        return 'errors are reported, but none is located in the mutated module %s (they are in %s)' % (
            m['module'], sorted({e['module'] for e in r['errors']}))
    if comp != 'rejected':
        return 'compile_sources answered %s' % comp
    return None


def judge(ck, muts, results, replay_inputs, scope):
    for m, r, inp in zip(muts, results, replay_inputs):
        fam = faults.family(m['kind'])
        ck.case([scope, m['module'], m['kind'], m['edit']], True)
        ck.count('%s:%s' % (scope, fam))
        kinds = {e['kind'] for e in r['errors'] if e['module'] == m['module']}
        for k in sorted(kinds):
            ck.count('diagnostic:%s:%s' % (fam, k))
        if kinds and fam in EXPECTED_DIAGNOSTIC and not (kinds & EXPECTED_DIAGNOSTIC[fam]):
            ck.count('rejected-but-not-by-the-diagnostic-the-fault-aims-at:' + fam)     # informational
        why = verdict(m, r)
        # the compile gate (model: errors <> [] -> CErr; errors = [] /\ entries exist -> COk)
        if bool(r['errors']) != (r['compile'] == 'rejected') and not str(r['compile']).startswith('panic') and not r.get('front_panic'):
            ck.disagree('C06.compile_sources vs samlang_compiler::compile_sources', inp,
                        'Err exactly when the error set is non-empty', {'errors': len(r['errors']), 'compile': r['compile']})
        if why is None:
            continue
        ck.property_failure('single-fault mutant (%s: %s at line %d col %d of %s): %s' % (m['kind'], m['what'], m['site'][0] + 1, m['site'][1] + 1, m['module'], why),
                            inp, expected='>= 1 error located in %s and compile_sources = Err' % m['module'],
                            observed={'errors': r['errors'][:5], 'compile': r['compile']}, how='./check C06 --replay <this file>')


def pick_mutants(rng, muts, per_family):
    """Stratified: per family, `per_family` mutants, detailed kinds drawn uniformly before sites."""
    fams = {}
    for m in muts:
        fams.setdefault(faults.family(m['kind']), {}).setdefault(m['kind'], []).append(m)
    out = []
    for fam in sorted(fams):
        kinds = fams[fam]
        for _ in range(per_family):
            ks = sorted(k for k in kinds if kinds[k])
            if not ks:
                break
            k = rng.pick(ks)
            out.append(kinds[k].pop(rng.below(len(kinds[k]))))
    return out


def run(tier, seed, replay=None):
    ck = Check(PID, tier, seed, level='proof (partial)')
    ck.checker_cmd = ('make -C /verif/coq theories/C06/Props.vo theories/TypeKernel/Props.vo theories/C07/Props.vo theories/C15/Props.vo (coqc 8.16.1) '
                      '+ Print Assumptions per theorem')
    ck.trusted = [
        'Coq 8.16.1 kernel; no axioms',
        'theorems: (i) integer-literal gate — hand model theories/C06/Model.v of TokenProducer::process_raw_token (lexer.rs) and of '
        '`text.parse::<i32>().unwrap_or(0)` (source_parser.rs), incl. the step-by-step checked arithmetic of the Rust std integer parsers; '
        'tie: the real lexer and parser are run on generated (pending token, digits) pairs and error / merge / stored value are compared '
        'with the model inside coqc on every run (the pre-repair gate is kept in the theory as a historical, refuted definition only); '
        '(ii) compile_sources gate (errors non-empty -> no code) over an abstract front end and back end, tied on every job of the monitor; '
        '(iii) TypeKernel (mismatch on Any-free types rejected by assignability), (iv) C07 (accepted match is exhaustive), (v) C15 scope-stack '
        'model (C15_lookup_unbound), each with its own tie in its own check',
        'NOT proved: that the checker calls the kernels at every use site, arity / visibility / interface-conformance / bound checks, name '
        'resolution — these clauses are monitored only (layer C)',
        'layer C (testing): gen/faults.py single-fault injector — every mutant is ill-typed by construction (argument per fault kind in the '
        'source); Python tokenizer + declaration-header reader are trusted for that guarantee',
    ]
    check_props(ck, 'theories/C06/Props.v')
    if replay:          # re-run exactly that input against the current /repo
        rp = json.load(open(replay))['input']
        m = {'module': rp['mutated'], 'kind': rp.get('kind', 'replay'), 'what': rp.get('what', ''), 'site': rp.get('site', [0, 0]), 'edit': rp.get('edit')}
        r = run_jobs([{'id': 0, 'sources': rp['sources'], 'entries': [rp['entry']], 'compile': True, 'with_std': rp.get('with_std', True)}])[0]
        judge(ck, [m], [r], [rp], 'replay')
        return ck.finish()
    typekernel.props(ck)
    check_props(ck, 'theories/C07/Props.v')
    typekernel.kernel_correspondence(ck, tier, seed, PID)
    check_props(ck, 'theories/C15/Props.v')        # clause (iii): C15_lookup_unbound (a name with no enclosing binder does not resolve)
    lit_gate_correspondence(ck, tier, seed)

    ck.rule = ('generated programs: gen/progs.py programs (general and layout-focused) extended to two modules (Helper with private members/class; '
               'interface + implementing class + non-implementing class + bounded type parameters), every applicable site of 11 fault families '
               'enumerated, a stratified sample (per program and family; detailed kind drawn before site) is run; samples: every tests/*.sam and '
               'std/*.sam module, 4 families guaranteed without type information, each mutant checked within the whole tests+std program set; '
               'distinct = distinct (module, kind, edit); literal-gate cases: 23 token contexts x boundary-biased digit strings')

    # ---- corpus: witnesses of earlier findings run first; each must be rejected
    cdir = os.path.join(ROOT, 'corpus', PID)
    corpus = sorted(f for f in (os.listdir(cdir) if os.path.isdir(cdir) else []) if f.endswith('.sam') or f.endswith('.json'))
    if corpus:
        # .sam: one module Main; .json: {"sources": {module: text}, "entry": m, "mutated": module holding the static error}
        def cload(f):
            if f.endswith('.json'):
                return json.load(open(os.path.join(cdir, f)))
            return {'sources': {'Main': open(os.path.join(cdir, f)).read()}, 'entry': 'Main', 'mutated': 'Main'}
        loaded = [cload(f) for f in corpus]
        cm = [{'module': x['mutated'], 'kind': 'corpus:' + f, 'what': 'corpus/C06/' + f, 'site': [0, 0], 'edit': f} for f, x in zip(corpus, loaded)]
        cin = [{'sources': x['sources'], 'entry': x['entry'], 'mutated': x['mutated'], 'kind': m['kind'], 'what': m['what']}
               for x, m in zip(loaded, cm)]
        cres = run_jobs([{'id': i, 'sources': x['sources'], 'entries': [x['entry']], 'compile': True} for i, x in enumerate(cin)])
        lit = [(m, r, x) for m, r, x in zip(cm, cres, cin) if 'literal-2147483648' in m['edit']]
        rest = [(m, r, x) for m, r, x in zip(cm, cres, cin) if 'literal-2147483648' not in m['edit']]
        if rest:
            judge(ck, [t[0] for t in rest], [t[1] for t in rest], [t[2] for t in rest], 'corpus')
        if lit:          # the witnesses of the fixed finding C06-int-literal-gate
            back = [(m, verdict(m, r)) for m, r, _ in lit if verdict(m, r) is not None]
            for m, r, _ in lit:
                ck.case(['corpus', m['edit']], True)
                ck.count('corpus:int-literal')
            detail = ('; '.join('%s: %s' % (m['what'], why) for m, why in back) if back else
                      '%d witnesses rejected with an error in Main, compile_sources = Err' % len(lit))
            try:
                ck.known_witness(LIT_KLASS, bool(back), detail)
            except KeyError:
                if back:
                    judge(ck, [t[0] for t in lit], [t[1] for t in lit], [t[2] for t in lit], 'corpus')

    # ---- uses of a binder outside the region where it is in scope (one small module per scope boundary kind)
    from gen.scopes import scope_violation_programs
    svr = Rng(seed ^ 0x5C06E)
    svs = []
    for rep in range(3 if tier == 'quick' else 20):
        svs += scope_violation_programs(svr.fork())
    sres = par_jobs([{'id': i, 'sources': x['sources'], 'entries': ['Main'], 'compile': True} for i, (_, x) in enumerate(svs)])
    smuts = [{'module': 'Main', 'kind': 'unbound-var:out-of-scope:' + k, 'what': 'use of a binder outside its scope (%s)' % k,
              'site': [0, 0], 'edit': x['sources']['Main'][-400:]} for k, x in svs]
    judge(ck, smuts, sres, [dict(x, kind=m['kind'], what=m['what']) for (_, x), m in zip(svs, smuts)], 'scope-violation')
    ck.extra_cov['scope_violation_programs'] = len(svs)

    # ---- generic calls whose lambda argument conflicts with a type parameter fixed elsewhere
    from gen.progs import infer_violation_programs
    ivs = []
    for rep in range(3 if tier == 'quick' else 20):
        ivs += infer_violation_programs(svr.fork())
    ires = par_jobs([{'id': i, 'sources': x['sources'], 'entries': ['Main'], 'compile': True} for i, (_, x) in enumerate(ivs)])
    imuts = [{'module': 'Main', 'kind': 'arg-type:infer:' + k, 'what': 'lambda argument conflicts with a fixed type parameter (%s)' % k,
              'site': [0, 0], 'edit': x['sources']['Main'][-300:]} for k, x in ivs]
    judge(ck, imuts, ires, [dict(x, kind=m['kind'], what=m['what']) for (_, x), m in zip(ivs, imuts)], 'infer-violation')

    # ---- private members of M.A reached from an unrelated class also named A
    snp, control = faults.same_name_private_programs()
    sres2 = par_jobs([{'id': i, 'sources': x['sources'], 'entries': ['Main'], 'compile': True} for i, (_, x) in enumerate(snp)]
                     + [{'id': len(snp), 'sources': control['sources'], 'entries': ['Main'], 'compile': True}])
    ctrl = sres2[len(snp)]
    ck.obligation('same-name control program (public members only) is accepted', not ctrl['errors'] and ctrl['compile'] == 'ok',
                  str(ctrl['errors'][:2]) if ctrl['errors'] else 'accepted and compiled')
    smuts2 = [{'module': 'Main', 'kind': k, 'what': 'private member of X1.A used from Main.A', 'site': [1, 0], 'edit': x['sources']['Main'][:200]} for k, x in snp]
    judge(ck, smuts2, sres2[:len(snp)], [dict(x, kind=m['kind'], what=m['what']) for (_, x), m in zip(snp, smuts2)], 'same-name')

    # ---- generated programs
    rng = Rng(seed ^ 0xC06)
    nprog = 150 if tier == 'quick' else 1200
    per_family = 2 if tier == 'quick' else 3
    progs = [faults.fault_base(rng.fork(), i) for i in range(nprog)]
    base = par_jobs([{'id': i, 'sources': p['sources'], 'entries': ['Main'], 'compile': True} for i, p in enumerate(progs)])
    muts, sites_total = [], 0
    for pi, (p, b) in enumerate(zip(progs, base)):
        if b['errors'] or b['compile'] != 'ok' or b.get('front_panic'):
            ck.count('generated:base-not-accepted (generator defect, skipped)')
            continue
        r = rng.fork()
        for mod in sorted(p['sources']):
            allm = faults.all_faults(p['sources'][mod], 'generated')
            sites_total += len(allm)
            for m in pick_mutants(r, allm, per_family if mod == 'Main' else 1):
                m['prog'], m['module'] = pi, mod
                muts.append(m)
    inputs = []
    for m in muts:
        src = dict(progs[m['prog']]['sources'])
        src[m['module']] = m['text']
        inputs.append({'sources': src, 'entry': 'Main', 'mutated': m['module'], 'kind': m['kind'], 'what': m['what'], 'site': m['site'], 'edit': m['edit']})
    results = par_jobs([{'id': i, 'sources': x['sources'], 'entries': ['Main'], 'compile': True} for i, x in enumerate(inputs)])
    judge(ck, muts, results, inputs, 'generated')
    ck.extra_cov['generated_programs'] = nprog
    ck.extra_cov['generated_fault_sites_enumerated'] = sites_total
    ck.extra_cov['generated_mutants_run'] = len(muts)

    # ---- the repository's samples
    samples = mutate.load_samples()
    sb = run_jobs([{'id': 0, 'sources': samples, 'entries': ['tests.AllTests'], 'compile': True, 'with_std': False}])[0]
    smuts = []
    if sb['errors'] or sb['compile'] != 'ok':
        ck.notes.append('the unmodified tests/ + std/ program set is not accepted (%d errors, compile %s): sample mutants skipped' % (len(sb['errors']), sb['compile']))
    else:
        alls = []
        for name in sorted(samples):
            for m in faults.all_faults(samples[name], 'sample'):
                m['module'] = name
                alls.append(m)
        ck.extra_cov['sample_fault_sites_enumerated'] = len(alls)
        smuts = pick_mutants(rng.fork(), alls, 75 if tier == 'quick' else 750)
        sinputs = []
        for m in smuts:             # a replay file of a sample mutant carries the whole program set
            src = dict(samples)
            src[m['module']] = m['text']
            sinputs.append({'sources': src, 'entry': 'tests.AllTests', 'mutated': m['module'], 'kind': m['kind'], 'what': m['what'],
                            'site': m['site'], 'edit': m['edit'], 'with_std': False,
                            'note': 'all modules other than `mutated` are /repo/tests and /repo/std unchanged'})
        sres = par_jobs([{'id': i, 'sources': x['sources'], 'entries': ['tests.AllTests'], 'compile': True, 'with_std': False}
                         for i, x in enumerate(sinputs)])
        judge(ck, smuts, sres, sinputs, 'samples')
    ck.extra_cov['sample_mutants_run'] = len(smuts)

    if muts:
        m = muts[len(muts) // 2]
        ck.sample({'mutant': {k: m[k] for k in ('kind', 'what', 'site', 'original')}, 'line': m['text'].split('\n')[m['site'][0]][:200]})
    return ck.finish()
