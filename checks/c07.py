"""C07 — exhaustiveness / usefulness analysis is exact (DESIGN.md section 4, C07)."""
import os
import re

from gen import pats as G
from gen.rng import Rng
from lib.front import run_jobs
from lib.vlib import Check, check_props, coq_eval_many, coq_result

PID = 'C07'
HEADER = ('From Coq Require Import List NArith. Import ListNotations.\n'
          'From SV Require Import C07.Pat C07.PatFuel C07.PatCex C07.Corr.\n')
KIND = {'match': 'KMatch', 'let': 'KLet', 'iflet': 'KIfLet'}


def expansion(p):
    """number of or-free patterns a source pattern expands to (the model expands or-patterns; its cost grows with this)"""
    k = p[0]
    if k in ('wild', 'var'):
        return 1
    if k == 'or':
        return sum(expansion(q) for q in p[1])
    n = 1
    subs = p[2] if k == 'variant' else [q for _, q in p[1] if q is not None] if k == 'object' else p[1]
    for q in subs:
        n *= expansion(q)
    return n


def case_gallina(env, c, flagged):
    return 'mkCase %s %d %s [%s] %s' % (G.env_gallina(env), c['ty'], KIND[c['kind']],
                                        '; '.join(G.to_abstract(env, p, c['ty']) for p in c['pats']),
                                        'true' if flagged else 'false')


def run(tier, seed, replay=None):
    ck = Check(PID, tier, seed, level='proof')
    ck.checker_cmd = 'make -C /verif/coq theories/C07/Props.vo (coqc 8.16.1) + Print Assumptions per theorem'
    ck.trusted = [
        'Coq 8.16.1 kernel; vm_compute evaluates the model on the generated matrices',
        'no axioms (all C07 theorems: Closed under the global context)',
        'hand-written model theories/C07/{Pat,PatCex}.v of crates/samlang-checker/src/pattern_matching.rs; tie: the real '
        'checker is run on generated programs (match / let / if-let over generated enum/struct declarations) and its '
        'NonExhaustiveMatch / UselessPattern verdicts are compared with the model on the same abstract matrices',
        'gen/pats.py to_abstract (source pattern -> abstract pattern for well-typed patterns) mirrors '
        'main_checker.rs check_matching_pattern and is trusted; the independent value-enumeration oracle does not use it',
        'proved since round 2 (PatCexComplete / PatCexFuel / PatInhabited): cex = None iff useful(wildcard row) = false iff '
        'exhaustive, the counterexample is a well-typed pattern that denotes at least one value and only unmatched values; '
        'explicit fuel cex_fuel(P, n) = 1 + Msum(P) * (1 + Amax(P)) + n above which the answer of cex is defined and fuel '
        'independent (Corr.fuel_for dominates it: model verdicts 2 and 4 cannot occur on match/let cases that pass hyps_ok)',
        'uninhabited payload types: acceptance is proved sound for EVERY type environment (C07_accept_sound_any_types); '
        'the converse needs H_inhabited and is refuted without it (C07_uninhabited_refuted: class Never(N(Never)), '
        'class E(A, B(Never)), match { A -> .. } is reported non-exhaustive with counterexample B(_) which denotes no '
        'value; the real checker behaves the same); such types are outside the generator',
        'not proved: that the model\'s choice of the reported missing variant (first in declaration order) is the one the '
        'real code picks (min over a HashMap) - only the verdict and the validity of the printed counterexample are compared; '
        'the source-pattern conversion to_abstract (trusted, see above)',
    ]
    ck.assumptions = ['every type is inhabited (H_inhabited); patterns are well typed (checked per case by pat_okb)']
    check_props(ck, 'theories/C07/Props.v')

    nprog = 600 if tier == 'quick' else 6000
    only = None
    if replay:
        import json
        rp = json.load(open(replay))
        seed = rp.get('seed', seed)
        only = (rp.get('input') or {}).get('program_index')
        nprog = (only + 1) if only is not None else nprog
    rng = Rng(seed)
    progs = []
    for i in range(nprog):
        r = rng.fork()
        env, src, cases = G.gen_program(r)
        if only is None or i == only:
            progs.append((env, src, cases, i))
    results = run_jobs([{'id': i, 'sources': {'Main': src}, 'entries': ['Main'], 'compile': False, 'with_std': False}
                        for i, (_, src, _, _) in enumerate(progs)])
    ck.rule = ('programs with 1-4 generated enum/struct classes (recursive, mutually recursive, nested; every type inhabited) and 6 '
               'functions each using match (1-6 arms), destructuring let or if-let over variant/tuple/object/wildcard/variable/'
               'or-patterns of depth <= 3; distinct = distinct (declarations, function) text; non-trivial = at least one '
               'constructor pattern')
    allcases = []
    skipped = 0
    for (env, src, cases, pidx), res in zip(progs, results):
        if res['front_panic']:
            ck.property_failure('checker panicked: ' + str(res['front_panic']), {'source': src, 'program_index': pidx})
            continue
        by_line = {}
        other = []
        for e in res['errors']:
            if e['kind'] in ('NonExhaustiveMatch', 'UselessPattern'):
                by_line.setdefault(e['loc'][0], []).append(e)
            else:
                other.append(e)
        if other:
            skipped += 1
            ck.count('programs_with_other_errors')
            ck.notes.append('generator produced a program with other diagnostics: %s' % other[0]['msg'][:120]) if len(ck.notes) < 3 else None
            continue
        for c in cases:
            errs = by_line.get(c['line'], [])
            want_kind = 'UselessPattern' if c['kind'] == 'iflet' else 'NonExhaustiveMatch'
            flagged = any(e['kind'] == want_kind for e in errs)
            cex_text = None
            for e in errs:
                m = re.search(r'non-matching value: `(.*)`\.', e['msg'], re.S)
                if m:
                    cex_text = m.group(1)
            allcases.append((env, src, c, flagged, cex_text, pidx))
            ck.count('kind:' + c['kind'])
            ck.count('flagged' if flagged else 'not_flagged')
            nontrivial = any(G.pat_depth(p) > 0 for p in c['pats'])
            ck.case([G.render_env(env), c['src']], nontrivial)
    # ---- layer C: independent oracle by value enumeration
    for env, src, c, flagged, cex_text, pidx in allcases:
        d = max(G.pat_depth(p) for p in c['pats']) + 1
        try:
            vals = G.values(env, c['ty'], d, [20000])
        except OverflowError:
            ck.count('oracle_skipped_too_many_values')
            continue
        ck.count('oracle_values', len(vals))
        unmatched = [v for v in vals if not any(G.matches(env, p, c['ty'], v) for p in c['pats'])]
        inp = {'source': src, 'function': c['src'], 'program_index': pidx}
        if c['kind'] == 'iflet':
            if flagged != (not unmatched):
                ck.property_failure('if-let pattern %s: flagged useless=%s but %d of %d values do not match it'
                                    % (G.render_pat(c['pats'][0]), flagged, len(unmatched), len(vals)), inp)
            continue
        if flagged and not unmatched:
            ck.property_failure('match rejected as non-exhaustive but all %d values to depth %d are matched' % (len(vals), d), inp)
        if not flagged and unmatched:
            ck.property_failure('match accepted but value %r is matched by no arm' % (unmatched[0],), inp)
        if flagged and cex_text is not None:
            try:
                cp = G.parse_cex(cex_text)
                ok = G.cex_well_typed(env, cp, c['ty'])
            except (ValueError, IndexError):
                cp, ok = None, False
            if not ok:
                ck.property_failure('reported counterexample `%s` is not a pattern of the scrutinee type' % cex_text, inp)
            else:
                inst = [v for v in vals if G.matches(env, cp, c['ty'], v)]
                bad = [v for v in inst if any(G.matches(env, p, c['ty'], v) for p in c['pats'])]
                if bad:
                    ck.property_failure('reported counterexample `%s` has instance %r that an arm matches' % (cex_text, bad[0]), inp)
                elif not inst:
                    ck.property_failure('reported counterexample `%s` denotes no value' % cex_text, inp)
    # ---- the open finding: witness replay (prints KNOWN-FINDING while the checker has no inhabitation analysis)
    wpath = '/verif/corpus/C07/001-uninhabited-payload.sam'
    if os.path.exists(wpath) and only is None:
        wr = run_jobs([{'id': 0, 'sources': {'Main': open(wpath).read()}, 'entries': ['Main'], 'compile': False, 'with_std': False}])[0]
        flagged_w = any(e['kind'] == 'NonExhaustiveMatch' for e in wr['errors'])
        try:
            ck.known_witness('C07-uninhabited-payload', flagged_w, 'match over E(A, B(Never)) with the single arm A: %s'
                             % ('rejected as non-exhaustive' if flagged_w else 'accepted'))
        except KeyError:
            pass
    # ---- layer B: model vs implementation verdicts
    # cases whose or-patterns expand to more than 3000 or-free rows are left to the value-enumeration oracle above (the
    # model's evaluation time is exponential in the nesting of or-patterns; counted, not hidden)
    big = [x for x in allcases if max([expansion(p) for p in x[2]['pats']] + [1]) > 3000]
    if big:
        ck.count('layer-B-skipped:or-expansion>3000', len(big))
        allcases = [x for x in allcases if max([expansion(p) for p in x[2]['pats']] + [1]) <= 3000]
    nshard = max(16, (len(allcases) + 399) // 400)     # at most ~400 cases per coqc run
    jobs = []
    for si in range(nshard):
        part = allcases[si::nshard]
        if not part:
            continue
        body = HEADER + 'Definition cases : list case := [\n%s].\n' % ';\n'.join(case_gallina(e, c, f) for e, _, c, f, _, _ in part)
        body += 'Eval vm_compute in (bad 0%N cases).\n'
        jobs.append(('c07_%d' % si, body))
    outs = coq_eval_many(jobs, timeout=900 if tier == "quick" else 3000)
    names = {1: 'model and checker disagree', 2: 'model out of fuel', 3: 'theorem hypotheses not met by the generated case',
             4: 'model: cex and useful disagree'}
    ji = 0
    for si in range(nshard):
        part = allcases[si::nshard]
        if not part:
            continue
        rc, out = outs[ji]
        ji += 1
        res = coq_result(out) if rc == 0 else None
        if res is None:
            ck.obligation('model-evaluation', False, out[-800:])
            continue
        for a, b in re.findall(r'\((\d+)(?:%N)?, (\d+)(?:%N)?\)', res):
            env, src, c, flagged, cex_text, pidx = part[int(a)]
            ck.disagree('C07.Corr.predict (%s)' % names[int(b)], {'source': src, 'function': c['src'], 'program_index': pidx},
                        'model predicts the opposite' if int(b) == 1 else names[int(b)],
                        {'flagged': flagged, 'counterexample': cex_text})
    for env, src, c, flagged, cex_text, pidx in allcases[:3]:
        ck.sample({'declarations': G.render_env(env), 'function': c['src'], 'checker_flagged': flagged, 'counterexample': cex_text})
    ck.extra_cov['programs'] = len(progs)
    ck.extra_cov['programs_skipped'] = skipped
    return ck.finish()
