"""C08 — formatting never changes the program (DESIGN.md section 4, C08)."""
import glob
import json
import os

from gen import exprs, fexprs
from gen.rng import Rng
from lib import prectable
from lib.vlib import ROOT, Check, check_props, coq_eval_many, coq_make, coq_result, vh

PID = 'C08'
WIDTHS = [1, 20, 40, 80, 100, 200]
# OPEN classes (status open in known_findings.json) and the decidable predicate that puts a failure into them:
#   K1, K3: gen.exprs.node_classes on the expression that contains the difference (twin of k1 / k3 of C08/Model.v)
#   K7    : import_rebinding(text) and the difference is the module a name resolves to
# Everything else - in particular the repaired K2, K4, K5, K6 - is a plain property failure.
CLASS_ID = {'K1': 'C08-K1-commutative-shortcut', 'K3': 'C08-K3-concat-precedence', 'K7': 'C08-K7-import-sorting-rebinds-name'}
HEADER = ('From Coq Require Import List Arith Bool NArith. Import ListNotations.\n'
          'From SV Require Import C08.Syntax C08.Model C08.Layout C08.Lit C08.Corr.\n')
FHEADER = ('From Coq Require Import List Arith Bool NArith ZArith. Import ListNotations.\n'
           'From SV Require Import C08.Syntax C08.Model C08.FSyntax C08.FModelTypes C08.FModelExpr C08.FModelDecl C08.Corr C08.FCorr.\n')


def generate():
    """(re)write coq/generated/PrecTable.v from the code that is in /repo now (idempotent)"""
    return prectable.generate()


def run_vh(mode, jobs, timeout=1500):
    rc, out = vh(['fmt-run', mode], input='\n'.join(json.dumps(j) for j in jobs) + '\n', timeout=timeout)
    res = [json.loads(l) for l in out.splitlines() if l.startswith('{')]
    if len(res) != len(jobs):
        raise RuntimeError('fmt-run %s: %d results for %d jobs: %s' % (mode, len(res), len(jobs), out[-400:]))
    return res


def g_codepoints(s):
    return '[' + ';'.join(str(ord(c)) for c in s) + ']%N'


def shard(items, n=16):
    sh = [[] for _ in range(n)]
    for i, x in enumerate(items):
        sh[i % n].append((i, x))
    return [s for s in sh if s]


def eval_fails(tag, shards, typ, render_case, fn, extra=(), header=None):
    """Runs `fn cases` per shard; returns ({global index: code}, extras per shard, errors)."""
    jobs = []
    for si, sh_ in enumerate(shards):
        body = (header or HEADER) + 'Definition cases : list %s := [%s].\n' % (typ, ';\n '.join(render_case(x) for _, x in sh_))
        body += 'Eval vm_compute in (%s cases).\n' % fn
        for ex in extra:
            body += 'Eval vm_compute in (%s cases).\n' % ex
        jobs.append(('c08_%s_%d' % (tag, si), body))
    outs = coq_eval_many(jobs)
    fails, errors, extras = {}, [], []
    import re
    for sh_, (rc, out) in zip(shards, outs):
        if rc != 0:
            errors.append(out[-1200:])
            continue
        blocks = re.findall(r'^\s*=\s*(.*?)\n\s*:\s', out, re.S | re.M)
        if not blocks:
            errors.append(out[-800:])
            continue
        for a, b in re.findall(r'\((\d+)%N, (\d+)%N\)', ' '.join(blocks[0].split())):
            fails[sh_[int(a)][0]] = int(b)
        extras.append([' '.join(b.split()) for b in blocks[1:]])
    return fails, extras, errors


# ----------------------------------------------------------------------------------------------------------------------

def layer_b_docs(ck, rng, n):
    widths = [1, 8, 20, 40, 80]
    docs = []
    for i in range(n):
        docs.append(exprs.gen_doc(rng.fork(), 2 + i % 5, arbitrary_unions=(i % 3 != 0), comments=False))
    docs = [d for d in docs if not has_comment(d)]
    res = run_vh('doc', [{'id': i, 'doc': d, 'widths': widths} for i, d in enumerate(docs)])
    cases = []
    for d, r in zip(docs, res):
        if any(not isinstance(o, str) for o in r['out']):
            ck.property_failure('layout engine panicked', {'doc': d}, observed=r['out'])
            continue
        cases.append((d, list(zip(widths, r['out']))))
        ck.case(d, nontrivial=len(set(r['out'])) > 1)
    ck.count('documents', len(cases))
    ck.count('documents whose rendering depends on the width', sum(1 for _, outs in cases if len({o for _, o in outs}) > 1))

    def render_case(c):
        d, outs = c
        return '(%s, [%s])' % (exprs.g_doc(d), '; '.join('(%d, %s)' % (w, g_codepoints(o)) for w, o in outs))
    fails, extras, errors = eval_fails('doc', shard(cases), 'doc_case', render_case, 'doc_fails', extra=['doc_content_fails', 'count_wf'])
    for e in errors:
        ck.obligation('model-evaluation (documents)', False, e)
    for idx in sorted(fails)[:3]:
        d, outs = cases[idx]
        ck.disagree('C08.Layout.render (model) vs samlang_printer::verif::pretty_print', {'doc': d}, 'render differs at some width',
                    dict(outs), how='vh fmt-run doc')
    nwf = 0
    for ex in extras:
        if ex and ex[0] != '[]':
            ck.disagree('layout_preserves_tokens instance (visible (real output) = content d for wf d)', {'shard result': ex[0]}, '[]', ex[0])
        if len(ex) > 1:
            try:
                nwf += int(ex[1].rstrip('%nat'))
            except ValueError:
                pass
    ck.count('documents satisfying the theorem hypothesis wf', nwf)
    ck.extra_cov['documents_compared'] = len(cases) - len(fails)
    if cases:
        ck.sample({'doc': cases[0][0], 'rendered': dict(cases[0][1])})


def has_comment(d):
    if isinstance(d, list):
        if d and d[0] in ('linecomment', 'multiline'):
            return True
        return any(has_comment(x) for x in d)
    return False


def layer_b_exprs(ck, rng, table, n_random, all_triples):
    trees = exprs.expression_trees(rng, n_random, all_triples)
    res = run_vh('expr', [{'id': i, 'e': exprs.to_json(t), 'widths': [1, 40, 100000]} for i, t in enumerate(trees)])
    cases = []
    nknown = 0
    for t, r in zip(trees, res):
        outs = r['out']
        if any('panic' in o for o in outs):
            ck.property_failure('printer panicked on an expression', {'tree': exprs.to_json(t)}, observed=outs)
            continue
        toks = [o['tokens'] for o in outs]
        if any(tk != toks[0] for tk in toks[1:]):
            ck.disagree('token sequence of the printed expression is independent of the width (layout theorem instance)',
                        {'tree': exprs.to_json(t)}, toks[0], toks[1])
        o = outs[1]
        back = None
        if o['reparse'].get('errors') == 0 and o['reparse'].get('tree') is not None:
            back = exprs.from_json(o['reparse']['tree'])
            if back is None:
                back = 'outside'
        kn = exprs.known_c08_model(table, t)
        nknown += kn
        cases.append((t, exprs.g_tokens(o['tokens']), back, kn, o))
        ck.case(exprs.to_json(t))
        for cl in exprs.tree_classes(table, exprs.to_json(t)):
            ck.count('expression trees in class ' + cl)
    ck.count('expression trees', len(cases))
    ck.count('expression trees in Known_C08', nknown)

    def render_case(c):
        t, toks, back, kn, _ = c
        gb = 'None' if back is None else ('(Some (Atom true 999))' if back == 'outside' else '(Some %s)' % exprs.g_expr(back))
        return '(%s, %s, %s, %s)' % (exprs.g_expr(t), 'None' if toks is None else '(Some %s)' % toks, gb, 'true' if kn else 'false')
    fails, extras, errors = eval_fails('expr', shard(cases), 'expr_case', render_case, 'expr_fails', extra=['known_but_fine'])
    for e in errors:
        ck.obligation('model-evaluation (expressions)', False, e)
    what = {1: 'C08.Model.impl (model) vs source_printer (tokens of the printed expression)',
            2: 'C08.Model.parse_expr (model) vs samlang_parser (tree read back from the printed expression)',
            3: 'known_C08 (Coq) vs gen.exprs.tree_classes (Python)', 4: 'printed expression has a token outside the model',
            5: 'safe = negb known_C08 instance', 6: 'impl_roundtrip instance: safe tree not read back by the real parser'}
    for idx in sorted(fails)[:4]:
        t, toks, back, kn, o = cases[idx]
        ck.disagree(what.get(fails[idx], 'code %d' % fails[idx]), {'tree': exprs.to_json(t)}, 'model: Coq C08/Corr.v expr_check code %d' % fails[idx],
                    {'text': o['text'], 'reparse': o['reparse']}, how='vh fmt-run expr')
    # failing-input search: a tree outside the known classes on which model and printer disagree and which the real parser does
    # not read back from the real printer's output is an input on which the property itself fails
    shown = 0
    for idx in sorted(fails):
        t, toks, back, kn, o = cases[idx]
        if kn or shown >= 3:
            continue
        if back is None or back == 'outside' or exprs.g_expr(back) != exprs.g_expr(t):
            shown += 1
            ck.property_failure('printed expression is not read back as the tree it was printed from', {'tree': exprs.to_json(t)},
                                expected='parse(print(t)) = t', observed={'text': o['text'], 'reparse': o['reparse']},
                                how='vh fmt-run expr')
    fine = 0
    for ex in extras:
        try:
            fine += int(ex[0].rstrip('%nat'))
        except (ValueError, IndexError):
            pass
    ck.count('Known_C08 trees whose output is nevertheless read back unchanged', fine)
    ck.extra_cov['expression_trees_compared'] = len(cases) - len(fails)
    if cases:
        ck.sample({'tree': exprs.g_expr(cases[-1][0]), 'printed': cases[-1][4]['text']})


def tparams_text(tps):
    return ('<%s> ' % ', '.join(fexprs.up(n) for n in tps)) if tps else ''


def g_nats(xs):
    return '[' + '; '.join(str(x) for x in xs) + ']'


def sum_extras(extras, k):
    n = 0
    for ex in extras:
        try:
            n += int(ex[k].rstrip('%nat'))
        except (ValueError, IndexError):
            pass
    return n


def layer_b_fexprs(ck, rng, table, n_random, all_triples):
    """full model: real printer tokens vs fimpl; real parser on the output vs parse_fexpr; fknown Coq vs Python"""
    trees = fexprs.expression_trees(rng, n_random, all_triples)
    res = run_vh('expr', [{'id': i, 'e': fexprs.to_json(t), 'widths': [1, 40, 100000], 'tparams': tparams_text(tps)}
                          for i, (tps, t) in enumerate(trees)])
    cases = []
    for (tps, t), r in zip(trees, res):
        outs = r['out']
        if any('panic' in o for o in outs):
            ck.property_failure('printer panicked on an expression', {'tree': fexprs.to_json(t)}, observed=outs)
            continue
        toks = [o['tokens'] for o in outs]
        if any(tk != toks[0] for tk in toks[1:]):
            ck.disagree('token sequence of the printed expression is independent of the width (layout theorem instance)',
                        {'tree': fexprs.to_json(t)}, toks[0], toks[1])
        o = outs[1]
        back = None
        if o['reparse'].get('errors') == 0 and o['reparse'].get('tree') is not None:
            try:
                back = fexprs.from_json(o['reparse']['tree'])
            except ValueError:
                back = 'outside'
        kn = bool(exprs.tree_classes(table, fexprs.to_json(t)) & {'K1', 'K3'})
        cases.append((tps, t, fexprs.g_ftokens(o['tokens']), back, kn, o))
        ck.case(['full', list(tps), fexprs.to_json(t)])
    ck.count('full-model expression trees', len(cases))
    ck.count('full-model expression trees in Known_C08', sum(1 for c in cases if c[4]))

    def render_case(c):
        tps, t, toks, back, kn, _ = c
        gb = 'None' if back is None else ('(Some (XId 999999))' if back == 'outside' else '(Some %s)' % fexprs.g_fexpr(back))
        return '(%s, %s, %s, %s, %s)' % (g_nats(tps), fexprs.g_fexpr(t), 'None' if toks is None else '(Some %s)' % toks, gb,
                                         'true' if kn else 'false')
    fails, extras, errors = eval_fails('fexpr', shard(cases), 'fexpr_case', render_case, 'fexpr_fails', extra=['count_fwf'], header=FHEADER)
    for e in errors:
        ck.obligation('model-evaluation (full-model expressions)', False, e)
    what = {1: 'C08.FModelExpr.fimpl (model) vs source_printer (tokens of the printed expression)',
            2: 'C08.FModelExpr.parse_fexpr (model) vs samlang_parser (tree read back from the printed expression)',
            3: 'fknown (Coq) vs gen.exprs.tree_classes (Python)', 4: 'printed expression has a token outside the model',
            5: 'fsafe = negb fknown instance', 6: 'fimpl_roundtrip instance: safe well-formed tree not read back by the real parser'}
    for idx in sorted(fails)[:4]:
        tps, t, toks, back, kn, o = cases[idx]
        ck.disagree(what.get(fails[idx], 'code %d' % fails[idx]), {'tree': fexprs.to_json(t), 'tparams': list(tps)},
                    'model: Coq C08/FCorr.v fexpr_check code %d' % fails[idx], {'text': o['text'], 'reparse': o['reparse']}, how='vh fmt-run expr')
    ck.count('full-model expression trees satisfying fwf (parser-producible)', sum_extras(extras, 0))
    ck.extra_cov['full_expression_trees_compared'] = len(cases) - len(fails)
    if cases:
        ck.sample({'tree': fexprs.g_fexpr(cases[-1][1]), 'printed': cases[-1][5]['text']})
    return cases, fails


def layer_b_fparse(ck, rng, n_random, more_texts=()):
    """full model, parser only: source texts (incl. ones the printer never emits and invalid ones) through the real lexer and parser
    vs parse_fexpr on the same tokens"""
    texts = fexprs.parser_texts(rng, n_random) + [((7, 8), t) for t in more_texts]
    res = run_vh('parse-expr', [{'id': i, 'text': t, 'tparams': tparams_text(tps), 'tokens': True} for i, (tps, t) in enumerate(texts)])
    cases = []
    for (tps, t), r in zip(texts, res):
        if 'panic' in r:
            ck.count('parser-only texts on which the parser panicked (C05)')
            continue
        if r.get('lex_errors', 0) > 0:
            continue
        toks = fexprs.g_ftokens(r['tokens'])
        if toks is None:
            continue
        back = None
        if r.get('errors') == 0 and r.get('tree') is not None:
            try:
                back = fexprs.from_json(r['tree'])
            except ValueError:
                continue
        cases.append((tps, t, toks, back))
        ck.case(['parse', t])
    ck.count('parser-only source texts', len(cases))
    ck.count('parser-only source texts accepted by the real parser', sum(1 for c in cases if c[3] is not None))

    def render_case(c):
        tps, _, toks, back = c
        return '(%s, %s, %s)' % (g_nats(tps), toks, 'None' if back is None else '(Some %s)' % fexprs.g_fexpr(back))
    fails, _, errors = eval_fails('fparse', shard(cases), 'fparse_case', render_case, 'fparse_fails', header=FHEADER)
    for e in errors:
        ck.obligation('model-evaluation (parser-only texts)', False, e)
    for idx in sorted(fails)[:4]:
        tps, t, toks, back = cases[idx]
        if fails[idx] == 2:
            ck.disagree('fwf (domain of the round-trip theorems) holds of every tree the parser produces', {'text': t, 'tparams': list(tps)},
                        'fwf = true', 'fwf = false', how='vh fmt-run parse-expr')
            continue
        ck.disagree('C08.FModelExpr.parse_fexpr (model) vs samlang_parser on a source text', {'text': t, 'tparams': list(tps)},
                    'model parser differs (acceptance or tree)', {'real': None if back is None else fexprs.g_fexpr(back)}, how='vh fmt-run parse-expr')
    ck.extra_cov['parser_only_texts_compared'] = len(cases) - len(fails)
    return cases, fails


def py_import_conflict(imps):
    """twin of FModelDecl.import_conflict: some name is imported from two different modules"""
    seen = {}
    for ms, mod in imps:
        for n in ms:
            if n in seen and seen[n] != mod:
                return True
            seen.setdefault(n, mod)
    # a later line may re-import from the first module after a different one: compare all pairs
    owners = {}
    for ms, mod in imps:
        for n in ms:
            owners.setdefault(n, set()).add(tuple(mod))
    return any(len(v) > 1 for v in owners.values())


def layer_b_fmodules(ck, rng, table, n_random):
    """full model, declarations: source text -> real lexer/parser vs parse_module; real formatter tokens vs fimpl_module on the
    parsed tree; real parser on the output vs parse_module; module_ok on every parsed tree; the round-trip theorem instance
    (back = organise imports, same toplevels) outside Known_C08; import_conflict Coq vs Python; resolve invariance"""
    texts = [('hand', t) for t in fexprs.module_texts()]
    for i in range(n_random):
        r = rng.fork()
        m = fexprs.gen_module_tree(r, 1 + i % 3, conflicts=(i % 5 == 0))
        texts.append(('generated', fexprs.src_module(m, r)))
    # declaration-level mutants: drop / double / replace a token
    base = [t for _, t in texts if t]
    for _ in range(n_random // 2):
        toks = rng.pick(base).split(' ')
        i = rng.below(len(toks))
        k = rng.below(3)
        if k == 0:
            del toks[i]
        elif k == 1:
            toks.insert(i, toks[i])
        else:
            toks[i] = rng.pick(['(', ')', '{', '}', ',', ':', '<', '>', 'private', 'val', 'class', 'function', 'method', 'C7', 'v1', ';', '='])
        texts.append(('mutant', ' '.join(toks)))
    res = run_vh('module-raw', [{'id': i, 'text': t, 'width': [100, 20, 1][i % 3]} for i, (_, t) in enumerate(texts)])
    cases = []
    for (label, t), r in zip(texts, res):
        if 'panic' in r:
            ck.count('module texts on which parser or printer panicked (C05)')
            continue
        if r.get('lex_errors', 0) > 0:
            continue
        toks = fexprs.g_ftokens(r['tokens'])
        if toks is None:
            continue
        parsed = ptoks = back = None
        kn = conflict = False
        try:
            if r.get('errors') == 0:
                parsed = fexprs.module_from_json(r['raw'])
                if any(not (10 <= n <= 99) for ms, parts in parsed[0] for n in list(ms) + [x for _, x in parts]):
                    # the model orders names by their numbers; C10..C99 / v10..v99 are the spellings whose order is the numeric one
                    ck.count('declaration-level source texts skipped (import names outside the order-preserving range 10..99)')
                    continue
                kn = bool(exprs.tree_classes(table, r['raw']['toplevels']) & {'K1', 'K3'})
                conflict = py_import_conflict(parsed[0])
                p = r.get('printed') or {}
                if 'panic' in p:
                    ck.property_failure('parser panicked on the formatter output', {'module': t}, observed=p['panic'])
                    continue
                ptoks = fexprs.g_ftokens(p.get('tokens', []))
                if p.get('errors') == 0:
                    back = fexprs.module_from_json(p['raw'])
        except ValueError:
            continue
        cases.append((t, toks, parsed, ptoks, back, kn, conflict, r))
        ck.case(['module-text', t], nontrivial=parsed is not None)
        ck.count('declaration-level source texts (%s)' % label)
    ck.count('declaration-level source texts accepted by the real parser', sum(1 for c in cases if c[2] is not None))
    ck.count('declaration-level source texts with an import conflict (K7)', sum(1 for c in cases if c[6]))

    def render_case(c):
        _, toks, parsed, ptoks, back, kn, conflict, _ = c
        gm = lambda m: 'None' if m is None else '(Some %s)' % fexprs.g_module(m)
        return '(%s, %s, %s, %s, %s, %s)' % (toks, gm(parsed), 'None' if ptoks is None else '(Some %s)' % ptoks, gm(back),
                                             'true' if kn else 'false', 'true' if conflict else 'false')
    fails, _, errors = eval_fails('fmodule', shard(cases), 'fmodule_case', render_case, 'fmodule_fails', header=FHEADER)
    for e in errors:
        ck.obligation('model-evaluation (modules)', False, e)
    what = {1: 'C08.FModelDecl.parse_module (model) vs samlang_parser on a source text',
            2: 'C08.FModelDecl.fimpl_module (model) vs pretty_print_source_module (tokens of the formatted module)',
            3: 'C08.FModelDecl.parse_module (model) vs samlang_parser on the formatted module',
            4: 'module_ok (domain of module_roundtrip) holds of every module the parser produces',
            5: 'module_roundtrip instance: formatted module not read back as (organise imports, same toplevels)',
            6: 'module_known (Coq) vs gen.exprs.tree_classes (Python)', 7: 'import_conflict (Coq) vs Python',
            8: 'resolve_organise instance: a name resolves differently after import organisation without a conflict',
            9: 'formatted module has a token outside the model'}
    for idx in sorted(fails)[:4]:
        c = cases[idx]
        ck.disagree(what.get(fails[idx], 'code %d' % fails[idx]), {'module': c[0]}, 'model: Coq C08/FCorr.v fmodule_check code %d' % fails[idx],
                    {'errors': c[7].get('errors'), 'printed': (c[7].get('printed') or {}).get('text')}, how='vh fmt-run module-raw')
    ck.extra_cov['module_texts_compared'] = len(cases) - len(fails)
    return cases, fails


def token_mutants(rng, printed, n):
    """near-valid source texts: printed expressions with a token deleted, doubled, replaced, or a trailing comma inserted"""
    out = []
    pool = ['(', ')', ',', '{', '}', ';', '->', ':', '<', '>', '.', '|', '_', '=', 'v0', 'C0', '1', 'let', 'if', 'else', 'match', 'as', '-', '!', '+', 'int']
    for _ in range(n):
        toks = [t[1] for t in rng.pick(printed)]
        if not toks:
            continue
        k = rng.below(5)
        i = rng.below(len(toks))
        if k == 0:
            del toks[i]
        elif k == 1:
            toks.insert(i, toks[i])
        elif k == 2:
            toks[i] = rng.pick(pool)
        elif k == 3:
            toks.insert(i, rng.pick(pool))
        else:
            closers = [j for j, t in enumerate(toks) if t in (')', '}', '>')]
            if closers:
                toks.insert(rng.pick(closers), ',')
        out.append(' '.join(toks))
    return out


def valid_raw(r):
    """twin of C08.Lit.walk r false = Some false: the interior of a literal the lexer accepts"""
    odd = False
    for ch in r:
        if ch == '"':
            if not odd:
                return False
            odd = False
        elif ch == '\n':
            return False
        else:
            odd = (not odd) if ch == '\\' else False
    return not odd


def layer_b_literals(ck, rng, n):
    alphabet = ['a', 'b', ' ', '\\', '\\', '"', '"', 'n', 't', 'é', '`', '$', '{']
    raws = ['', '\\"', 'a\\"b', 'a\\\\', '\\\\\\"x', 'plain', 'tab\\t', 'say \\"hi\\"', '\\"\\"']
    for _ in range(n):
        raws.append(''.join(rng.pick(alphabet) for _ in range(rng.below(9))))
    vals = []                                  # (value, is it the value of an accepted literal, that literal's interior)
    for r in raws:
        if valid_raw(r):
            vals.append((r.replace('\\"', '"'), True, r))
        else:
            vals.append((r, False, None))     # arbitrary value: only model vs implementation is compared
    res = run_vh('lit', [{'id': i, 'str': v} for i, (v, _, _) in enumerate(vals)])
    cases = []
    for (v, ok, raw), r in zip(vals, res):
        if 'str_panic' in r:
            ck.property_failure('printer panicked on a string literal', {'value': v}, observed=r['str_panic'])
            continue
        toks = r['str_tokens']
        printed = r['str_printed']
        lexed = None
        if toks and toks[0][0] == 'string':
            t = toks[0][1]
            lexed = (t[1:-1], printed[len(t):])
        cases.append((v, lexed, printed, ok, raw))
        ck.case({'string': v}, nontrivial='"' in v or '\\' in v)
    ck.count('string values', len(cases))
    ck.count('string values of accepted literals', sum(1 for c in cases if c[3]))
    ck.count('string values with a quote', sum(1 for c in cases if '"' in c[0]))

    def render_case(c):
        v, lexed = c[0], c[1]
        return '(%s, %s)' % (g_codepoints(v), 'None' if lexed is None else '(Some (%s, %s))' % (g_codepoints(lexed[0]), g_codepoints(lexed[1])))
    usable = [c for c in cases if not (c[1] and c[1][1][:1] in (' ', '\t'))]
    fails, _, errors = eval_fails('lit', shard(usable, 4), 'str_case', render_case, 'str_fails')
    for e in errors:
        ck.obligation('model-evaluation (string literals)', False, e)
    for idx in sorted(fails)[:3]:
        v, lexed, printed = usable[idx][:3]
        ck.disagree('C08.Lit.lex_str (print_str s) (model) vs real printer + lexer', {'value': v}, 'see C08/Lit.v', {'printed': printed, 'lexed': lexed})
    # theorem instances on the implementation: every value of an accepted literal is printed as the text that was read
    # and is read back unchanged
    for v, lexed, printed, ok, raw in cases:
        if not ok:
            continue
        back = lexed is not None and lexed[1] == '' and lexed[0].replace('\\"', '"') == v
        if not back or printed != '"%s"' % raw:
            ck.property_failure('string literal value is not read back after printing', {'value': v, 'literal': '"%s"' % raw},
                                expected='"%s"' % raw, observed={'printed': printed, 'lexed': lexed})
    # int literals through the real lexer + parser + printer
    srcs = ['0', '7', '2147483647', '-2147483648', '- 2147483648', '1 - 2147483647', 'f(2147483647)', '-(2147483647)',
            '1 + 2147483648', 'f(2147483648)', '-  /* c */ 2147483648', '2147483648', '2147483649', '99999999999999999999']
    res = run_vh('lit', [{'id': i, 'src': s} for i, s in enumerate(srcs)])
    for s, r in zip(srcs, res):
        ints_in = [t[1] for t in r.get('src_tokens', []) if t[0] == 'int']
        ck.case({'int-source': s})
        if r.get('src_errors', 1) != 0:
            ck.count('int literal sources rejected by the gate')
            continue
        ck.count('int literal sources accepted')
        if any(t == '2147483648' for t in ints_in):
            ck.property_failure('the literal 2147483648 is accepted where it does not follow `-`', {'source': s}, 'syntax error', ints_in)
        printed = r['src_printed']
        ints_out = [t[1] for t in run_vh('lit', [{'id': 0, 'src': printed}])[0].get('src_tokens', []) if t[0] == 'int']
        if ints_in != ints_out:
            ck.property_failure('int literal text changed by formatting', {'source': s}, ints_in, ints_out)


def report(ck, cls, what, input_, expected=None, observed=None):
    """a failure that the class predicate puts into OPEN class `cls` (None: plain failure)"""
    kid = CLASS_ID.get(cls)
    is_open = kid is not None and any(k['id'] == kid and k['status'] == 'open' for k in ck.known)
    ck.property_failure(('[%s] ' % kid if is_open else '') + what, input_, expected, observed, how='./check C08 --replay <this file>',
                        klass=kid if is_open else None)


def module_fails(r):
    """does formatting change the module of result r (one width)?  -> (bool, detail)"""
    if r.get('errors', 0) > 0 or not r.get('out'):
        return False, 'the witness is no longer a syntactically valid input (%s)' % r.get('messages', '')[:80].replace('\n', ' ')
    o = r['out'][0]
    if o.get('reparse_errors', 0) > 0:
        return True, 'output has syntax errors'
    if not o.get('same_tree', True):
        return True, 'output parses to a different tree: ' + json.dumps(o.get('diff'))[:160]
    if not o.get('literals_same', True):
        return True, 'literal text changed: ' + json.dumps(o.get('literal_diff'))[:160]
    return False, 'formatting preserves the witness'


def replay_witnesses(ck):
    """every registered finding: replay its corpus witness (open: KNOWN-FINDING while it fails; fixed: must not be back)"""
    todo = [k for k in ck.known if k.get('witness') and os.path.exists(os.path.join(ROOT, k['witness']))]
    res = run_vh('module', [{'id': k['id'], 'text': open(os.path.join(ROOT, k['witness'])).read(), 'widths': [100], 'return_dump': True}
                            for k in todo]) if todo else []
    for k, r in zip(todo, res):
        still, detail = module_fails(r)
        ck.known_witness(k['id'], still, detail)
        ck.count('witness %s (%s): %s' % (k['id'], k['status'], 'fails' if still else 'passes'))


# ----------------------------------------------------------------------------------------------------------------------

EXPR_TAGS = ('bin', 'un', 'field', 'method', 'call', 'tuple', 'if', 'match', 'lambda', 'block', 'int', 'str', 'bool', 'id', 'cid')


def enclosing_exprs(dump, path):
    """expression nodes of `dump` on the way down `path`, outermost first"""
    node, found = dump, []
    parts = [p for p in path.split('#')[0].split('/') if p != '']
    for part in parts + [None]:
        if isinstance(node, list) and node and isinstance(node[0], str) and node[0] in EXPR_TAGS:
            found.append(node)
        if part is None:
            break
        try:
            node = node[int(part)] if isinstance(node, list) else node[part]
        except (KeyError, IndexError, ValueError, TypeError):
            break
    return found


def local_classes(table, dump, path):
    """classes of the smallest expression containing the difference, and of the node just above it"""
    found = enclosing_exprs(dump, path)
    out = set()
    if found:
        out |= exprs.tree_classes(table, found[-1])
        if len(found) > 1:
            out |= exprs.node_classes(table, found[-2])
    return out


def import_rebinding(dump_text):
    """K7: two import lines bind the same name"""
    import re
    names = re.findall(r'import\s*\{([^}]*)\}', dump_text)
    seen, dup = set(), False
    for group in names:
        for n in [x.strip() for x in group.split(',') if x.strip()]:
            dup = dup or n in seen
            seen.add(n)
    return dup


def monitor_modules(ck, table, mods, tag, typecheck=False):
    """mods: list of (label, text).  parse -> print(6 widths) -> parse, trees, literals, type-check verdict."""
    jobs = [{'id': i, 'text': t, 'widths': WIDTHS, 'return_dump': True, 'typecheck': typecheck, 'name': 'Test'} for i, (_, t) in enumerate(mods)]
    res = run_vh('module', jobs, timeout=2400)
    nvalid = 0
    for (label, text), r in zip(mods, res):
        if 'parse_panic' in r:
            ck.count(tag + ': parser panicked (C05)')
            continue
        if r['errors'] > 0:
            ck.count(tag + ': not syntactically valid (skipped)')
            continue
        nvalid += 1
        classes = exprs.tree_classes(table, r['dump'])
        if import_rebinding(text):
            classes.add('K7')
        ck.count(tag + ': syntactically valid')
        if typecheck:
            ck.count(tag + (': type-checks' if r.get('typecheck_errors') == 0 else ': has type errors'))
        ck.count(tag + (': in a known class' if classes else ': outside the known classes'))
        ck.case({'module': text}, nontrivial=len(text) > 60)
        for o in r['out']:
            w = o['width']
            problem, cls = None, None
            if 'print_panic' in o or 'reparse_panic' in o:
                problem = 'formatter or parser panicked on formatter input/output: ' + str(o.get('print_panic') or o.get('reparse_panic'))[:200]
            elif o['reparse_errors'] > 0:
                problem = 'formatted output has syntax errors: ' + o.get('reparse_messages', '')[:200]
                cls = None          # no open class makes the output unparsable
            elif not o['same_tree']:
                problem = 'formatted output parses to a different tree at %s: %s -> %s' % (
                    o['diff']['path'], json.dumps(o['diff']['before'])[:120], json.dumps(o['diff']['after'])[:120])
                local = local_classes(table, r['dump'], o['diff']['path'])
                cls = next((c for c in ('K1', 'K3') if c in local), None)
                if cls is None and 'K7' in classes and isinstance(o['diff']['before'], str) and isinstance(o['diff']['after'], str) \
                        and o['diff']['path'].split('/')[-1] == '1':
                    cls = 'K7'
            elif not o['literals_same']:
                problem = 'literal text changed: %s' % json.dumps(o.get('literal_diff'))[:200]
            elif typecheck and not o.get('typecheck_same', True):
                problem = 'type-check verdict changed: %s' % json.dumps(o.get('typecheck'))[:300]
            if problem:
                inp = {'module': text, 'width': w, 'label': label}
                if cls:
                    ck.count(tag + ': failures in class ' + cls)
                    report(ck, cls, problem, inp)
                else:
                    ck.property_failure(problem, inp, how='./check C08 --replay <this file>')
                break
    return nvalid


def mutants(rng, texts, n):
    """token-level mutants of the samples: swap operators, drop or double parentheses, change literals"""
    ops = ['+', '-', '*', '/', '%', '::', '<', '<=', '>', '>=', '==', '!=', '&&', '||']
    out = []
    for _ in range(n):
        label, t = rng.pick(texts)
        toks = run_vh('tokens', [{'id': 0, 'text': t}])[0].get('tokens', [])
        cand = [k for k in toks if (k[0] == 'operator' and k[1] in ops) or k[0] in ('int', 'string')]
        if not cand:
            continue
        edits = []
        for _ in range(rng.range(1, 4)):
            k = rng.pick(cand)
            if k[0] == 'operator' and k[1] in ops:
                edits.append((k[2], k[3], rng.pick(ops)))
            elif k[0] == 'int':
                edits.append((k[2], k[3], rng.pick(['0', '2147483647', '(-2147483648)', '(1 - 2)', '-(3)', '!(!true)'])))
            elif k[0] == 'string':
                edits.append((k[2], k[3], rng.pick(['"q\\"q"', '""', '"a" :: "b"'])))
            else:
                edits.append((k[2], k[3], k[1] + k[1] if rng.chance(1, 2) else ''))
        edits.sort(reverse=True)
        s, last = t, None
        for a, b, rep in edits:
            if last is not None and b > last:
                continue
            s = s[:a] + rep + s[b:]
            last = a
        out.append(('mutant of ' + label, s))
    return out


def summarise(ck):
    kinds = {}
    for mf in ck.mon_fail:
        k = mf['what'].split(':')[0][:90]
        kinds[k] = kinds.get(k, 0) + 1
    ck.extra_cov['failure_kinds'] = kinds
    ck.extra_cov['first_disagreements'] = [{'table': c['correspondence'], 'input': c['input'], 'model': c['model'],
                                            'implementation': c['implementation']} for c in ck.corr_fail[:6]]


def run(tier, seed, replay=None):
    ck = Check(PID, tier, seed, level='proof')
    ck.checker_cmd = ('regenerate coq/generated/PrecTable.v from the real precedence() functions, then make -C /verif/coq '
                      'theories/C08/Props.vo (coqc 8.16.1, full .vo build) + Print Assumptions per theorem')
    ck.trusted = [
        'Coq 8.16.1 kernel; no axioms; vm_compute for the witnesses and for evaluating the model on harness observations',
        'translator T-ops (harness/src/fmt_run.rs prec-table + lib/prectable.py): calls E::precedence() on a representative of every '
        'expression constructor and BinaryOperator::precedence()/kind_str() on every operator; the Coq printer model takes its numbers '
        'from the generated coq/generated/PrecTable.v',
        'hand models: C08/Model.v (parser levels, printer decisions: the non-commutative set {- / %}, the three-way Binary rule, the '
        'may_end_with_field_name guard on the left operand of `<` and the equal-level parentheses of a unary operand are copied by hand), C08/Layout.v (prettier.rs), C08/Lit.v (string/int literal lexing and printing) - each differentially executed '
        'against the real printer, lexer and parser on every run',
        'fragment model (Model.v, theorems 1-25): atoms, field access, one-argument call, block with one expression, unary, binary, if/else, '
        'one-arm match, one-parameter lambda',
        'full model (F*.v, theorems 26-48): every expression and statement form, patterns, type annotations, declarations, imports - hand-written, '
        'function by function after source_parser.rs / source_printer.rs; a syntax error is `None`; literal tokens the lexer cannot produce '
        '(int out of range, string interior it would not walk over) are rejected by the model parser; NOT modelled: comments (C09), error '
        'recovery, the nesting limit MAX_NESTING_DEPTH = 200; names are numbers in the order of their spellings (the tie uses C10..C99 / v10..v99 '
        'where the printer sorts); tied on every run by (a) real printer tokens = fimpl, (b) real parser on the output = parse_fexpr / parse_module, '
        '(c) class predicates Coq = Python, (d) real parser on source texts the printer never emits (trailing commas, cover-grammar paths, '
        'token mutants, declaration corner cases) = model parser, (e) theorem instances (round trip, resolve invariance) on the observations',
        'harness JSON <-> Gallina translation (gen/exprs.py, checks/c08.py)',
    ]
    try:
        table = generate()
        ck.obligation('precedence table regenerated from the real code', True, 'coq/generated/PrecTable.v')
    except Exception as e:       # noqa
        ck.obligation('precedence table regenerated from the real code', False, str(e)[:300])
        return ck.finish()
    check_props(ck, 'theories/C08/Props.v', extra_deps=['generated'])
    rc, out = coq_make(['theories/C08/Corr.vo'])
    if rc != 0:
        ck.obligation('C08/Corr.v builds', False, out[-500:])
    quick = tier == 'quick'
    rng = Rng(seed ^ 0xC08)

    if replay:
        rp = json.load(open(replay))
        inp = rp['input']
        if 'module' in inp:
            monitor_modules(ck, table, [('replay', inp['module'])], 'replay', typecheck=True)
        elif 'tree' in inp:
            r = run_vh('expr', [{'id': 0, 'e': inp['tree'], 'widths': [40]}])[0]
            ck.sample(r)
            print(json.dumps(r, indent=1)[:3000])
        elif 'doc' in inp:
            r = run_vh('doc', [{'id': 0, 'doc': inp['doc'], 'widths': [1, 8, 20, 40, 80]}])[0]
            print(json.dumps(r, indent=1)[:3000])
        elif 'source' in inp:
            print(json.dumps(run_vh('lit', [{'id': 0, 'src': inp['source']}])[0], indent=1))
        return ck.finish()

    # ---- layer B
    layer_b_docs(ck, rng.fork(), 2000 if quick else 20000)
    layer_b_exprs(ck, rng.fork(), table, 1100 if quick else 27000, all_triples=not quick)
    fcases, _ = layer_b_fexprs(ck, rng.fork(), table, 1500 if quick else 30000, all_triples=not quick)
    prng = rng.fork()
    printed = [c[5]['tokens'] for c in fcases if c[5].get('tokens')]
    layer_b_fparse(ck, prng, 300 if quick else 5000, more_texts=token_mutants(prng, printed, 1500 if quick else 30000) if printed else ())
    layer_b_fmodules(ck, rng.fork(), table, 600 if quick else 8000)
    layer_b_literals(ck, rng.fork(), 200 if quick else 3000)

    # ---- witnesses of the registered findings
    replay_witnesses(ck)

    # ---- layer C
    nmod = 300 if quick else 3000
    gen = []
    mrng = rng.fork()
    for i in range(nmod):
        gen.append(('generated', exprs.gen_module(mrng.fork(), 2 + i % 3)))
    monitor_modules(ck, table, gen, 'generated modules')
    typed = [('typed', exprs.typed_module(mrng.fork(), i)) for i in range(20 if quick else 200)]
    monitor_modules(ck, table, typed, 'well-typed modules', typecheck=True)
    samples = []
    for f in sorted(glob.glob('/repo/tests/*.sam')) + sorted(glob.glob('/repo/std/*.sam')):
        samples.append((os.path.relpath(f, '/repo'), open(f).read()))
    small = [s for s in samples if len(s[1]) < 30000]
    monitor_modules(ck, table, samples, 'tests/ and std/', typecheck=False)
    monitor_modules(ck, table, mutants(mrng.fork(), small, 150 if quick else 1500), 'mutants of tests/ and std/')
    ck.rule = ('full model: expression trees = every (parent constructor, child position) x child constructor pair over 13 constructors '
               '(61 contexts x 48 child shapes), every pattern / annotation constructor in every position, operator triples, random '
               'parser-producible trees of depth 2-5 with and without type parameters in scope; parser-only texts = hand-written corner '
               'cases, random token strings and single-token mutants of printed expressions; modules = hand-written declaration corner '
               'cases, generated modules (imports with and without conflicts, classes / interfaces with every optional part) as source '
               'text, single-token mutants; documents: random Document trees (depth 2-6, texts incl. multi-byte and blank-carrying strings, arbitrary and group-built '
               'unions) at widths 1/8/20/40/80, exact string equality; expression trees: every (parent constructor, child position) x child '
               'constructor pair, operator triples, random trees of depth 2-5, ALL of them incl. Known_C08 ones; modules: generated text with '
               'explicit and redundant parentheses, tests/*.sam, std/*.sam and their token-level mutants at widths 1/20/40/80/100/200; '
               'distinct = distinct canonical input; non-trivial = rendering depends on the width (documents), module longer than 60 bytes')
    summarise(ck)
    return ck.finish()
