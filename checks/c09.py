"""C09 — formatting is idempotent and keeps every comment (DESIGN.md section 4, C09)."""
import glob
import json
import os
import re

from checks import c08
from checks.c08 import g_codepoints, run_vh, shard
from gen import exprs
from gen.rng import Rng
from lib.vlib import Check, check_props, coq_eval_many, coq_make

PID = 'C09'
HEADER = ('From Coq Require Import List Arith Bool NArith. Import ListNotations.\n'
          'From SV Require Import C08.Layout C08.Corr C09.Model C09.Corr.\n')
ID_LOST = 'C09-comments-dropped'
ID_ORDER = 'C09-comments-reordered'
ID_IDEM = 'C09-not-idempotent-with-comments'
ID_TEXT = 'C09-comment-text-changed'


def generate():
    return c08.generate()


# ----------------------------------------------------------------------------------------------------------------------
# Class predicates of the OPEN C09 findings.  A site is a comment directly BEFORE token `nxt` (`prev` = the token before
# it); `x` carries the syntactic context computed from the UNINJECTED text by the real parser (vh fmt-run inject):
#   encl_open / encl_prev : innermost bracket open at the site and the token before that bracket
#   encl_expr_list        : that bracket opens call arguments or a tuple expression
#   next_is_type          : `nxt` starts a type annotation
# The comment lists are handed to the production that consumes `nxt`; the positions below are those whose production
# discards the list or stores it in a slot the printer never prints.  Repaired by 592ecfc and therefore NOT in the
# class any more: before `=`, before `->`, before `:`, before `,` inside call arguments, before a type name.

OPERATOR_LIKE = {',', '*', '=', '!', '==', '!=', '/', '%', '+', '-', '||', '&&', '->', '<', '<=', '>', '>=', '::', '(', 'if', 'match',
                 'else', '{', ';', ':'}
EXPR_END = {'int', 'string', 'lower-id', 'upper-id', 'true', 'false', 'this', ')', '}'}
CALLEE_END = {'lower-id', 'upper-id', ')', '>', 'this', '}'}


def sig(tok):
    if tok is None:
        return 'EOF'
    return tok[1] if tok[0] in ('operator', 'keyword') else tok[0]


def in_call_arguments(x):
    return bool(x.get('encl_expr_list')) and sig(x.get('encl_prev')) in CALLEE_END


def known_lost_site(prev, nxt, x):
    """C09-comments-dropped"""
    if nxt in ('=', '->', ':'):
        return False                                  # kept (592ecfc and the productions that always stored them)
    if nxt == ',':
        if x.get('encl_expr_list'):
            # call arguments: kept.  Tuple of identifiers `(a, b, ...`: the parser's look-ahead path turns the ids into
            # LocalId nodes without their comments
            return prev == 'lower-id' and not in_call_arguments(x)
        return True                                   # patterns, struct fields, variants, imports, type parameters
    if nxt == 'upper-id':
        if x.get('next_is_type'):
            return False                              # 592ecfc
        return prev in ('{', 'class', ',', '(', 'interface', 'private', '|')
    if nxt == 'lower-id':
        if prev in ('val', 'method', 'function', 'as', '>', '{'):
            return True
        if prev in (',', '('):
            return not in_call_arguments(x)           # `( id ...` look-ahead paths, lambda parameters, pattern fields
        return False
    if nxt == '<':
        return prev in ('function', 'method', 'upper-id')
    if nxt in ('>', 'else', 'val', 'as', '|', ';'):
        return True
    if nxt == 'if':
        return prev == 'else'
    if nxt == 'private':
        return prev in ('(', ',')
    if nxt == '{':
        return prev in EXPR_END or prev == 'else'
    if nxt == '(':
        return prev in OPERATOR_LIKE                  # parenthesised single expression
    if nxt == ')':
        return prev in EXPR_END and not x.get('encl_expr_list')
    return False


def known_order_site(prev, nxt, x):
    """C09-comments-reordered: the comment list of `;` / `}` is prepended to the block's own comments"""
    return nxt in (';', '}')


STATS = {}


def known_idem_site(prev, nxt, x):
    """C09-not-idempotent-with-comments: the parser re-attaches the comment to the node that follows, so that it is printed behind
    the token and is attached to another node (or sits at a known_lost_site) when the output is parsed again.  The positions
    (measured on 60 000 injections of the thorough tier; every other position was idempotent each time and is OUTSIDE the class):
      - before the closing `}` of a block whose last token ends an expression (the block's final expression);
      - before `,` in call arguments / tuples (an expression list in parentheses), not in match arms, patterns, declarations;
      - before the `->` of a match arm (inside braces), not in lambdas or function types;
      - before the `=` of a member definition (after its return type), not in `let` statements."""
    encl = x.get('encl_open')
    if nxt == '}':
        return prev in (EXPR_END - {'upper-id'})
    if nxt == ',':
        return encl == '(' and bool(x.get('encl_expr_list'))
    if nxt == '->':
        return encl == '{'
    if nxt == '=':
        return encl == '{' and prev in ('>', 'bool', 'int', 'unit', 'upper-id')
    return False


# ----------------------------------------------------------------------------------------------------------------------

def eval_fails(tag, shards, typ, render_case, fn):
    jobs = []
    for si, sh_ in enumerate(shards):
        body = HEADER + 'Definition cases : list (%s) := [%s].\n' % (typ, ';\n '.join(render_case(x) for _, x in sh_))
        body += 'Eval vm_compute in (%s cases).\n' % fn
        jobs.append(('c09_%s_%d' % (tag, si), body))
    outs = coq_eval_many(jobs)
    fails, errors = {}, []
    for sh_, (rc, out) in zip(shards, outs):
        if rc != 0:
            errors.append(out[-1200:])
            continue
        m = re.search(r'^\s*=\s*(.*?)\n\s*:\s', out, re.S | re.M)
        if not m:
            errors.append(out[-800:])
            continue
        for a, b in re.findall(r'\((\d+)%N, (\d+)%N\)', ' '.join(m.group(1).split())):
            fails[sh_[int(a)][0]] = int(b)
    return fails, errors


def normalised(text):
    ws = text.split(' ')
    return all(w != '' and not any(c.isspace() for c in w) for w in ws) and not text.startswith('*') and '*/' not in text


def star_text(kind, text):
    """C09-comment-text-changed: a block or doc comment whose text starts with `*`"""
    return kind in ('KBlock', 'KDoc', 'block-comment', 'doc-comment') and text.startswith('*')


def long_line_comment(kind, text, width):
    """C09-not-idempotent-with-comments, second clause: a line comment that cannot fit the width (8 = room for indentation)"""
    return kind in ('KLine', 'line-comment') and len(text) + 3 + 8 > width


def module_classes(sites, width):
    """open classes that some comment of a module falls into (sites: vh fmt-run comment-sites)"""
    out = set()
    for x in sites:
        prev, nxt = sig(x['prev']), sig(x['next'])
        if known_lost_site(prev, nxt, x):
            out.add(ID_LOST)
        if known_order_site(prev, nxt, x):
            out.add(ID_ORDER)
        if known_idem_site(prev, nxt, x) or long_line_comment(x['kind'], x['text'], width):
            out.add(ID_IDEM)
        if star_text(x['kind'], x['text']):
            out.add(ID_TEXT)
            out.add(ID_IDEM)
    return out


def report(ck, kid, what, input_, expected=None, observed=None):
    """a failure that the class predicate puts into OPEN class `kid`"""
    is_open = any(k['id'] == kid and k['status'] == 'open' for k in ck.known)
    ck.property_failure(('[%s] ' % kid if is_open else '') + what, input_, expected, observed, how='./check C09 --replay <this file>',
                        klass=kid if is_open else None)


def layer_b_comments(ck, rng, n):
    widths = [1, 6, 12, 20, 40, 80]
    kinds = ['KLine', 'KBlock', 'KDoc']
    cases = []
    jobs = []
    for i in range(n):
        k = kinds[i % 3]
        text = exprs.gen_comment_text(rng) if i % 4 else ' '.join(rng.pick(['lorem', 'ipsum', 'dolor', 'sit', 'amet', 'x', 'yy', 'w*', '/z'])
                                                                   for _ in range(rng.range(1, 14)))
        doc = ['linecomment', text] if k == 'KLine' else ['multiline', k == 'KDoc', text]
        cases.append((k, text))
        jobs.append({'id': i, 'doc': doc, 'widths': widths})
    res = run_vh('doc', jobs)
    tok_jobs, idx = [], []
    for i, r in enumerate(res):
        for w, o in zip(widths, r['out']):
            if isinstance(o, str):
                tok_jobs.append({'id': len(tok_jobs), 'text': o})
                idx.append((i, w, o))
    toks = run_vh('tokens', tok_jobs)
    obs = {}
    for (i, w, o), t in zip(idx, toks):
        comments = [x[1] for x in t.get('tokens', []) if x[0].endswith('comment')]
        others = [x for x in t.get('tokens', []) if not x[0].endswith('comment')]
        obs.setdefault(i, []).append((w, o, comments, others))
    full = []
    for i, (k, text) in enumerate(cases):
        o = obs.get(i, [])
        if len(o) != len(widths):
            ck.property_failure('layout engine panicked on a comment document', {'kind': k, 'text': text})
            continue
        full.append((k, text, o))
        ck.case({'comment': [k, text]}, nontrivial=len({x[1] for x in o}) > 1)
        # the statement on the implementation: normalised text is read back unchanged at every width
        if normalised(text) and text != '':
            for w, out, comments, others in o:
                back = ' '.join(c for c in comments if c != '')
                if others or back != text:
                    ck.property_failure('comment text read back differently after rendering at width %d' % w,
                                        {'kind': k, 'text': text, 'width': w}, text, {'rendered': out, 'comments': comments})
                    break
                if k == 'KLine' and '' in comments:
                    ck.count('wrapped line comments that leave an empty `//` line (class C09-not-idempotent-with-comments)')
        elif star_text(k, text):
            # C09-comment-text-changed: block / doc comment text that starts with `*`
            w, out, comments, others = o[-1]
            if comments != [text]:
                ck.count('block comment texts starting with * that lose a star')
                report(ck, ID_TEXT, 'block comment text starting with `*` is read back differently', {'kind': k, 'text': text, 'width': w},
                       text, {'rendered': out, 'comments': comments})
    ck.count('comment documents', len(full))
    ck.count('comment documents whose rendering depends on the width', sum(1 for _, _, o in full if len({x[1] for x in o}) > 1))

    def render_case(c):
        k, text, o = c
        return '(%s, %s, [%s])' % (k, g_codepoints(text), '; '.join(
            '(%d, %s, [%s])' % (w, g_codepoints(out), '; '.join(g_codepoints(x) for x in comments)) for w, out, comments, _ in o))
    fails, errors = eval_fails('cm', shard(full), 'comment_case', render_case, 'comment_fails')
    for e in errors:
        ck.obligation('model-evaluation (comment documents)', False, e)
    for i in sorted(fails)[:3]:
        k, text, o = full[i]
        what = {1: 'C08.Layout.render of C09.Model comment documents (model) vs prettier.rs line_comment/multiline_comment',
                2: 'C09.Model comment lexers (model) vs lexer.rs on rendered comments'}[fails[i]]
        ck.disagree(what, {'kind': k, 'text': text}, 'Coq C09/Corr.v comment_check code %d' % fails[i],
                    {w: {'rendered': out, 'comments': cs} for w, out, cs, _ in o})
    # the round-trip statement on the model, all widths 0..40 and a few larger ones
    norm = [(k, t) for k, t, _ in full if normalised(t) and t != ''][:300]
    ws = list(range(0, 41)) + [60, 80, 100, 200]
    rfails, errors = eval_fails('rt', shard(norm), 'ckind * str * list nat',
                                lambda c: '(%s, %s, [%s])' % (c[0], g_codepoints(c[1]), '; '.join(str(w) for w in ws)), 'roundtrip_fails')
    for e in errors:
        ck.obligation('model-evaluation (comment round trip)', False, e)
    for i in sorted(rfails)[:3]:
        ck.disagree('comment text round trip on the model (render at widths 0..40,60,80,100,200 then re-lex)', {'kind': norm[i][0], 'text': norm[i][1]},
                    'text read back', 'differs at some width')
    ck.count('normalised comment texts whose round trip was evaluated on the model at 45 widths', len(norm))


def layer_b_handout(ck, rng, n):
    cases = []
    for _ in range(n):
        items = [(rng.chance(2, 5), rng.below(100)) for _ in range(rng.below(14))]
        sched = [rng.chance(3, 5) for _ in range(rng.below(24))]
        cases.append((items, sched))

    def render_case(c):
        items, sched = c
        return '([%s], [%s])' % ('; '.join('(%s, %d)' % ('true' if a else 'false', b) for a, b in items),
                                 '; '.join('true' if s else 'false' for s in sched))
    fails, errors = eval_fails('ho', shard(cases, 4), 'list (bool * nat) * list bool', render_case, 'collect handout_check 0%N')
    for e in errors:
        ck.obligation('model-evaluation (hand-out)', False, e)
    for i in sorted(fails)[:2]:
        ck.disagree('C09_handout_exact instance', {'items': cases[i][0], 'schedule': cases[i][1]}, 'equal', 'differs')
    ck.count('hand-out schedules evaluated', len(cases))


# ----------------------------------------------------------------------------------------------------------------------

def monitor_twice(ck, mods, tag):
    """format twice, byte for byte; comment inventory before / after; parser store vs lexer.  A failure is put into an open
    class only if some comment of the module sits at a site of that class (module_classes)."""
    res = run_vh('module', [{'id': i, 'text': t, 'widths': [100, 40], 'name': 'Test'} for i, (_, t) in enumerate(mods)], timeout=2400)
    sites = run_vh('comment-sites', [{'id': i, 'text': t} for i, (_, t) in enumerate(mods)], timeout=2400)
    for (label, text), r, sr in zip(mods, res, sites):
        if r.get('errors', 1) != 0 or 'out' not in r:
            ck.count(tag + ': not syntactically valid (skipped)')
            continue
        ck.count(tag + ': formatted twice')
        ck.case({'module': text}, nontrivial=bool(r['comments']))

        def fail(kid, what, width):
            inp = {'module': text, 'width': width, 'label': label}
            if kid in module_classes(sr.get('comments', []), width):
                ck.count(tag + ': module-level failure in an open class')
                report(ck, kid, what, inp)
            else:
                ck.property_failure(what, inp, how='./check C09 --replay <this file>')
        if r['ast_comments'] < len(r['comments']):
            fail(ID_LOST, 'the parser discarded %d of %d comments (comment store vs lexer)' % (
                len(r['comments']) - r['ast_comments'], len(r['comments'])), 100)
        for o in r['out']:
            if o.get('reparse_errors', 0) > 0 or 'print_panic' in o or not o.get('same_tree', True):
                ck.count(tag + ': output not read back as the same tree (C08), idempotence not judged')
                continue        # C08's business
            a, b = sorted(map(json.dumps, r['comments'])), sorted(map(json.dumps, o['comments']))
            if a != b and o['width'] == 100:
                fail(ID_LOST, 'comments before/after differ (%d -> %d)' % (len(a), len(b)), 100)
                break
            if not o.get('idempotent', True):
                fail(ID_IDEM, 'format(format(x)) != format(x) at width %d: %s' % (o['width'], json.dumps(o.get('idem_diff'))[:200]), o['width'])
                break


def monitor_inject(ck, rng, mods, budget, tag):
    jobs = []
    per = max(1, budget // max(1, len(mods)))
    tok = run_vh('tokens', [{'id': i, 'text': t} for i, (_, t) in enumerate(mods)])
    for (label, text), tr in zip(mods, tok):
        toks = [t for t in tr.get('tokens', []) if not t[0].endswith('comment')]
        offs = sorted({t[2] for t in toks} | {t[3] for t in toks})
        if not offs:
            continue
        chosen = offs if len(offs) <= per else [offs[i] for i in sorted({rng.below(len(offs)) for _ in range(per)})]
        sites = [[off, ['line', 'block', 'doc'][rng.below(3)], 'zq%dq' % k] for k, off in enumerate(chosen)]
        jobs.append({'id': len(jobs), 'text': text, 'sites': sites, 'name': 'Test', 'label': label})
    res = run_vh('inject', jobs, timeout=2400)
    for job, r in zip(jobs, res):
        for x in r['results']:
            if x.get('status') != 'ok':
                ck.count(tag + ': injection makes the module invalid (skipped)' if x.get('status') == 'syntax' else tag + ': panic')
                if 'panic' in x:
                    ck.property_failure('formatter panicked with an injected comment: ' + str(x['panic'])[:200],
                                        {'module': job['text'], 'site': x['site']})
                continue
            prev, nxt = sig(x['prev']), sig(x['next'])
            ck.case({'module': job['text'], 'site': x['site']})
            ck.count(tag + ': injections')
            inp = {'module': job['text'], 'site': x['site'], 'prev': prev, 'next': nxt, 'label': job['label']}
            if not x['present'] or x['others_lost']:
                if known_lost_site(prev, nxt, x):
                    ck.count(tag + ': comment dropped at a known position')
                    report(ck, ID_LOST, 'comment before `%s` (after `%s`) is dropped' % (nxt, prev), inp)
                else:
                    ck.property_failure('comment before `%s` (after `%s`) is dropped (position outside the known class)' % (nxt, prev), inp)
            elif not x['same_sequence']:
                if known_order_site(prev, nxt, x):
                    ck.count(tag + ': comment reordered at a known position')
                    report(ck, ID_ORDER, 'comment before `%s` (after `%s`) changes its place among the comments' % (nxt, prev), inp)
                else:
                    ck.property_failure('comment before `%s` (after `%s`) changes its place among the comments' % (nxt, prev), inp)
            elif x.get('reparse_errors', 0) == 0 and x.get('same_tree', True) and not x.get('idempotent', True):
                STATS.setdefault((prev, nxt, x.get('encl_open'), sig(x.get('encl_prev')), bool(x.get('encl_expr_list'))), [0, 0])[1] += 1
                if known_idem_site(prev, nxt, x):
                    ck.count(tag + ': not idempotent at a known position')
                    report(ck, ID_IDEM, 'with a comment before `%s` (after `%s`) format(format(x)) != format(x)' % (nxt, prev), inp)
                else:
                    ck.property_failure('with a comment before `%s` (after `%s`) format(format(x)) != format(x)' % (nxt, prev), inp)
            else:
                if nxt in ('}', '=', '->', ','):
                    STATS.setdefault((prev, nxt, x.get('encl_open'), sig(x.get('encl_prev')), bool(x.get('encl_expr_list'))), [0, 0])[0] += 1
                ck.count(tag + ': comment kept, order kept, idempotent')


# witnesses replayed on every run: the corpus file registered in known_findings.json, except where a sharper one is given here
OWN_WITNESS = {
    ID_ORDER: 'class Main {\n  function main(): int = { /* a */ let x = 1; f(x) /* b */; 2 }\n}\n',
}


def comment_fails(r):
    """does formatting lose, reorder or destabilise the comments of result r?  -> (bool, detail)"""
    if r.get('errors', 0) > 0 or not r.get('out'):
        return False, 'the witness is no longer a syntactically valid input'
    o = r['out'][0]
    if r['comments'] != o.get('comments'):
        return True, 'comments %s -> %s' % (json.dumps(r['comments'])[:120], json.dumps(o.get('comments'))[:120])
    if not o.get('idempotent', True):
        return True, 'format(format(x)) != format(x): ' + json.dumps(o.get('idem_diff'))[:160]
    return False, 'comments kept in order, formatting idempotent'


def replay_witnesses(ck):
    todo = []
    for k in ck.known:
        text = OWN_WITNESS.get(k['id']) if k['status'] == 'open' else None
        path = os.path.join('/verif', k.get('witness') or '')
        if text is None and k.get('witness') and os.path.exists(path):
            text = open(path).read()
        if text is not None:
            todo.append((k, text))
    res = run_vh('module', [{'id': k['id'], 'text': t, 'widths': [100]} for k, t in todo]) if todo else []
    for (k, _), r in zip(todo, res):
        still, detail = comment_fails(r)
        ck.known_witness(k['id'], still, detail)
        ck.count('witness %s (%s): %s' % (k['id'], k['status'], 'fails' if still else 'passes'))


def run(tier, seed, replay=None):
    ck = Check(PID, tier, seed, level='proof (partial)')
    ck.checker_cmd = ('regenerate coq/generated/PrecTable.v, then make -C /verif/coq theories/C09/Props.vo (coqc 8.16.1, full .vo build) '
                      '+ Print Assumptions per theorem')
    ck.trusted = [
        'Coq 8.16.1 kernel; no axioms; vm_compute to evaluate the model on harness observations',
        'everything C08 trusts (C09 (i) is a corollary of the C08 round trip; the layout model C08/Layout.v renders the comment documents)',
        'hand models C09/Model.v of prettier.rs line_comment / multiline_comment, of lexer.rs lex_line_comment_opt / lex_block_comment_opt / '
        'post_process_block_comment, and of SourceParser::peek / consume; the first two are differentially executed against the real '
        'engine and the real lexer on every run',
        'NOT proved, monitored only: that each parser production stores the comment list it is handed and that each AST comment slot is '
        'printed; the wrapped layouts of comments (proved: the one-line layout; wrapped layouts: model evaluated at 45 widths)',
    ]
    try:
        generate()
        ck.obligation('precedence table regenerated from the real code', True, 'coq/generated/PrecTable.v')
    except Exception as e:       # noqa
        ck.obligation('precedence table regenerated from the real code', False, str(e)[:300])
        return ck.finish()
    check_props(ck, 'theories/C09/Props.v', extra_deps=['generated', 'theories/C08'])
    rc, out = coq_make(['theories/C09/Corr.vo'])
    if rc != 0:
        ck.obligation('C09/Corr.v builds', False, out[-500:])
    quick = tier == 'quick'
    rng = Rng(seed ^ 0xC09)

    if replay:
        rp = json.load(open(replay))
        inp = rp['input']
        if 'site' in inp:
            r = run_vh('inject', [{'id': 0, 'text': inp['module'], 'sites': [inp['site']], 'return_text': True}])[0]
            print(json.dumps(r, indent=1)[:4000])
        elif 'module' in inp:
            r = run_vh('module', [{'id': 0, 'text': inp['module'], 'widths': [inp.get('width', 100)], 'return_text': True}])[0]
            print(json.dumps(r, indent=1)[:4000])
        else:
            print(json.dumps(run_vh('doc', [{'id': 0, 'doc': ['linecomment' if inp['kind'] == 'KLine' else 'multiline'] + (
                [inp['text']] if inp['kind'] == 'KLine' else [inp['kind'] == 'KDoc', inp['text']]), 'widths': [inp.get('width', 20)]}])[0], indent=1))
        return ck.finish()

    layer_b_comments(ck, rng.fork(), 300 if quick else 3000)
    layer_b_handout(ck, rng.fork(), 200 if quick else 2000)

    replay_witnesses(ck)

    mrng = rng.fork()
    gen = [('generated', exprs.gen_module(mrng.fork(), 2 + i % 3, avoid={'K7'})) for i in range(400 if quick else 2000)]
    samples = [(os.path.relpath(f, '/repo'), open(f).read()) for f in sorted(glob.glob('/repo/tests/*.sam')) + sorted(glob.glob('/repo/std/*.sam'))]
    monitor_twice(ck, gen, 'generated modules')
    monitor_twice(ck, samples, 'tests/ and std/')
    small = [s for s in samples if len(s[1]) < 20000]
    monitor_inject(ck, mrng.fork(), gen, 2500 if quick else 30000, 'generated modules')
    monitor_inject(ck, mrng.fork(), small, 2500 if quick else 40000, 'tests/ and std/')
    ck.rule = ('comment documents: line / block / doc comments with random texts (normalised and not) rendered stand-alone at widths '
               '1/6/12/20/40/80, exact string equality model vs engine, then re-lexed by model and by the real lexer; modules: generated text, '
               'tests/*.sam, std/*.sam formatted twice at widths 100 and 40; one comment (line, block or doc, chosen at random) injected before '
               'or after a token, sampled to the budget; distinct = distinct (module, site); non-trivial = module has comments')
    c08.summarise(ck)
    return ck.finish()
