"""C10 — incremental language-server diagnostics equal a from-scratch analysis (DESIGN.md 4, C10)."""
import json
import os
import re

from gen import hist as H
from gen.rng import Rng
from lib.vlib import Check, check_props, coq_eval, coq_result, vh

PID = 'C10'


def run_histories(hs, timeout=1500):
    """One result per history, in order.  A history on which the server process dies (an abort that no catch_unwind sees: a
    panic while panicking, a worker-thread panic, a stack overflow) gets a synthetic result with a `panic` step, found by
    re-running the histories after the last answered one on their own."""
    rc, out = vh(['server-run'], input='\n'.join(json.dumps(h) for h in hs) + '\n', timeout=timeout)
    res = [json.loads(l) for l in out.splitlines() if l.startswith('{')]
    if len(res) == len(hs):
        return res
    if len(hs) == 1:
        tail = ' | '.join(l for l in out.splitlines() if not l.startswith('{'))[-400:]
        return [{'steps': [{'panic': 'the server process died (exit %s): %s' % (rc, tail)}]}]
    # results come in input order: everything up to len(res) was answered; the next history killed the process
    k = len(res)
    return res + run_histories([hs[k]], timeout) + (run_histories(hs[k + 1:], timeout) if k + 1 < len(hs) else [])


def first_diff(res):
    """(step index, module, incr, fresh) of the first step where the stored diagnostics differ from a fresh server."""
    for i, s in enumerate(res['steps']):
        if 'panic' in s or 'fresh_panic' in s or 'incr' not in s:
            return (i, None, s.get('panic') or s.get('fresh_panic'), None)
        if s['incr'] != s['fresh']:
            for m in sorted(set(s['incr']) | set(s['fresh'])):
                if s['incr'].get(m) != s['fresh'].get(m):
                    return (i, m, s['incr'].get(m, []), s['fresh'].get(m, []))
    return None


def shrink(h):
    """ddmin-lite: drop operations / init modules while the first difference persists."""
    def fails(x):
        return first_diff(run_histories([x])[0]) is not None
    cur = {'init': dict(h['init']), 'ops': list(h['ops'])}
    d = first_diff(run_histories([cur])[0])
    if d is None:
        return cur
    cur['ops'] = cur['ops'][:max(d[0], 0)]
    changed = True
    while changed:
        changed = False
        for i in range(len(cur['ops'])):
            cand = {'init': cur['init'], 'ops': cur['ops'][:i] + cur['ops'][i + 1:]}
            if fails(cand):
                cur, changed = cand, True
                break
        if changed:
            continue
        for m in list(cur['init']):
            cand = {'init': {k: v for k, v in cur['init'].items() if k != m}, 'ops': cur['ops']}
            if fails(cand):
                cur, changed = cand, True
                break
    return cur


def classify(h, d):
    """Known-finding class of a difference, or None."""
    return None


def dep_graph_correspondence(ck, tier, seed):
    """Layer B: the model's `affected` vs DependencyGraph::affected_set (samlang_verif hook) on random graphs."""
    import re
    rng = Rng(seed ^ 0xD06)
    n = 400 if tier == 'quick' else 4000
    graphs = []
    for _ in range(n):
        k = rng.range(1, 7)
        mods = {}
        for i in range(k):
            if rng.chance(5, 6):
                deg = rng.pick([0, 1, 1, 2, 3])
                mods[i] = sorted({rng.below(k + 2) for _ in range(deg)})   # cyclic, self and missing imports
        dirty = sorted({rng.below(k + 2) for _ in range(rng.range(1, 2))})
        graphs.append((mods, dirty))
    inp = '\n'.join(json.dumps({'mods': {'M%d' % m: ['M%d' % y for y in ys] for m, ys in g.items()}, 'dirty': ['M%d' % d for d in dirty]})
                    for g, dirty in graphs) + '\n'
    rc, out = vh(['dep-run'], input=inp)
    impl = [sorted(int(x[1:]) for x in json.loads(l)['affected']) for l in out.splitlines() if l.startswith('{')]
    if len(impl) != len(graphs):
        ck.obligation('dep-run', False, out[-500:])
        return
    body = ('From Coq Require Import List NArith. Import ListNotations.\nFrom SV Require Import C10.Corr.\n'
            'Definition gs : list (graph * list nat) := [\n%s].\n'
            'Eval vm_compute in (map (fun c => affected_sorted (fst c) (snd c)) gs).\n' % ';\n'.join(
                '([%s], [%s])' % ('; '.join('(%d, [%s])' % (m, '; '.join(map(str, ys))) for m, ys in sorted(g.items())),
                                  '; '.join(map(str, dirty))) for g, dirty in graphs))
    rc, out = coq_eval('c10_dep', body)
    res = coq_result(out) if rc == 0 else None
    if res is None:
        ck.obligation('model-evaluation(dep graph)', False, out[-600:])
        return
    items = re.findall(r'Some \[([^\]]*)\]|None', res)
    model = []
    for m in re.finditer(r'Some \[([^\]]*)\]|None', res):
        if m.group(0) == 'None':
            model.append(None)
        else:
            model.append(sorted(int(x.replace('%N', '')) for x in m.group(1).split(';') if x.strip()))
    if len(model) != len(graphs):
        ck.obligation('model-evaluation(dep graph)', False, 'could not parse %d results' % len(model))
        return
    for (g, dirty), a, b in zip(graphs, impl, model):
        ck.case(['dep', sorted(g.items()), dirty], len(g) > 1)
        ck.count('dep_graph_cases')
        if a != b:
            ck.disagree('C10.Corr.affected_sorted vs DependencyGraph::affected_set', {'graph': {str(k): v for k, v in g.items()}, 'dirty': dirty}, b, a)
    ck.obligation('dependency-closure correspondence ran', True, '%d graphs' % len(graphs))


# ----------------------------------------------------------------------------- hypotheses of the theorem, tested directly
IMPORT_RX = re.compile(r'import\s*\{[^}]*\}\s*from\s+([A-Za-z0-9_.]+)')


def reach_through_imports(sources, m):
    seen, todo = set(), [m]
    while todo:
        x = todo.pop()
        if x in seen:
            continue
        seen.add(x)
        for y in IMPORT_RX.findall(sources.get(x, '')):
            if y not in seen:
                todo.append(y)
    return seen


def hypothesis_monitor(ck, tier, seed):
    """H_local (with H_refs) of C10_incremental_eq_fresh, on the real front end: the diagnostics of a module depend only on
    the modules it reaches through imports. Two FRESH type-checks of module sets that differ in one module u; every module
    that does not reach u must get the same diagnostics."""
    from lib.front import run_jobs
    rng = Rng(seed ^ 0x10CA1)
    n = 120 if tier == 'quick' else 1500
    pairs = []
    for i in range(n):
        r = rng.fork()
        h = H.gen_history(r, nmods=r.range(3, 6), nsteps=3)
        src = dict(h['init'])
        if len(src) < 2:
            continue
        u = r.pick(sorted(src))
        kind = r.below(3)
        src2 = dict(src)
        if kind == 0:
            del src2[u]                                              # the module disappears
        else:
            src2[u] = H.module_text(r, u, sorted(src), long_ids=False)  # another version (other types, imports, errors)
        pairs.append((src, src2, u))
    jobs = []
    for i, (a, b, _) in enumerate(pairs):
        jobs.append({'id': 2 * i, 'sources': a, 'entries': [], 'compile': False})
        jobs.append({'id': 2 * i + 1, 'sources': b, 'entries': [], 'compile': False})
    res = {}
    chunks = [jobs[i::16] for i in range(16)]
    import concurrent.futures
    with concurrent.futures.ThreadPoolExecutor(max_workers=16) as ex:
        for part in ex.map(lambda c: run_jobs(c) if c else [], chunks):
            for x in part:
                res[x['id']] = x
    checked = 0
    for i, (a, b, u) in enumerate(pairs):
        ra, rb = res.get(2 * i), res.get(2 * i + 1)
        if ra is None or rb is None or ra.get('front_panic') or rb.get('front_panic'):
            continue
        for m in sorted(a):
            if m == u or m not in b:
                continue
            # m must not reach u in either version of the sources
            if u in reach_through_imports(a, m) or u in reach_through_imports(b, m):
                continue
            ea = sorted((e['kind'], e['loc'], e['msg']) for e in ra['errors'] if e['module'] == m)
            eb = sorted((e['kind'], e['loc'], e['msg']) for e in rb['errors'] if e['module'] == m)
            checked += 1
            ck.case(['H_local', m, u, a[m]], bool(ea))
            if ea != eb:
                ck.property_failure('diagnostics of module %s change when module %s, which it does not reach through imports, changes '
                                    '(hypothesis H_local of C10_incremental_eq_fresh fails on the real checker)' % (m, u),
                                    {'sources_before': a, 'sources_after': b, 'module': m, 'changed': u}, expected=ea[:5], observed=eb[:5])
    ck.count('H_local:module-pairs-checked', checked)
    ck.obligation('hypothesis H_local tested on fresh type-checks', checked > 0, '%d (module, unrelated change) pairs' % checked)


def run(tier, seed, replay=None):
    ck = Check(PID, tier, seed, level='proof')
    ck.checker_cmd = 'make -C /verif/coq theories/C10/Props.vo (coqc 8.16.1) + Print Assumptions per theorem'
    ck.trusted = [
        'Coq 8.16.1 kernel; no axioms',
        'hand-written model theories/C10/*.v of crates/samlang-services/src/{server_state,dep_graph}.rs; parser and checker are '
        'Section variables with hypotheses H-refs, H1 (check depends only on the signatures reachable through imports), H3',
        'tie: the real ServerState is driven through generated edit histories and, after every step, compared with a fresh '
        'ServerState on the same texts (harness/src/server_run.rs); the dependency-graph closure of the model is compared with '
        'DependencyGraph::affected_set through the samlang_verif hook',
    ]
    ck.assumptions = ['H-refs, H1, H3 of theories/C10/Model.v about the real parser/checker (tested along the histories, not proved)']
    if os.path.exists('/verif/coq/theories/C10/Props.v'):
        check_props(ck, 'theories/C10/Props.v')
    if replay:
        rp = json.load(open(replay))
        hs = [rp['input']['history']]
    else:
        n = 250 if tier == 'quick' else 5000
        rng = Rng(seed)
        hs = []
        cdir = '/verif/corpus/C10'
        if os.path.isdir(cdir):
            for fn in sorted(os.listdir(cdir)):
                hs.append(json.load(open(os.path.join(cdir, fn)))['history'])
        for i in range(n):
            r = rng.fork()
            hs.append(H.gen_history(r, nmods=rng.range(2, 6), nsteps=12 if tier == 'quick' else 25, long_ids=(len(hs) % 3 == 1)))
    for i, h in enumerate(hs):
        h['id'] = i
    ck.rule = ('histories of update/create/rename/remove over 2-6 modules whose contents import each other (cyclic, missing, '
               'self imports; unexported names), depend on each other through signatures directly and transitively, and are '
               'valid, ill-typed or unparsable; distinct = distinct history JSON; non-trivial = some step has diagnostics')
    results = run_histories(hs)
    reported = 0
    for h, res in zip(hs, results):
        for o in h['ops']:
            ck.count('op:' + o['op'])
        nontrivial = any(s.get('incr') for s in res['steps'])
        ck.case({'init': h['init'], 'ops': h['ops']}, nontrivial)
        ck.count('steps', len(res['steps']))
        if res.get('init_panic'):
            ck.property_failure('ServerState::new panicked: ' + res['init_panic'], {'history': h})
            continue
        if any(s.get('texts_agree') is False for s in res['steps']):
            ck.property_failure('the server no longer holds the current file contents', {'history': h})
            continue
        d = first_diff(res)
        if d is None:
            continue
        ck.count('histories_with_difference')
        if reported >= 3:
            ck.mon_fail.append({'what': 'further differing history', 'input': {'history': {'init': h['init'], 'ops': h['ops']}}, 'expected': None, 'observed': None, 'how': ''})
            continue
        small = shrink({'init': h['init'], 'ops': h['ops']})
        d2 = first_diff(run_histories([dict(small, id=0)])[0]) or d
        what = ('after step %d module %s: stored diagnostics differ from a fresh server' % (d2[0], d2[1])) if d2[1] else \
               ('step %d panicked: %s' % (d2[0], d2[2]))
        ck.property_failure(what, {'history': small}, expected={'fresh': d2[3]}, observed={'incremental': d2[2]},
                            how='./check C10 --replay <this file>', klass=classify(small, d2))
        reported += 1
    dep_graph_correspondence(ck, tier, seed)
    if not replay:
        hypothesis_monitor(ck, tier, seed)
    if hs:
        ck.sample({'init_modules': sorted(hs[-1]['init']), 'ops': [dict(o, mods=[[m, t[:60] + '...'] for m, t in o['mods']]) if o['op'] == 'update' else o for o in hs[-1]['ops']][:6]})
    return ck.finish()
