"""C11 — the language server survives every history of edits and queries (DESIGN.md section 4, C11)."""
import json
import os

from gen import hist as H
from gen.rng import Rng
from lib.vlib import Check, check_props, vh

PID = 'C11'


def run_histories(hs, timeout=2400):
    import concurrent.futures
    chunks = [hs[i::16] for i in range(16)]

    def one(c):
        if not c:
            return []
        rc, out = vh(['lsp-run'], input='\n'.join(json.dumps(h) for h in c) + '\n', timeout=timeout)
        res = [json.loads(l) for l in out.splitlines() if l.startswith('{')]
        if len(res) != len(c):
            # the process died (abort / stack overflow): find which history did it
            got = {r['id'] for r in res}
            for h in c:
                if h['id'] not in got:
                    res.append({'id': h['id'], 'steps': [], 'died': out[-300:]})
        return res
    out = {}
    with concurrent.futures.ThreadPoolExecutor(max_workers=16) as ex:
        for part in ex.map(one, chunks):
            for r in part:
                out[r['id']] = r
    return [out[h['id']] for h in hs]


def boundary_history(rng, nmods):
    """nmods tiny modules, no imports (an edit rechecks one module); every module has strings only it mentions."""
    def text(i, v):
        return ('class ClassWithAVeryLongNameNumber%d(val fieldWithAVeryLongNameNumber%d: int) {\n'
                '  /** a documentation comment only module %d has, long enough */\n'
                '  function functionWithAVeryLongNameNumber%d(parameterWithAVeryLongNameNumber%d: int): int = %d\n}\n' % (i, i, i, i, i, v))
    init = {'B%d' % i: text(i, 0) for i in range(nmods)}
    ops = []
    for step in range(3):
        k = rng.below(nmods)
        ops.append({'op': 'update', 'mods': [['B%d' % k, text(k, step + 1)]]})
    ops.append({'op': 'update', 'mods': [['Bnew', text(nmods, 0)]]})
    ops.append({'op': 'update', 'mods': [['B0', text(0, 9)]]})
    return {'init': init, 'ops': ops, 'seed': rng.next() % 100000, 'positions': 0}


def first_panic(res):
    if res.get('init_panic'):
        return (-1, {'query': 'ServerState::new', 'msg': res['init_panic'], 'module': '', 'pos': [0, 0]})
    if res.get('died'):
        return (-1, {'query': 'process died', 'msg': res['died'], 'module': '', 'pos': [0, 0]})
    for i, s in enumerate(res['steps']):
        if s['panics']:
            return (i, s['panics'][0])
    return None


def shrink(h):
    def fails(x):
        return first_panic(run_histories([dict(x, id=0)])[0]) is not None
    cur = dict(h)
    d = first_panic(run_histories([dict(cur, id=0)])[0])
    if d is None:
        return cur
    cur['ops'] = cur['ops'][:max(d[0], 0)]
    changed = True
    while changed:
        changed = False
        for i in range(len(cur['ops'])):
            cand = dict(cur, ops=cur['ops'][:i] + cur['ops'][i + 1:])
            if fails(cand):
                cur, changed = cand, True
                break
        if changed:
            continue
        for m in list(cur['init']):
            cand = dict(cur, init={k: v for k, v in cur['init'].items() if k != m})
            if fails(cand):
                cur, changed = cand, True
                break
    return cur


def run(tier, seed, replay=None):
    ck = Check(PID, tier, seed, level='proof')
    ck.checker_cmd = 'make -C /verif/coq theories/C11/Props.vo (coqc 8.16.1) + Print Assumptions per theorem'
    ck.trusted = [
        'Coq 8.16.1 kernel; no axioms',
        'theorem: the incremental mark/sweep protocol of samlang-services gc.rs over the C17 heap model never reclaims a string reachable '
        'from a retained module, GIVEN that marking a module marks every heap string reachable from it (H-cover: a hypothesis about the '
        'marker traversal of gc.rs, tested, not proved)',
        'monitor (testing): a real ServerState driven through generated edit histories with long identifiers (interned, hence '
        'collectable) interleaved with every request kind at sampled and out-of-range positions, all under catch_unwind',
    ]
    ck.assumptions = ['H-cover: mark_module marks every table string reachable from the module (theories/C11)']
    if os.path.exists('/verif/coq/theories/C11/Props.v'):
        check_props(ck, 'theories/C11/Props.v', extra_deps=['theories/C17'])
    if replay:
        rp = json.load(open(replay))
        hs = [rp['input']['history']]
    else:
        n = 120 if tier == 'quick' else 2500
        rng = Rng(seed ^ 0xC11)
        hs = []
        cdir = '/verif/corpus/C11'
        if os.path.isdir(cdir):
            for fn in sorted(os.listdir(cdir)):
                hs.append(json.load(open(os.path.join(cdir, fn)))['history'])
        # module counts around the collector's slice size (it marks at most 100 modules per round): tiny modules, each
        # holding long strings that nothing else mentions
        for nm in ([99, 100, 101, 102] if tier == 'quick' else [1, 50, 99, 100, 101, 102, 103, 150, 199, 200, 201, 202, 250, 301]):
            hs.append(boundary_history(rng.fork(), nm))
        for i in range(n):
            r = rng.fork()
            h = H.gen_history(r, nmods=rng.range(2, 6), nsteps=10 if tier == 'quick' else 20, long_ids=(i % 4 != 3))
            h['seed'] = rng.next() % 100000
            h['positions'] = 10 if tier == 'quick' else 30
            hs.append(h)
    for i, h in enumerate(hs):
        h['id'] = i
    ck.rule = ('edit histories (update/create/rename/remove; valid, ill-typed, unparsable contents; long identifiers) x after every step: '
               'format, folding ranges, diagnostics rendering for every module and hover / definition / references / signature help / '
               'completion / code actions / rename at sampled positions incl. positions outside the text and deleted modules; '
               'distinct = distinct history; non-trivial = at least one collection reclaimed a string (heap stat shows unused slots)')
    if not replay:
        # marker coverage: Gallina model of gc.rs mark_module, H-cover proved relative to the decidable reliance predicate wfb,
        # model mark sequence == real Heap::mark log per module
        from checks import c11_cover
        c11_cover.cover(ck, tier, seed)
    results = run_histories(hs)
    reported = 0
    for h, res in zip(hs, results):
        q = sum(s.get('queries', 0) for s in res['steps'])
        ck.count('queries', q)
        reclaimed = any('Total unused: 0' not in s.get('heap', 'Total unused: 0') for s in res['steps'])
        ck.count('histories_with_reclaim' if reclaimed else 'histories_without_reclaim')
        ck.case({'init': h['init'], 'ops': h['ops']}, reclaimed)
        d = first_panic(res)
        if d is None:
            continue
        if reported >= 3:
            ck.mon_fail.append({'what': 'further history with a panicking request', 'input': {'history': h}, 'expected': None, 'observed': d[1], 'how': ''})
            continue
        small = shrink(h)
        d2 = first_panic(run_histories([dict(small, id=0)])[0]) or d
        ck.property_failure('request `%s` on module %s at %s panicked after step %d: %s'
                            % (d2[1]['query'], d2[1]['module'], d2[1]['pos'], d2[0], d2[1]['msg'][:200]),
                            {'history': small}, expected='a result or nothing', observed=d2[1], how='./check C11 --replay <this file>')
        reported += 1
    if hs:
        ck.sample({'init_modules': sorted(hs[-1]['init']), 'ops': [o['op'] for o in hs[-1]['ops']], 'first_module_text': list(hs[-1]['init'].values())[:1]})
    return ck.finish()
