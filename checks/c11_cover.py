"""C11 (marker coverage) — H-cover of C11 is modelled and proved, not assumed.

Layer A: coq/theories/C11cov (Syntax = every PStr field of Module<Arc<Type>>, Strings = `strings m`, Marker = Gallina mirror of
         gc.rs mark_module + the reliance predicate wfb (W1-W4) + erase, Proofs, Props: 7 theorems).
Layer B: `vh mark-run` builds a real ServerState over a set of modules, dumps every CHECKED module (own parse + type_check_sources
         on the server's heap) as a term of C11cov/Syntax.v by a walk of its own, and obtains the real marker's log PER MODULE
         from the hook samlang_heap::verif::take_mark_log() (collection rounds driven through ServerState::update / remove, the
         round logs split without consulting any model: see harness/src/mark_run.rs).  Inside coqc (vm_compute, sharded):
           mark ast            == the real log, AS A SEQUENCE (same traversal order),
           strings ast         is a subset of the real marks  (H-cover directly on the real data),
           real marks          are a subset of strings ast    (no stray marks),
           wfb ast             == true                        (the four reliances on the type checker, on the real checked module).
         Outside coqc: every name of the PARSED module (what `format` prints) is among the real marks of the checked module;
         after two full collection rounds every string of every retained module is still readable (the property itself).
Layer C: when any of these fails, the module set is turned into an edit history (edit an unrelated module twice, then every request
         kind) and replayed through `vh lsp-run`: a panic is the replayable failing input.

`cover(ck, tier, seed)` is called by checks/c11.py; `run(tier, seed)` runs this part alone (evidence under work/).
"""
import concurrent.futures
import json
import os
import re
import subprocess
import sys
import time

from gen import hist as H
from gen.rng import Rng
from gen.scopes import gen_scope_program
from lib.vlib import REPO, WORK, Check, build_harness, check_props, coq_eval_many, coq_result

HEADER = ('From Coq Require Import List NArith Bool. Import ListNotations.\n'
          'From SV Require Import C11cov.Syntax C11cov.Strings C11cov.Marker C11cov.Corr.\nOpen Scope N_scope.\n')
TABLE = 'C11cov.mark (Gallina model of gc.rs mark_module) vs the strings the real marker passed to Heap::mark for the module, as sequences'
T_COVER = 'C11cov.strings (every PStr field of the checked module) must be among the strings the real marker marked for the module (H-cover)'
T_STRAY = 'the real marker marked a string that is not a string of the module (C11cov.strings)'
T_WF = 'C11cov.wfb: the fields the marker never visits (lambda parameter types, captured, branch block types, else-if types) only repeat strings of the visited sibling'
T_PARSED = 'every name of the parsed module (what format prints) must be among the marks of the checked module'


# ----------------------------------------------------------------------------- JSON term -> Gallina (C11cov/Syntax.v)
class G:
    def __init__(self, stats):
        self.stats = stats

    def cnt(self, k, n=1):
        self.stats[k] = self.stats.get(k, 0) + n

    @staticmethod
    def lst(xs):
        return '[' + '; '.join(xs) + ']'

    def ty(self, t):
        if t == 0:
            return 'YLeaf'
        k = t[0]
        if k == 'n':
            self.cnt('ty:nominal')
            return '(YNominal %d %s)' % (t[1], self.tys(t[2]))
        if k == 'g':
            self.cnt('ty:generic')
            return '(YGeneric %d)' % t[1]
        self.cnt('ty:fn')
        return '(YFn %s %s)' % (self.tys(t[1]), self.ty(t[2]))

    def tys(self, l):
        return 'YNil' if not l else '(tys_of %s)' % self.lst(self.ty(t) for t in l)

    def annot(self, a):
        if a == 0:
            return 'TPrim'
        k = a[0]
        if k == 'i':
            self.cnt('annot:id')
            return '(TId %d %s)' % (a[1], self.annots(a[2]))
        if k == 'g':
            self.cnt('annot:generic')
            return '(TGeneric %d)' % a[1]
        self.cnt('annot:fn')
        return '(TFn %s %s)' % (self.annots(a[1]), self.annot(a[2]))

    def annots(self, l):
        return 'TNil' if not l else '(annots_of %s)' % self.lst(self.annot(a) for a in l)

    def oannot(self, a):
        return 'None' if a is None else '(Some %s)' % self.annot(a)

    def tpats(self, l):
        return 'TPNil' if not l else '(tpats_of %s)' % self.lst('(%s, %s)' % (self.pat(p), self.ty(t)) for p, t in l)

    def pat(self, p):
        k = p[0]
        self.cnt('pat:' + k)
        if k == 't':
            return '(PTuple %s)' % self.tpats(p[1])
        if k == 'o':
            els = 'OPNil' if not p[1] else '(opats_of %s)' % self.lst('(%s, %d, %s)' % (self.ty(t), f, self.pat(q)) for t, f, q in p[1])
            return '(PObject %s)' % els
        if k == 'v':
            return '(PVariant %s %d %s)' % (self.ty(p[1]), p[2], self.tpats(p[3]))
        if k == 'i':
            return '(PId %d %s)' % (p[1], self.ty(p[2]))
        if k == 'w':
            return 'PWild'
        return '(POr %s)' % ('PNil' if not p[1] else '(pats_of %s)' % self.lst(self.pat(q) for q in p[1]))

    def block(self, b):
        ss = []
        for s in b['s']:
            if s[0] == 'let':
                self.cnt('stmt:let')
                ss.append('inl (%s, %s, %s)' % (self.pat(s[1]), self.oannot(s[2]), self.expr(s[3])))
            else:
                self.cnt('stmt:expr')
                ss.append('inr %s' % self.expr(s[1]))
        fin = 'None' if b['f'] is None else '(Some %s)' % self.expr(b['f'])
        return '(Block %s (stmts_of %s %s))' % (self.ty(b['t']), self.lst(ss), fin)

    def ifelse(self, i):
        e2 = i[-1]
        if e2[0] == 'if':
            self.cnt('else-if')
            g2 = '(ElseIf %s)' % self.ifelse(e2[1])
        else:
            g2 = '(ElseBlock %s)' % self.block(e2[1])
        if i[0] == 'b':
            self.cnt('expr:if')
            return '(IfBool %s %s %s %s)' % (self.ty(i[1]), self.expr(i[2]), self.block(i[3]), g2)
        self.cnt('expr:if-let')
        return '(IfLet %s %s %s %s %s)' % (self.ty(i[1]), self.pat(i[2]), self.expr(i[3]), self.block(i[4]), g2)

    def exprs(self, l):
        return 'ENil' if not l else '(exprs_of %s)' % self.lst(self.expr(e) for e in l)

    def expr(self, e):
        k = e[0]
        if k == 'if':
            return '(EIf %s)' % self.ifelse(e[1])
        if k == 'blk':
            self.cnt('expr:block')
            return '(EBlock %s)' % self.block(e[1])
        self.cnt('expr:' + k)
        t = self.ty(e[1])
        if k == 'lit':
            if e[2] is not None:
                self.cnt('string-literal')
            return '(ELit %s %s)' % (t, 'None' if e[2] is None else '(Some %d)' % e[2])
        if k == 'id':
            return '(EId %s %d)' % (t, e[2])
        if k == 'cid':
            return '(EClassId %s %d)' % (t, e[2])
        if k == 'tup':
            return '(ETuple %s %s)' % (t, self.exprs(e[2]))
        if k in ('fld', 'mth'):
            if e[4]:
                self.cnt('explicit-type-arguments')
            if e[5]:
                self.cnt('inferred-type-arguments')
            return '(%s %s %s %d %s %s)' % ('EField' if k == 'fld' else 'EMethod', t, self.expr(e[2]), e[3], self.annots(e[4]), self.tys(e[5]))
        if k == 'un':
            return '(EUnary %s %s)' % (t, self.expr(e[2]))
        if k == 'call':
            return '(ECall %s %s %s)' % (t, self.expr(e[2]), self.exprs(e[3]))
        if k == 'bin':
            return '(EBinary %s %s %s)' % (t, self.expr(e[2]), self.expr(e[3]))
        if k == 'match':
            arms = 'ANil' if not e[3] else '(arms_of %s)' % self.lst('(%s, %s)' % (self.pat(a[0]), self.expr(a[1])) for a in e[3])
            return '(EMatch %s %s %s)' % (t, self.expr(e[2]), arms)
        if k == 'lam':
            for p in e[2]:
                self.cnt('lambda-parameter:' + ('annotated' if p[2] is not None else 'unannotated'))
            self.cnt('lambda-captured', len(e[3]))
            ps = self.lst('(%d, %s, %s)' % (p[0], self.ty(p[1]), self.oannot(p[2])) for p in e[2])
            cap = self.lst('(%d, %s)' % (c[0], self.ty(c[1])) for c in e[3])
            return '(ELambda %s %s %s %s)' % (t, ps, cap, self.expr(e[4]))
        raise ValueError('expression ' + str(k))

    def tparams(self, l):
        out = []
        for x, b in l:
            self.cnt('type-parameter' + (':bounded' if b is not None else ''))
            out.append('(mkTParam %d %s)' % (x, 'None' if b is None else '(Some (%d, %s))' % (b[0], self.annots(b[1]))))
        return self.lst(out)

    def decl(self, m):
        self.cnt('member-parameter', len(m['params']))
        ps = self.lst('(%d, %s)' % (p[0], self.annot(p[1])) for p in m['params'])
        return '(mkDecl %d %s %s %s)' % (m['name'], self.tparams(m['tparams']), ps, self.annot(m['ret']))

    def toplevel(self, t):
        ext = self.lst('(%d, %s)' % (n[0], self.annots(n[1])) for n in t['ext'])
        if t['ext']:
            self.cnt('extends-or-implements', len(t['ext']))
        if not t['class']:
            self.cnt('interface')
            self.cnt('interface-member', len(t['members']))
            return '(TInterface %d %s %s %s)' % (t['name'], self.tparams(t['tparams']), ext, self.lst(self.decl(m) for m in t['members']))
        self.cnt('class')
        self.cnt('class-member', len(t['members']))
        d = t['def']
        if d is None:
            gd = 'None'
        elif d[0] == 's':
            self.cnt('struct-field', len(d[1]))
            gd = '(Some (TDStruct %s))' % self.lst('(%d, %s)' % (f[0], self.annot(f[1])) for f in d[1])
        else:
            self.cnt('enum-variant', len(d[1]))
            gd = '(Some (TDEnum %s))' % self.lst('(%d, %s)' % (v[0], self.annots(v[1])) for v in d[1])
        ms = self.lst('(%s, %s)' % (self.decl(m), self.expr(m['body'])) for m in t['members'])
        return '(TClass %d %s %s %s %s)' % (t['name'], self.tparams(t['tparams']), ext, gd, ms)

    def module(self, m):
        self.cnt('comment', len(m['comments']))
        imps = []
        for i in m['imports']:
            self.cnt('import-member', len(i['members']))
            imps.append('(mkImport %s %s)' % (self.lst('%d' % x for x in i['path']), self.lst('%d' % x for x in i['members'])))
        return '(mkModule %s %s %s)' % (self.lst('%d' % x for x in m['comments']), self.lst(imps), self.lst(self.toplevel(t) for t in m['tops']))


# ----------------------------------------------------------------------------- harness
def run_vh(sub, jobs, timeout=1200, nproc=12):
    if not jobs:
        return []
    ok, binp, out = build_harness('debug')
    if not ok:
        raise RuntimeError('harness build failed:\n' + out[-3000:])
    # big jobs first, round robin
    order = sorted(jobs, key=lambda j: -sum(len(t) for t in j.get('sources', j.get('init', {})).values()))
    chunks = [order[i::nproc] for i in range(nproc)]

    def one(chunk):
        if not chunk:
            return []
        inp = '\n'.join(json.dumps(j) for j in chunk) + '\n'
        try:
            p = subprocess.run([binp, sub], input=inp, stdout=subprocess.PIPE, stderr=subprocess.PIPE, text=True, timeout=timeout)
        except subprocess.TimeoutExpired:
            return []
        return [json.loads(l) for l in p.stdout.splitlines() if l.startswith('{')]
    res = {}
    with concurrent.futures.ThreadPoolExecutor(max_workers=nproc) as ex:
        for part in ex.map(one, chunks):
            for r in part:
                res[r['id']] = r
    return [res.get(j['id']) for j in jobs]


# ----------------------------------------------------------------------------- inputs
SINK = r'''import { DependencyClassWithAVeryLongName } from Dep

/** a documentation comment on the interface, long enough to be interned */
interface InterfaceWithAVeryLongName<TypeParameterOfTheInterfaceLongName> {
  /** a documentation comment on an interface method, long enough */
  method <MethodTypeParameterWithLongName: BoundInterfaceWithAVeryLongName> interfaceMethodWithAVeryLongName(interfaceParameterWithLongName: TypeParameterOfTheInterfaceLongName, secondInterfaceParameterLongName: MethodTypeParameterWithLongName): int
  method interfaceSecondMethodWithLongName(): DependencyClassWithAVeryLongName
}

interface BoundInterfaceWithAVeryLongName {}

// a line comment before a class, long enough to be interned in the table
class StructClassWithAVeryLongName<StructTypeParameterWithLongName>(
  /** doc of the first field, long enough to be interned */
  val structFieldWithAVeryLongName: StructTypeParameterWithLongName,
  val otherStructFieldWithLongName: int
) : BoundInterfaceWithAVeryLongName {
  function <FunctionTypeParameterLongName> makeStructWithAVeryLongName(valueParameterWithLongName: FunctionTypeParameterLongName): StructClassWithAVeryLongName<FunctionTypeParameterLongName> =
    StructClassWithAVeryLongName.init(valueParameterWithLongName, 0)

  method readFieldWithAVeryLongMethodName(): StructTypeParameterWithLongName = this.structFieldWithAVeryLongName

  method applyFunctionWithAVeryLongName(functionParameterWithLongName: (StructTypeParameterWithLongName) -> int): int =
    functionParameterWithLongName(this.structFieldWithAVeryLongName)

  method <ResultTypeParameterLongName> mapWithAVeryLongMethodName(mapperParameterWithLongName: (StructTypeParameterWithLongName) -> ResultTypeParameterLongName): ResultTypeParameterLongName =
    mapperParameterWithLongName(this.structFieldWithAVeryLongName)
}

class EnumClassWithAVeryLongName(
  VariantOneWithAVeryLongName(int, StructClassWithAVeryLongName<int>),
  VariantTwoWithAVeryLongName
) {
  method matchOnTheEnumWithLongName(): int =
    match this {
      VariantOneWithAVeryLongName(binderInsideVariantLongName, { structFieldWithAVeryLongName as renamedBinderWithLongName, otherStructFieldWithLongName }) ->
        binderInsideVariantLongName + renamedBinderWithLongName + otherStructFieldWithLongName,
      VariantTwoWithAVeryLongName -> 0
    }

  method orPatternWithAVeryLongName(): int =
    match this {
      VariantOneWithAVeryLongName(_, _) | VariantTwoWithAVeryLongName -> 1
    }
}

class Main {
  function bodyWithEverythingLongName(parameterOfTheBodyLongName: int): int = {
    let localStringWithLongName = "a string literal that is long enough to be interned";
    let (tupleBinderWithLongNameA, _) = (parameterOfTheBodyLongName, 1);
    /* a block comment inside a body, long enough to be interned */
    let annotatedLambdaWithLongName = (annotatedLambdaParameterLong: int) -> annotatedLambdaParameterLong + parameterOfTheBodyLongName;
    let structValueWithLongName = StructClassWithAVeryLongName.makeStructWithAVeryLongName<int>(3);
    let inferredStructWithLongName = StructClassWithAVeryLongName.makeStructWithAVeryLongName(EnumClassWithAVeryLongName.VariantTwoWithAVeryLongName());
    let unannotatedLambdaResultLong = structValueWithLongName.applyFunctionWithAVeryLongName((unannotatedLambdaParameterLong) -> unannotatedLambdaParameterLong + tupleBinderWithLongNameA);
    let nestedStructLambdaResult = inferredStructWithLongName.mapWithAVeryLongMethodName((enumTypedLambdaParameterLong) -> enumTypedLambdaParameterLong.matchOnTheEnumWithLongName());
    let annotatedLocalWithLongName: StructClassWithAVeryLongName<int> = structValueWithLongName;
    let { structFieldWithAVeryLongName as fieldBinderWithLongName, otherStructFieldWithLongName } = annotatedLocalWithLongName;
    let ifLetResultWithLongName = if let VariantOneWithAVeryLongName(guardBinderWithLongName, _) = EnumClassWithAVeryLongName.VariantTwoWithAVeryLongName() {
      guardBinderWithLongName
    } else if parameterOfTheBodyLongName > 0 {
      annotatedLambdaWithLongName(1)
    } else {
      2
    };
    let branchStructWithLongName = if parameterOfTheBodyLongName > 3 { structValueWithLongName } else if parameterOfTheBodyLongName > 4 { annotatedLocalWithLongName } else { structValueWithLongName };
    let _ = Process.println(localStringWithLongName :: "another long string literal, also interned");
    let methodValueWithLongName = branchStructWithLongName.readFieldWithAVeryLongMethodName;
    // a trailing line comment inside the body, long enough
    -ifLetResultWithLongName + unannotatedLambdaResultLong * nestedStructLambdaResult + fieldBinderWithLongName + otherStructFieldWithLongName + methodValueWithLongName()
  }
}
// a trailing comment at the very end of the module, long enough
'''
DEP = '''class DependencyClassWithAVeryLongName(val dependencyFieldWithLongName: int) {
  function makeDependencyWithLongName(): DependencyClassWithAVeryLongName = DependencyClassWithAVeryLongName.init(1)
}
'''

# One module per field of the syntax: the @-marked long string occurs in that field only (as far as the language allows), so a
# marker that forgets the field leaves it unmarked.  (kind, text using @ for the unique long string, needs the tuples of std)
CLS = 'class Holder(val held: int) { function make(): Holder = Holder.init(1) }\n'
FIELDS = [
    ('comment:line', '// @ line comment\nclass A { function f(): int = 1 }\n', False),
    ('comment:block', 'class A { function f(): int = /* @ block comment */ 1 }\n', False),
    ('comment:doc-member', 'class A {\n  /** @ doc comment */\n  function f(): int = 1\n}\n', False),
    ('comment:doc-interface-member', 'interface I {\n  /** @ doc comment */\n  method f(): int\n}\n', False),
    ('comment:trailing', 'class A { function f(): int = 1 }\n// @ trailing comment\n', False),
    ('comment:in-type-arguments', CLS + 'class B<T>(val t: T) {}\nclass A { function f(x: B</* @ comment */ int>): int = 1 }\n', False),
    ('import-member', 'import { C@ } from Dep2\nclass A { function f(): int = 1 }\n', False),
    ('class-name', 'class C@ { function f(): int = 1 }\n', False),
    ('interface-name', 'interface I@ {}\n', False),
    ('class-type-parameter', 'class A<T@>(val t: int) {}\n', False),
    ('class-type-parameter-bound', 'interface I {}\nclass Q@ : I {}\nclass A<T: I>(val t: int) {}\nclass B<T: J@>(val t: int) {}\n', False),
    ('implements', 'interface I<T> {}\nclass A : I<N@> {}\n', False),
    ('interface-extends', 'interface I {}\ninterface J : K@ {}\n', False),
    ('member-name', 'class A { function f@(): int = 1 }\n', False),
    ('interface-member-name', 'interface I { method m@(): int }\n', False),
    ('member-type-parameter', 'class A { function <T@> f(): int = 1 }\n', False),
    ('interface-member-type-parameter', 'interface I { method <T@> m(): int }\n', False),
    ('member-type-parameter-bound', 'class A { function <T: B@> f(): int = 1 }\n', False),
    ('member-parameter-name', 'class A { function f(p@: int): int = 1 }\n', False),
    ('interface-member-parameter-name', 'interface I { method m(p@: int): int }\n', False),
    ('member-parameter-annotation', 'class A { function f(p: T@): int = 1 }\n', False),
    ('member-parameter-fn-annotation', 'class A { function f(p: (int, T@) -> U@): int = 1 }\n', False),
    ('interface-member-parameter-annotation', 'interface I { method m(p: T@<int>): int }\n', False),
    ('member-return-type', 'class A { function f(): R@ = A.f() }\n', False),
    ('interface-member-return-type', 'interface I { method m(): R@ }\n', False),
    ('struct-field-name', 'class A(val f@: int) {}\n', False),
    ('struct-field-annotation', 'class A(val f: T@) {}\n', False),
    ('enum-variant-name', 'class A(V@(int), W) {}\n', False),
    ('enum-variant-data', 'class A(V(int, T@), W) {}\n', False),
    ('string-literal', 'class A { function f(): Str = "@ literal" }\n', False),
    ('local-id-unbound', 'class A { function f(): int = x@ }\n', False),
    ('class-id-unbound', 'class A { function f(): int = C@.f() }\n', False),
    ('field-name-unknown', CLS + 'class A { function f(): int = Holder.make().f@ }\n', False),
    ('method-name-unknown', CLS + 'class A { function f(): int = Holder.make().m@() }\n', False),
    ('explicit-type-arguments', CLS + 'class A { function <T> g(): int = 1\n function f(): int = A.g<T@>() }\n', False),
    ('let-annotation', 'class A { function f(): int = { let x: T@ = 1; 2 } }\n', False),
    ('let-binder', 'class A { function f(): int = { let x@ = 1; 2 } }\n', False),
    ('lambda-parameter-annotated', 'class A { function f(): int = { let g = (p@: int) -> 1; 2 } }\n', False),
    ('lambda-parameter-annotation', 'class A { function f(): int = { let g = (p: T@) -> 1; 2 } }\n', False),
    ('lambda-parameter-unannotated', 'class A { function f(): int = { let g: (int) -> int = (p@) -> 1; 2 } }\n', False),
    ('lambda-parameter-type-from-hint', 'class D@(val v: int) {}\nclass A { function h(g: (D@) -> int): int = 1\n function f(): int = A.h((p) -> 1) }\n', False),
    ('lambda-captured', 'class A { function f(c@: int): int = { let g = () -> c@; g() } }\n', False),
    ('lambda-captured-this', 'class D@(val v: int) { method f(): () -> int = () -> this.v }\n', False),
    ('object-pattern-field', CLS + 'class A { function f(): int = { let { held as h, q@ as r } = Holder.make(); h } }\n', False),
    ('object-pattern-binder', CLS + 'class A { function f(): int = { let { held as b@ } = Holder.make(); 1 } }\n', False),
    ('variant-pattern-tag', 'class E(P(int), Q) { method f(): int = match this { P(x) -> x, Z@(y) -> 1, Q -> 0 } }\n', False),
    ('variant-pattern-binder', 'class E(P(int), Q) { method f(): int = match this { P(b@) -> 1, Q -> 0 } }\n', False),
    ('or-pattern', 'class E(P(int), Q(int)) { method f(): int = match this { P(b@) | Q(b@) -> 1 } }\n', False),
    ('if-let-pattern', 'class E(P(int), Q) { method f(): int = if let P(b@) = this { 1 } else { 0 } }\n', False),
    ('tuple-pattern-binder', 'class A { function f(): int = { let (b@, _) = (1, 2); 1 } }\n', True),
    ('expression-type-nominal', 'class D@(val v: int) { function mk(): D@ = D@.init(1) }\nclass A { function f(): int = { let _ = D@.mk(); 1 } }\n', False),
    ('branch-block-type', 'class D@(val v: int) { function mk(): D@ = D@.init(1) }\nclass A { function f(c: bool): int = { let _ = if c { D@.mk() } else if !c { D@.mk() } else { D@.mk() }; 1 } }\n', False),
    ('inferred-type-arguments', 'class D@(val v: int) { function mk(): D@ = D@.init(1) }\nclass A { function <T> id(t: T): T = t\n function f(): int = { let _ = A.id(D@.mk()); 1 } }\n', False),
    ('generic-type', 'class A { function <T@> id(t: T@): T@ = { let u = t; u } }\n', False),
    ('fn-type', 'class D@(val v: int) {}\nclass A { function f(g: (D@) -> D@): int = { let h = g; 1 } }\n', False),
]
DEP2 = 'class C@(val v: int) {}\n'


def long_name(kind, k=0):
    tag = re.sub(r'[^A-Za-z0-9]', '', kind.title())
    return 'WithAVeryLongNameOnlyIn%s%d' % (tag, k)


def field_jobs():
    out = []
    for kind, text, needs_std in FIELDS:
        ln = long_name(kind)
        srcs = {'Field': text.replace('@', ln)}
        if 'Dep2' in text:
            srcs['Dep2'] = DEP2.replace('@', ln)
        out.append(('field:' + kind, srcs, needs_std))
    return out


def repo_modules(dirname, prefix):
    d = os.path.join(REPO, dirname)
    return {prefix + fn[:-4]: open(os.path.join(d, fn)).read() for fn in sorted(os.listdir(d)) if fn.endswith('.sam')}


def acyclic_module_set(rng, n):
    """gen/hist.py module_text with long identifiers; module i only imports modules 0..i-1 (so that modules can be taken out of
    the server importers-first without re-checking what stays)."""
    names = ['M%d' % i for i in range(n)]
    H.LONG_CLS[0] = True
    try:
        return {m: H.module_text(rng, m, names[:i + 1], long_ids=True) for i, m in enumerate(names)}
    finally:
        H.LONG_CLS[0] = False


def inputs(tier, seed):
    """(label, sources, with_std)"""
    rng = Rng(seed ^ 0xC11C0)
    out = [('sink', {'Sink': SINK, 'Dep': DEP}, True)]
    out += field_jobs()
    cdir = '/verif/corpus/C11'
    if os.path.isdir(cdir):
        for fn in sorted(os.listdir(cdir)):
            h = json.load(open(os.path.join(cdir, fn)))['history']
            out.append(('corpus:' + fn, h['init'], False))
    nh, ns = (30, 30) if tier == 'quick' else (400, 300)
    for i in range(nh):
        out.append(('hist:%d' % i, acyclic_module_set(rng.fork(), 2 + i % 4), False))
    for i in range(ns):
        p = gen_scope_program(rng.fork(), depth=4 if i % 3 else 5, nfun=4 + i % 3)
        out.append(('scopes:%d' % i, {'Main': p['sources']['Main']}, False))
        if i % 2 == 0:
            out.append(('scopes-apart:%d' % i, {'Main': p['renamed_apart']['Main']}, False))
    out.append(('repo:tests+std', repo_modules('tests', 'tests.'), True))
    return out


# ----------------------------------------------------------------------------- monitor: a module set as an edit history
def as_history(sources, with_std):
    """retain the modules, edit an unrelated module twice (each edit runs a collection round over everything), then every request."""
    init = dict(sources)
    init['ZzUnrelated'] = 'class ZzUnrelated { function f(): int = 1 }\n'
    ops = [{'op': 'update', 'mods': [['ZzUnrelated', 'class ZzUnrelated { function f(): int = %d }\n' % k]]} for k in (2, 3)]
    return {'init': init, 'ops': ops, 'seed': 1, 'positions': 3}


def first_panic(res):
    if res is None:
        return None
    if res.get('init_panic'):
        return {'query': 'ServerState::new', 'msg': res['init_panic'], 'module': '', 'pos': [0, 0]}
    for s in res.get('steps', []):
        if s['panics']:
            return s['panics'][0]
    return None


def monitor(ck, suspects, cap=6):
    """suspects: [(label, sources, with_std, why)].  Replays each as a history on the real server; a panic is the failing input."""
    found = 0
    todo = [s for s in suspects if not s[2]][:cap]          # lsp-run has no std loader: module sets that need std are skipped
    hs = []
    for i, (label, sources, _std, why) in enumerate(todo):
        h = as_history(sources, False)
        h['id'] = i
        hs.append(h)
    res = run_vh('lsp-run', hs, timeout=900, nproc=6)
    for (label, sources, _std, why), h, r in zip(todo, hs, res):
        d = first_panic(r)
        ck.count('cover:monitor:histories')
        if d is None:
            continue
        found += 1
        hh = {k: h[k] for k in ('init', 'ops', 'seed', 'positions')}
        ck.property_failure('request `%s` on module %s at %s panicked after a collection: %s   [%s: %s]'
                            % (d['query'], d['module'], d['pos'], d['msg'][:160], label, why),
                            {'history': hh}, expected='a result or nothing', observed=d, how='./check C11 --replay <this file>')
    return found


# witnesses of C11cov_marker_covers_refuted / C11cov_gc_round_safe_unconditional_refuted on the real server: a long class name that the
# syntax mentions only where the marker does not look (the type of an unannotated lambda parameter; a captured variable's type; the
# type of an if-else branch; an else-if).  The type checker builds these fields from visited siblings, so nothing may be reclaimed.
REFUTED_WITNESSES = {
    'W1-lambda-parameter-type': {
        'Lib': 'class ClassOnlyNamedInTheLibraryWithALongName(val v: int) {}\nclass Api { function each(f: (ClassOnlyNamedInTheLibraryWithALongName) -> int): int = 1 }\n',
        'User': 'import { Api } from Lib\nclass User { function run(): int = Api.each((parameterOfUser) -> 1) }\n'},
    'W2-captured': {
        'Lib': 'class ClassOnlyNamedInTheLibraryWithALongName(val v: int) { function mk(): ClassOnlyNamedInTheLibraryWithALongName = ClassOnlyNamedInTheLibraryWithALongName.init(1) }\nclass Api { function mk(): ClassOnlyNamedInTheLibraryWithALongName = ClassOnlyNamedInTheLibraryWithALongName.mk() }\n',
        'User': 'import { Api } from Lib\nclass User { function run(): int = { let capturedValue = Api.mk(); let g = () -> capturedValue.v; g() } }\n'},
    'W3-W4-branch-types': {
        'Lib': 'class ClassOnlyNamedInTheLibraryWithALongName(val v: int) {}\nclass Api { function mk(): ClassOnlyNamedInTheLibraryWithALongName = ClassOnlyNamedInTheLibraryWithALongName.init(1) }\n',
        'User': 'import { Api } from Lib\nclass User { function run(c: bool): int = { let r = if c { Api.mk() } else if !c { Api.mk() } else { Api.mk() }; r.v } }\n'},
}


def replay_refuted(ck):
    hs = []
    for i, (k, srcs) in enumerate(sorted(REFUTED_WITNESSES.items())):
        # the user module never spells the long class name: it holds it only through types the checker inferred.  (The declaring
        # module holds it too, and removing that module re-checks the user: no history makes the user the only holder.)
        h = {'id': i, 'init': dict(srcs, ZzUnrelated='class ZzUnrelated { function f(): int = 1 }\n'),
             'ops': [{'op': 'update', 'mods': [['ZzUnrelated', 'class ZzUnrelated { function f(): int = 2 }\n']]},
                     {'op': 'update', 'mods': [['ZzUnrelated', 'class ZzUnrelated { function f(): int = 3 }\n']]},
                     {'op': 'remove', 'mods': ['Lib']},
                     {'op': 'update', 'mods': [['ZzUnrelated', 'class ZzUnrelated { function f(): int = 4 }\n']]}],
             'seed': 1, 'positions': 4}
        hs.append(h)
    res = run_vh('lsp-run', hs, timeout=600, nproc=3)
    for (k, srcs), h, r in zip(sorted(REFUTED_WITNESSES.items()), hs, res):
        ck.case(('refuted-witness', k, srcs), nontrivial=True)
        d = first_panic(r)
        if r is None:
            ck.obligation('replay of the refuted statement, witness ' + k, False, 'lsp-run gave no result')
        elif d is None:
            ck.count('cover:refuted-witness-does-not-manifest:' + k)
        else:
            hh = {kk: h[kk] for kk in ('init', 'ops', 'seed', 'positions')}
            ck.property_failure('witness %s of C11cov_marker_covers_refuted manifests on the real server: `%s` on %s at %s: %s'
                                % (k, d['query'], d['module'], d['pos'], d['msg'][:160]), {'history': hh},
                                expected='a result or nothing', observed=d, how='./check C11 --replay <this file>')


# ----------------------------------------------------------------------------- the check
# Coq prints the left-nested tuple ((a, b, c, d), (e, f), (g, h), (i, j), w) as (a, b, c, d, (e, f), (g, h), (i, j), w)
FAIL = re.compile(r'\((\d+),\s*\((\d+),\s*(\d+),\s*(\d+),\s*(\d+),\s*\((\d+),\s*(\d+)\),\s*\((\d+),\s*(\d+)\),\s*\((\d+),\s*(\d+)\),\s*(true|false)\)\)')


def cover(ck, tier, seed):
    """Layer A obligations of C11cov + the marker tie; records everything on ck. Returns the number of modules with a difference."""
    sys.setrecursionlimit(max(sys.getrecursionlimit(), 20000))
    t0 = time.time()
    check_props(ck, 'theories/C11cov/Props.v', extra_deps=('theories/C11', 'theories/C17'))
    ck.notes.append('cover: t(props)=%.1fs' % (time.time() - t0))
    ck.trusted += [
        'marker model: coq/theories/C11cov/Marker.v is a hand-written Gallina mirror of mark_module and its helpers in '
        'crates/samlang-services/src/gc.rs over C11cov/Syntax.v (every PStr field of Module<Arc<Type>>); tied to the code by comparing, '
        'inside coqc, `mark ast` with the sequence of strings the real marker passed to Heap::mark for that module (hook '
        'samlang_heap::verif::take_mark_log), ast being dumped by harness/src/mark_run.rs with a walk of its own over the checked module; '
        'trusted: that walk, the model-free split of collection-round logs into per-module logs (modules removed importers-first, '
        'round logs differenced), checks/c11_cover.py (JSON -> Gallina)',
        'C11cov theorems are relative to wfb (four fields the marker never visits hold only strings of a visited sibling: a type-checker '
        'invariant, evaluated on every dumped module) or restricted to the other fields (erase); roots other than checked modules '
        '(global_cx, errors) are outside the model; parsed modules are tested (names of the parsed module among the real marks)',
    ]
    progs = inputs(tier, seed)
    jobs = [{'id': i, 'sources': s, 'with_std': std} for i, (_, s, std) in enumerate(progs)]
    results = run_vh('mark-run', jobs)
    ck.notes.append('cover: t(mark-run)=%.1fs' % (time.time() - t0))
    cases, meta, suspects = [], {}, []
    stats = {}
    for (label, sources, std), r in zip(progs, results):
        fam = label.split(':')[0]
        if r is None or 'harness_panic' in r:
            ck.obligation('mark-run:%s' % label, False, str(r)[:300])
            continue
        if r.get('panic'):
            ck.property_failure('%s on the module set %s' % (r['panic'][:300], label), {'history': as_history(sources, std)},
                                expected='no panic', observed=r['panic'])
            continue
        names = r['names']
        ck.count('cover:jobs:' + fam)
        ck.count('cover:round-0-marks', r.get('round0_marks', 0))
        if r['cyclic_rest']:
            ck.count('cover:skipped:jobs-with-an-import-cycle')
            continue
        for pb in r['problems']:
            ck.disagree('split of the collection-round logs of the real marker into per-module logs', {'label': label, 'sources': sources},
                        'every round log is a concatenation of per-module blocks', pb)
        # the property itself on the real data
        if r['dead_after_gc'] or r['dead_marks'] or r['dead_paths']:
            what = ('strings of retained modules unreadable after two full collection rounds: %s' % r['dead_after_gc'][:5] if r['dead_after_gc']
                    else 'the marker reached deallocated strings: %s' % r['dead_marks'][:5] if r['dead_marks']
                    else 'module paths unreadable: %s' % r['dead_paths'][:5])
            suspects.append((label, sources, std, what))
            ck.disagree('every string reachable from a retained module is readable after a collection (checked on the real heap)',
                        {'label': label, 'sources': sources}, 'all readable', what)
        for m in r['modules']:
            if m['real'] is None:
                ck.count('cover:skipped:modules-without-a-log')
                continue
            if m['ambiguous']:
                ck.count('cover:modules-whose-log-split-was-ambiguous')
            realset = set(m['real'])
            miss = [names[i][0] for i in m['parsed_names'] if i not in realset]
            if miss:
                ck.disagree(T_PARSED, {'label': label, 'module': m['module'], 'sources': sources}, 'subset', 'not marked: %s' % miss[:5])
                suspects.append((label, sources, std, 'parsed module names not marked: %s' % miss[:3]))
            g = G(stats)
            gm = g.module(m['ast'])
            real = '[%s]' % '; '.join('%d' % x for x in m['real'])
            ci = len(cases)
            cases.append((ci, '(%s,\n %s)' % (gm, real), len(gm) + len(real)))
            meta[ci] = (label, m['module'], sources, std, names, len(m['real']))
            ck.count('cover:modules:' + fam)
            ck.count('cover:real-marks', len(m['real']))
            ck.count('cover:real-marks-of-collectable-strings', sum(1 for x in m['real'] if names[x][1] > 15))
            ck.count('cover:modules-with-errors' if m['errors'] else 'cover:modules-error-free')
            ck.case(('cover', m['module'], sources.get(m['module'], m['module'])), nontrivial=len(m['real']) > 0)
    for k, v in sorted(stats.items()):
        ck.count('cover:construct:' + k, v)
    # the model on the same inputs, inside coqc
    nshard = 16
    order = sorted(cases, key=lambda c: -c[2])
    shards = [order[k::nshard] for k in range(nshard)]
    cjobs, idx = [], []
    for si, sh in enumerate(shards):
        if not sh:
            continue
        body = HEADER + 'Definition cases : list ccase := [\n%s].\n' % ';\n'.join(g for _, g, _ in sh)
        body += 'Eval vm_compute in (cfails 0 cases).\n'
        cjobs.append(('c11cov_%s_%d' % (tier[0], si), body))
        idx.append(sh)
    outs = coq_eval_many(cjobs)
    ck.notes.append('cover: t(model)=%.1fs' % (time.time() - t0))
    nbad = {'seq': 0, 'cover': 0, 'stray': 0, 'wf': 0}
    evaluated = bad_modules = 0
    for (rc, out), sh in zip(outs, idx):
        res = coq_result(out) if rc == 0 else None
        if res is None:
            ck.obligation('cover-model-evaluation', False, out[-1500:])
            continue
        evaluated += len(sh)
        if res.strip() != '[]' and not FAIL.search(res):
            ck.obligation('cover-model-evaluation', False, 'unreadable result: ' + res[:300])
        for fm in FAIL.finditer(res):
            v = [int(x) for x in fm.groups()[:-1]]
            wf = fm.groups()[-1] == 'true'
            ci = sh[v[0]][0]
            label, modname, sources, std, names, nreal = meta[ci]
            bad_modules += 1

            def nm(i):
                return names[i][0] if 0 <= i < len(names) else '?%d' % i
            inp = {'label': label, 'module': modname, 'sources': sources}
            why = []
            if v[1]:
                nbad['seq'] += 1
                mdl = 'end of the sequence' if v[3] == 0 else 'mark(%r)' % nm(v[3] - 1)
                rl = 'end of the log' if v[4] == 0 else 'mark(%r)' % nm(v[4] - 1)
                if nbad['seq'] <= 4:
                    ck.disagree(TABLE, dict(inp, first_differing_position=v[2], marks_of_the_real_marker=nreal), mdl, rl)
                why.append('sequence differs at %d: model %s, real %s' % (v[2], mdl, rl))
            if v[5]:
                nbad['cover'] += 1
                if nbad['cover'] <= 4:
                    ck.disagree(T_COVER, inp, 'marked', 'a string of the module is NOT marked by the real marker: %r' % nm(v[6]))
                why.append('string %r of the module is not marked' % nm(v[6]))
            if v[9]:
                nbad['stray'] += 1
                if nbad['stray'] <= 4:
                    ck.disagree(T_STRAY, inp, 'only strings of the module', 'marked: %r' % nm(v[10]))
            if not wf:
                nbad['wf'] += 1
                if nbad['wf'] <= 4:
                    ck.disagree(T_WF, inp, 'wfb ast = true',
                                'wfb ast = false%s' % ('; string %r sits only in an unvisited field' % nm(v[8]) if v[7] else ''))
                why.append('wfb false%s' % ('; %r only in an unvisited field' % nm(v[8]) if v[7] else ''))
            if why:
                suspects.append((label, sources, std, '; '.join(why)))
    ck.count('cover:modules-evaluated', evaluated)
    ck.count('cover:modules-with-a-difference', bad_modules)
    for k, n in nbad.items():
        ck.count('cover:differences:' + k, n)
    ck.extra_cov['cover_modules_whose_real_mark_sequence_equals_the_model'] = evaluated - nbad['seq']
    ck.extra_cov['cover_modules_whose_strings_are_all_marked_by_the_real_marker'] = evaluated - nbad['cover']
    ck.extra_cov['cover_modules_satisfying_wfb'] = evaluated - nbad['wf']
    # layer C: whatever looked wrong, replayed as a history on the real server; plus the witnesses of the refuted statements
    seen, uniq = set(), []
    for s in suspects:
        key = json.dumps(s[1], sort_keys=True)
        if key not in seen:
            seen.add(key)
            uniq.append(s)
    # smallest module sets first: the replay should be readable
    uniq.sort(key=lambda s: sum(len(t) for t in s[1].values()))
    if uniq:
        n = monitor(ck, uniq)
        ck.count('cover:monitor:histories-with-a-panic', n)
    replay_refuted(ck)
    ck.notes.append('cover: t(total)=%.1fs' % (time.time() - t0))
    return bad_modules


def run(tier, seed, replay=None):
    """This part alone.  Evidence goes to work/c11_cover_evidence.json (never to evidence/)."""
    ck = Check('C11', tier, seed, level='proof')
    ck.checker_cmd = 'make -C /verif/coq theories/C11cov/Props.vo (coqc 8.16.1, full .vo build) + Print Assumptions per theorem'
    ck.trusted = ['Coq 8.16.1 kernel; vm_compute to run the marker model on dumped checked modules and in the Examples',
                  'no axioms: every C11cov theorem prints "Closed under the global context"',
                  'C11/Model.v + C17/Model.v (collection protocol over the heap model), tied to the code by checks/c11.py and checks/c17.py']
    ck.rule = ('module sets: a kitchen-sink module with long names in every construct, one module per syntax field holding a long string '
               'only there, corpus/C11, gen/hist.py module_text(long_ids=True) sets with acyclic imports, gen/scopes.py programs (both '
               'renderings), every module of /repo/tests and /repo/std in one server; per module the real marker log is compared with the '
               'model inside coqc. distinct = distinct module texts; non-trivial = the real marker marked something')
    t0 = time.time()
    cover(ck, tier, seed)
    failed = [(n, d) for n, ok, d in ck.obls if not ok]
    ev = {'part': 'C11cov (marker coverage), run alone', 'tier': tier, 'seed': seed,
          'obligations': [{'name': n, 'ok': ok, 'detail': d[:300]} for n, ok, d in ck.obls],
          'evaluations': ck.evaluations, 'distinct_nontrivial': len(ck.distinct), 'distribution': ck.distribution,
          'coverage': ck.extra_cov, 'notes': ck.notes, 'trusted_base': ck.trusted, 'rule': ck.rule,
          'correspondence_disagreements': ck.corr_fail[:10], 'n_correspondence_disagreements': len(ck.corr_fail),
          'property_failures': ck.mon_fail[:10], 'n_property_failures': len(ck.mon_fail),
          'failed_obligations': failed, 'wall_s': round(time.time() - t0, 2)}
    os.makedirs(WORK, exist_ok=True)
    path = os.path.join(WORK, 'c11_cover_evidence.json')
    with open(path, 'w') as f:
        json.dump(ev, f, indent=1, default=str)
    bad = bool(failed or ck.corr_fail or ck.mon_fail)
    for mf in ck.mon_fail[:5]:
        print('C11cov: PROPERTY FAILURE %s' % mf['what'][:400])
    for cf in ck.corr_fail[:5]:
        print('C11cov: DISAGREEMENT [%s] model=%s implementation=%s input=%s' % (
            cf['correspondence'][:90], str(cf['model'])[:120], str(cf['implementation'])[:200],
            json.dumps({k: v for k, v in cf['input'].items() if k != 'sources'})[:200]))
    for n, d in failed[:5]:
        print('C11cov: OBLIGATION FAILED %s: %s' % (n, d[:300]))
    print('C11cov: tier=%s seed=%d obligations=%d/%d evaluations=%d distinct=%d corr_disagreements=%d property_failures=%d wall=%.1fs evidence=%s'
          % (tier, seed, sum(1 for _, ok, _ in ck.obls if ok), len(ck.obls), ck.evaluations, len(ck.distinct), len(ck.corr_fail),
             len(ck.mon_fail), ev['wall_s'], path))
    return 1 if bad else 0


if __name__ == '__main__':
    sys.exit(run(sys.argv[1] if len(sys.argv) > 1 else 'quick', int(sys.argv[2]) if len(sys.argv) > 2 else 1))
