"""C12 — compilation results depend only on the sources (DESIGN.md section 4, C12)."""
import concurrent.futures
import hashlib
import json
import os
import subprocess

from gen import hist as H
from gen.progs import gen_layout_program, gen_program
from gen.rng import Rng
from lib.e2e import _ts_run
from lib.vlib import WORK, Check, build_harness, check_props, coq_eval, coq_result, g_bytes, vh

PID = 'C12'
KNOWN_ORDER = 'C12-diagnostics-follow-enumeration-order'


def error_blocks(text):
    """rendered diagnostics -> (list of (module, block) in order, footer)"""
    import re
    parts = re.split(r'(?m)^(?=Error -+ )', text)
    head, blocks = parts[0], parts[1:]
    footer = ''
    if blocks:
        m = re.search(r'(?m)^Found \d+ errors?\.\s*\Z', blocks[-1])
        if m:
            footer = blocks[-1][m.start():].strip()
            blocks[-1] = blocks[-1][:m.start()]
    out = []
    for b in blocks:
        m = re.match(r'Error -+ (.*?)\.sam:\d+:\d+-\d+:\d+', b)
        out.append((m.group(1) if m else '?', b.strip()))
    return head.strip(), out, footer


def differs_only_in_module_order(t0, t1):
    """the two texts consist of the same per-module sequences of error blocks; only the order of the modules differs"""
    h0, b0, f0 = error_blocks(t0)
    h1, b1, f1 = error_blocks(t1)
    if h0 != h1 or f0 != f1 or len(b0) != len(b1):
        return False
    def per_module(bs):
        d = {}
        for m, b in bs:
            d.setdefault(m, []).append(b)
        return d
    return per_module(b0) == per_module(b1) and all(m != '?' for m, _ in b0)


LONG_NAME = 16      # names that do not fit the heap's inline representation (15 bytes) are ordered by interning order


def canon_long_names(block):
    """A block with the two enumeration-order dependent spellings made canonical, but only where names longer than 15 bytes take
    part: the `- `name`` lists are sorted, and a counterexample that mentions such a name is replaced by a placeholder."""
    import re
    lines = block.split('\n')
    out, i = [], 0
    while i < len(lines):
        if re.match(r'^- `\w+`$', lines[i]):
            j = i
            while j < len(lines) and re.match(r'^- `\w+`$', lines[j]):
                j += 1
            grp = lines[i:j]
            out.extend(sorted(grp) if any(len(g) - 4 >= LONG_NAME for g in grp) else grp)
            i = j
            continue
        m = re.match(r'^(Here is an example of a non-matching value: `)(.*)(`\.)$', lines[i])
        if m and any(len(w) >= LONG_NAME for w in re.findall(r'\w+', m.group(2))):
            out.append(m.group(1) + '<counterexample with a long name>' + m.group(3))
        else:
            out.append(lines[i])
        i += 1
    return '\n'.join(out)


def differs_only_in_enumeration_dependent_spellings(t0, t1):
    """as differs_only_in_module_order, and within a block only the order of a list that contains a name longer than 15 bytes or
    the counterexample chosen among variants with such names differs"""
    h0, b0, f0 = error_blocks(t0)
    h1, b1, f1 = error_blocks(t1)
    if h0 != h1 or f0 != f1 or len(b0) != len(b1) or any(m == '?' for m, _ in b0):
        return False
    def per_module(bs):
        d = {}
        for m, b in bs:
            d.setdefault(m, []).append(canon_long_names(b))
        return d
    return per_module(b0) == per_module(b1)


def compile_once(binp, job, threads, outdir, order=None):
    """One fresh process (fresh hash seeds) with a given worker-thread count and module enumeration order."""
    j = dict(job, out_dir=outdir, want_text=True)
    if order:
        j['alloc_order'] = order
    env = dict(os.environ, RAYON_NUM_THREADS=str(threads))
    p = subprocess.run([binp, 'front'], input=json.dumps(j) + '\n', stdout=subprocess.PIPE, stderr=subprocess.PIPE, text=True, env=env, timeout=300)
    line = [l for l in p.stdout.splitlines() if l.startswith('{')]
    if not line:
        return {'compile': 'process-died: ' + (p.stderr or '')[-200:], 'text': '', 'errors': []}
    return json.loads(line[-1])


def ill_typed_sources(rng):
    """Multi-module sources with diagnostics in several modules (order of module enumeration matters for merging)."""
    h = H.gen_history(rng, nmods=rng.range(3, 6), nsteps=2)
    return {'sources': h['init'], 'entry': sorted(h['init'])[0] if h['init'] else 'M0', 'features': ['ill-typed']}


def capture_program(rng):
    """Lambdas that capture several variables and use them in a position-dependent way (digits of a number, subtraction), in two
    modules: the order in which the closure context is BUILT and the order in which it is READ must agree whatever the hash seed."""
    names = rng.shuffle(['alpha', 'b', 'count', 'd', 'eta', 'f', 'gamma', 'h'])
    k = rng.range(3, 5)
    ps = names[:k]
    digits = ' + '.join('%s * %d' % (n, 10 ** (k - 1 - i)) for i, n in enumerate(ps))
    util = ('class Util {\n  function digits(%s): () -> int = () -> %s\n  function sub(x: int, y: int, w: int): (int) -> int = (z) -> x - y * 3 + z - w * 7\n}\n'
            % (', '.join('%s: int' % n for n in ps), digits))
    args = ', '.join(str(rng.range(1, 9)) for _ in ps)
    main = ('import { Util } from Util;\nclass Main {\n  function main(): unit = {\n    Process.println(Str.fromInt(Util.digits(%s)()));\n'
            '    Process.println(Str.fromInt(Util.sub(%d, %d, %d)(%d)));\n    let p = %d; let q = %d; let r = %d;\n'
            '    let g = (t: int) -> p * 100 + q * 10 + r - t;\n    Process.println(Str.fromInt(g(%d)));\n  }\n}\n'
            % (args, rng.range(1, 20), rng.range(1, 9), rng.range(1, 5), rng.range(0, 9), rng.range(1, 9), rng.range(1, 9), rng.range(1, 9), rng.range(0, 9)))
    return {'sources': {'Util': util, 'Main': main}, 'entry': 'Main', 'features': ['captures']}


def listing_sources(rng):
    """Ill-typed two/three-module sources whose diagnostics LIST or CHOOSE among names: several missing members of a class,
    several fields a pattern does not mention, non-exhaustive matches with more than one deficient constructor; names shorter
    and longer than the heap's inline limit (15 bytes), the long ones also mentioned by another module in another order."""
    def name(i, long):
        base = ['alpha', 'beta', 'gamma', 'delta', 'omega', 'kappa'][i % 6]
        return (base + 'WithAVeryLongSuffix%d' % i) if long else base + str(i)
    nm = rng.range(3, 5)
    longs = [rng.range(0, 2) == 0 for _ in range(6)]
    ms = [name(i, longs[i]) for i in range(nm)]
    fs = [name(i, longs[(i + 1) % 6]) + 'F' for i in range(nm)]
    vs = [n[0].upper() + n[1:] + 'V' for n in (name(i, longs[(i + 2) % 6]) for i in range(3))]
    flds = [name(i, longs[(i + 3) % 6]) + 'Fld' for i in range(4)]
    keep = rng.range(0, nm - 2)
    a = 'interface Shape {\n' + ''.join('  method %s(): int\n' % m for m in ms) + ''.join('  function %s(): int\n' % f for f in fs) + '}\n'
    a += 'class Impl(val v: int) : Shape {\n' + ''.join('  method %s(): int = 1\n' % m for m in ms[:keep]) + '}\n'
    a += 'class Opt(No, Yes(int))\n'
    a += 'class Big(%s)\n' % ', '.join('%s(Opt)' % v for v in vs)
    a += 'class Rec(%s)\n' % ', '.join('val %s: int' % f for f in flds)
    pats = [rng.range(0, 2) for _ in vs]
    a += 'class Main {\n'
    a += '  function deficient(b: Big): int = match b { %s }\n' % ' '.join('%s(%s) -> 1,' % (v, 'Yes(_)' if k else 'No') for v, k in zip(vs, pats))
    a += '  function missing(b: Big): int = match b { %s(_) -> 1, }\n' % vs[rng.range(0, 2)]
    a += '  function fields(r: Rec): int = { let { %s } = r; %s }\n' % (flds[rng.range(0, 3)], '0')
    a += '  function main(): unit = {}\n}\n'
    # the other module mentions the same names first in another order (interning order differs with the enumeration order)
    order = rng.shuffle(ms + fs + [v[0].lower() + v[1:] for v in vs] + flds)
    b = 'class Other {\n' + ''.join('  function %s(): int = 0\n' % n for n in order) + '}\n'
    return {'sources': {'A': a, 'B': b}, 'entry': 'A', 'features': ['listing']}

# ----------------------------------------------------------------------------- Layer B: model <-> code
def g_tree(t):
    return '(ILeaf %d)' % t if isinstance(t, int) else '(INode %s %s)' % (g_tree(t[0]), g_tree(t[1]))


def gen_tree(rng, leaves):
    if len(leaves) == 1:
        return leaves[0]
    k = rng.range(1, len(leaves) - 1) if len(leaves) > 2 else 1
    return [gen_tree(rng, leaves[:k]), gen_tree(rng, leaves[k:])]


def gen_merge_case(rng):
    nmod = rng.range(1, 4)
    pool = ['x', 'y', 'a_name_longer_than_fifteen_bytes', 'another_long_identifier_name', 'zz']
    items = []
    for _ in range(rng.range(1, 9)):
        items.append([rng.below(nmod), rng.below(4), rng.below(3) * 2, rng.below(5), pool[rng.below(len(pool))]])
    ngroups = rng.range(1, 5)
    groups = [[] for _ in range(ngroups)]
    for i in range(len(items)):
        groups[rng.below(ngroups)].append(i)
        if rng.below(4) == 0:                       # the same report also reaches another module's set
            groups[rng.below(ngroups)].append(i)
    idx = list(range(ngroups))
    orders = [idx, list(reversed(idx))] + [rng.shuffle(idx) for _ in range(3)]
    trees = [gen_tree(rng, rng.shuffle(idx)) for _ in range(3)]
    return {'kind': 'merge', 'items': items, 'groups': groups, 'orders': orders, 'trees': trees}


def correspondence(ck, rng, tier):
    """ErrorSet::{report_*, merge, errors, has_errors} against insert/extend/merge_all/eval of C12/Model.v, and
    TempPStrCounter / Heap::{create_temp_counter, sync_temp_counter, alloc_temp_str} against run_sched/name_of."""
    n = 150 if tier == 'quick' else 2000
    jobs = [gen_merge_case(rng.fork()) for _ in range(n)]
    for start, t, k in [(0, 1, 5), (17, 4, 50), (1000, 16, 60), (99999, 8, 100), (4294967290, 4, 3), (4294967000, 16, 40)] + \
            [(rng.below(10 ** 6), rng.range(1, 16), rng.range(1, 60)) for _ in range(6 if tier == 'quick' else 60)]:
        jobs.append({'kind': 'names', 'start': start, 'threads': t, 'per_thread': k})
    # freshness of the heap's next temporary after optimize_sources (what sync_temp_counter is for; model: C12_sync_covers)
    for i in range(30 if tier == 'quick' else 300):
        p = gen_program(rng.fork(), {'nfun': 6, 'depth': 3, 'loop_focus': i % 2 == 0})
        jobs.append({'kind': 'opt-fresh', 'sources': p['sources']})
    rc, out = vh(['c12-run'], input='\n'.join(json.dumps(j) for j in jobs) + '\n', timeout=900)
    res = [json.loads(l) for l in out.splitlines() if l.startswith('{')]
    if len(res) != len(jobs):
        ck.obligation('correspondence-run', False, 'vh c12-run returned %d results for %d jobs (rc %s): %s' % (len(res), len(jobs), rc, out[-300:]))
        return
    terms = []
    for j, r in zip(jobs, res):
        if 'panic' in r:
            ck.property_failure('panic in %s primitives: %s' % (j['kind'], r['panic']), j)
            terms.append('true')
            continue
        if j['kind'] == 'opt-fresh':
            terms.append('true')
            if r.get('rejected'):
                continue
            ck.case(('opt-fresh', json.dumps(j['sources'], sort_keys=True)), nontrivial=r['max_temp_in_program'] >= 0)
            ck.count('opt-fresh')
            if int(r['next_heap_temp'][2:]) <= r['max_temp_in_program']:
                ck.property_failure('after optimize_sources the next temporary name of the heap (%s) is not fresh: the optimized program '
                                    'already uses _t%d (names handed out by the parallel passes were not reserved; a later stage '
                                    'can hand the same name out again, depending on scheduling)' % (r['next_heap_temp'], r['max_temp_in_program']),
                                    {'sources': j['sources'], 'entry': 'Main'}, expected='next id > %d' % r['max_temp_in_program'], observed=r)
            continue
        if j['kind'] == 'merge':
            ck.case(('merge', json.dumps(j, sort_keys=True)), nontrivial=len(j['groups']) > 1)
            ck.count('merge:groups=%d' % len(j['groups']))
            seqs = [tuple(o['ranks']) for o in r['orders']] + [tuple(o['ranks']) for o in r['trees']]
            if len(set(seqs)) > 1 or not r['texts_equal'] or any(o['has_errors'] != bool(seqs[0]) for o in r['orders'] + r['trees']):
                ck.property_failure('merging the same per-module error sets in two different orders gives different diagnostics',
                                    j, expected=list(seqs[0]), observed=[list(x) for x in set(seqs)])
            ranks = r['item_rank']
            groups = '[%s]' % '; '.join('[%s]' % '; '.join(str(ranks[i]) for i in g) for g in j['groups'])
            orders = '[%s]' % '; '.join('[%s]' % '; '.join(str(x) for x in o) for o in j['orders'])
            trees = '[%s]' % '; '.join(g_tree(t) for t in j['trees'])
            co = '[%s]' % '; '.join('[%s]' % '; '.join('%d%%N' % x for x in o['ranks']) for o in r['orders'])
            ct = '[%s]' % '; '.join('[%s]' % '; '.join('%d%%N' % x for x in o['ranks']) for o in r['trees'])
            terms.append('check_merge %s %s %s %s %s' % (groups, orders, trees, co, ct))
        else:
            ck.case(('names', j['start'], j['threads'], j['per_thread']), nontrivial=j['threads'] > 1)
            ck.count('names:threads=%d' % j['threads'])
            flat = [x for th in r['names'] for x in th]
            if len(set(flat)) != len(flat):
                dup = sorted(x for x in set(flat) if flat.count(x) > 1)[:3]
                ck.property_failure('two allocations from the shared counter returned the same name %s' % dup, j)
            len0 = int(r['heap_first'][2:])
            terms.append('check_names %d%%N [%s] && check_heap %d%%N %d %s %s %s' % (
                j['start'], '; '.join(g_bytes(x) for x in flat), len0, max(j['per_thread'], 1),
                g_bytes(r['heap_first']), g_bytes(r['heap_after_sync']), g_bytes(r['heap_next_round'])))
    text = ('From Coq Require Import List NArith Bool.\nFrom SV Require Import C12.Model C12.Corr.\nImport ListNotations.\n'
            'Definition cases : list bool := [\n%s].\n'
            'Eval vm_compute in map fst (filter (fun p => negb (snd p)) (combine (map N.of_nat (seq 0 (length cases))) cases)).\n'
            % ';\n'.join(terms))
    rc, out = coq_eval('c12_corr', text, timeout=900)
    got = coq_result(out)
    if rc != 0 or got is None:
        ck.obligation('model-evaluation', False, out[-600:])
        return
    ck.obligation('model-evaluation', True, '%d cases evaluated with vm_compute' % len(terms))
    import re
    for i in [int(x) for x in re.findall(r'(\d+)%N', got)]:
        ck.disagree('ErrorSet merge / temp-name counter vs C12/Model.v', jobs[i], 'check_* = true', res[i],
                    how='vh c12-run on the input; Eval vm_compute in corr_merge / corr_names / corr_heap')


def multi_entry_program(rng):
    """Two entry modules that reach two mutually recursive enums of a shared module in opposite orders: the order in which
    the entry points are lowered (a HashMap iteration) decides which enum is specialised first."""
    extra_a = rng.pick(['', ', MidChain(int)', ', NilChain'])
    extra_b = rng.pick(['', ', MidRope(int)', ', NilRope'])
    def arms(kind, extra):
        out = ''
        if 'Mid' in extra:
            out += ', Mid%s(n) -> n' % kind
        if 'Nil' in extra:
            out += ', Nil%s -> 100' % kind
        return out
    shared = ('class Chain(Link(Rope), EndChain%s) {\n  method len(): int = match this { Link(r) -> 1 + r.len(), EndChain -> 0%s }\n}\n'
              'class Rope(Knot(Chain), EndRope%s) {\n  method len(): int = match this { Knot(c) -> 1 + c.len(), EndRope -> 0%s }\n}\n'
              % (extra_a, arms('Chain', extra_a), extra_b, arms('Rope', extra_b)))
    k = rng.range(1, 3)
    va = 'Chain.EndChain()'
    vb = 'Rope.EndRope()'
    for i in range(k):
        va, vb = 'Chain.Link(%s)' % vb, 'Rope.Knot(%s)' % va
    head = 'import { Chain, Rope } from Shared;\n'
    ea = head + 'class Main {\n  function main(): unit = {\n    Process.println(Str.fromInt(%s.len()));\n    Process.println(Str.fromInt(%s.len()));\n  }\n}\n' % (va, vb)
    eb = head + 'class Main {\n  function main(): unit = {\n    Process.println(Str.fromInt(%s.len()));\n    Process.println(Str.fromInt(%s.len()));\n  }\n}\n' % (vb, va)
    return {'sources': {'Shared': shared, 'EntryA': ea, 'EntryB': eb}, 'entry': 'EntryA', 'entries': ['EntryA', 'EntryB'], 'features': ['multi-entry']}


def run(tier, seed, replay=None):
    ck = Check(PID, tier, seed, level='proof')
    ck.checker_cmd = 'make -C /verif/coq theories/C12/Props.vo (coqc 8.16.1) + Print Assumptions per theorem'
    ck.trusted = [
        'Coq 8.16.1 kernel; no axioms',
        'theorems: the rendered diagnostics are a function of the SET of per-module results (merge order irrelevant); names handed out '
        'by the shared atomic counter are pairwise distinct under every interleaving; both layouts a specialisation order can produce for '
        'an enum are well formed (C01), so behaviour does not depend on the order; the scheduler itself is not modelled',
        'monitor (testing): the same sources compiled in fresh processes (fresh hash seeds) with RAYON_NUM_THREADS in {1,2,3,8,16}: verdict '
        'and rendered diagnostics compared byte for byte, behaviour of the emitted TypeScript compared by running it',
    ]
    check_props(ck, 'theories/C12/Props.v', extra_deps=('theories/C01', 'theories/C17'))
    _, binp, _ = build_harness('debug')
    rng = Rng(seed ^ 0xC12)
    if not replay:
        correspondence(ck, rng.fork(), tier)
    else:
        # the freshness invariant on the replayed program
        rp = json.load(open(replay))
        rc, out = vh(['c12-run'], input=json.dumps({'kind': 'opt-fresh', 'sources': rp['input']['sources']}) + '\n', timeout=300)
        rr = [json.loads(l) for l in out.splitlines() if l.startswith('{')]
        if rr and 'next_heap_temp' in rr[0] and int(rr[0]['next_heap_temp'][2:]) <= rr[0]['max_temp_in_program']:
            ck.property_failure('after optimize_sources the next temporary name of the heap (%s) is not fresh (program uses _t%d)'
                                % (rr[0]['next_heap_temp'], rr[0]['max_temp_in_program']), rp['input'], observed=rr[0])
    if replay:
        rp = json.load(open(replay))
        progs = [{'sources': rp['input']['sources'], 'entry': rp['input']['entry'], 'features': ['replay']}]
        if rp['input'].get('entries'):
            progs[0]['entries'] = rp['input']['entries']
    else:
        n = 24 if tier == 'quick' else 200
        progs = []
        cdir = '/verif/corpus/C12'
        for fn in sorted(os.listdir(cdir)) if os.path.isdir(cdir) else []:
            progs.append(json.load(open(os.path.join(cdir, fn))))
        for i in range(n):
            r = rng.fork()
            if i % 6 == 5:
                progs.append(multi_entry_program(r))
            elif i % 6 == 2:
                progs.append(listing_sources(r))
            elif i % 6 == 4:
                progs.append(capture_program(r))
            elif i % 3 == 0:
                progs.append(ill_typed_sources(r))
            elif i % 3 == 1:
                progs.append(gen_layout_program(r))
            else:
                progs.append(gen_program(r, {'nfun': 6, 'depth': 3}))
    threads = [1, 2, 3, 8, 16] if tier == 'quick' else list(range(1, 17))
    reps = 2 if tier == 'quick' else 3
    ck.rule = ('programs (ill-typed multi-module sets for diagnostics, layout-focused and general accepted programs) x worker-thread '
               'counts %s x %d fresh processes each; distinct = distinct source set; non-trivial = diagnostics non-empty or program runs'
               % (threads, reps))
    base = os.path.join(WORK, 'c12')
    os.makedirs(base, exist_ok=True)
    tasks = []
    orders = {}
    for pi, p in enumerate(progs):
        job = {'id': pi, 'sources': p['sources'], 'entries': p.get('entries', [p['entry']]), 'compile': True}
        names = sorted(p['sources'])
        for t in threads:
            for k in range(reps):
                # k = 0: the harness default (sorted names); k >= 1: a different enumeration order of the modules
                order = None
                if k >= 1 and len(names) > 1:
                    order = list(reversed(names)) if (k == 1 and t == threads[0]) else rng.fork().shuffle(list(names))
                orders[(pi, t, k)] = order
                tasks.append((pi, t, k, job))
    results = {}
    with concurrent.futures.ThreadPoolExecutor(max_workers=12) as ex:
        futs = {ex.submit(compile_once, binp, job, t, os.path.join(base, 'p%d_t%d_%d' % (pi, t, k)), orders[(pi, t, k)]): (pi, t, k) for pi, t, k, job in tasks}
        for f in concurrent.futures.as_completed(futs):
            results[futs[f]] = f.result()
    for pi, p in enumerate(progs):
        variants = {k: v for k, v in results.items() if k[0] == pi}
        ref_key = (pi, threads[0], 0)
        ref = variants[ref_key]
        inp = {'sources': p['sources'], 'entry': p['entry']}
        ck.case(p['sources'], bool(ref['errors']) or ref['compile'] == 'ok')
        ck.count('verdict:' + str(ref['compile'])[:12])
        bad = None
        known_order = None
        for key, v in sorted(variants.items()):
            if str(v['compile']) != str(ref['compile']):
                bad = ('accept/reject verdict differs', key, ref['compile'], v['compile'])
                break
            if v.get('compile_text', '') != ref.get('compile_text', '') and v['text'] == ref['text']:
                # the driver's own rendering (compile_sources parses and checks by itself)
                if not (orders.get(key) and differs_only_in_enumeration_dependent_spellings(ref.get('compile_text', ''), v.get('compile_text', ''))):
                    bad = ('diagnostics rendered by compile_sources differ', key, ref.get('compile_text', '')[:400], v.get('compile_text', '')[:400])
                    break
            if v['text'] != ref['text']:
                if orders.get(key) and differs_only_in_enumeration_dependent_spellings(ref['text'], v['text']):
                    known_order = known_order or (key, orders[key])
                    continue
                bad = ('rendered diagnostics differ', key, ref['text'][:400], v['text'][:400])
                break
        if known_order and not bad:
            ck.property_failure('rendered diagnostics list the modules in the order the driver enumerated them (%s instead of sorted names)'
                                % known_order[1], dict(inp, alloc_order=known_order[1]), klass=KNOWN_ORDER)
        if bad:
            ck.property_failure('%s between a run with %d thread(s) and a run with %d thread(s) (fresh processes)'
                                % (bad[0], threads[0], bad[1][1]), inp, expected=bad[2], observed=bad[3],
                                how='./check C12 --replay <this file>')
            continue
        if ref['compile'] != 'ok':
            continue
        # behaviour of the emitted programs: run each distinct emitted TypeScript text
        for entry in p.get('entries', [p['entry']]):
            texts = {}
            for key in sorted(variants):
                path = os.path.join(base, 'p%d_t%d_%d' % key, entry + '.ts')
                if os.path.exists(path):
                    h = hashlib.sha1(open(path, 'rb').read()).hexdigest()
                    texts.setdefault(h, path)
            ck.count('distinct_emitted_texts', len(texts))
            outs = {h: _ts_run(path, 10000) for h, path in texts.items()}
            vals = list(outs.values())
            bad_run = next((o for o in vals[1:] if o['lines'] != vals[0]['lines'] or o['ending'] != vals[0]['ending']), None)
            if bad_run is not None:
                ck.property_failure('emitted programs (entry %s) of two runs behave differently' % entry, dict(inp, entries=p.get('entries')),
                                    expected=vals[0], observed=bad_run)
                break
    if progs:
        ck.sample({'sources': {k: v[:400] for k, v in list(progs[0]['sources'].items())[:2]}, 'threads': threads, 'fresh_processes_per_thread_count': reps})
    return ck.finish()
