"""C13 — type inference is stable under meaning-preserving rewrites of the source (DESIGN.md section 4, C13).

Layer A: coq/theories/C13 (declaration order: build_module_signature is a fold into maps keyed by name,
         invariant under every permutation of toplevels and members with distinct names — exact side condition,
         refutation witness, the duplicate-name diagnostic; kernel: assignable / meet / subst / solve are
         invariant under ANY change of locations and equivariant under renaming of type variables),
         theories/TypeKernel (shared kernel theorems), theories/C15 (renaming a local to a fresh name preserves
         the resolution graph) when present.
Layer B: (1) the type kernel model against samlang_checker::verif (lib/typekernel.py);
         (2) the signature fold of C13/Model.v against the real build_module_signature: `vh rewrite-run want=sig`
             gives the signature the real function computes for every declaration ALONE and for the whole
             module; C13.Model.sig_bad_cases (vm_compute) folds the former and compares with the latter — on
             generated modules, on tests/ and std/, and on modules with duplicated classes / members (last wins);
         (3) modules with duplicate names are reported (NameAlreadyBound) in every order.
Layer C: metamorphic monitor.  Every rewrite of gen/rewrites.py at every applicable site (sampled down to a cap)
         on accepted and rejected programs; oracle: the multiset of diagnostic kinds is unchanged (locations may
         move), the compile verdict is unchanged, and for accepted programs the behaviour under the reference
         interpreter (vh src-run) is unchanged (runs it excludes are ignored).
"""
import concurrent.futures
import json
import os
import re
import subprocess

from gen import hist, mutate, progs as gprogs, rewrites, scopes
from gen.rng import Rng
from lib import typekernel
from lib.e2e import _src_run, same_behaviour
from lib.vlib import COQ, NCPU, WORK, Check, build_harness, check_props, coq_eval_many, coq_result

PID = 'C13'
CORPUS = '/verif/corpus/C13'
COMPARABLE = ('return', 'panic')
FUEL = 30000000

# ----------------------------------------------------------------------------- harness batches


def batch(cmd, jobs, nproc=None, timeout=1500):
    """Run JSON-lines jobs (each with a unique 'id') through `vh <cmd>` on all cores; results by id."""
    ok, binp, out = build_harness('debug')
    if not ok:
        raise RuntimeError('harness build failed:\n' + out[-3000:])
    nproc = nproc or NCPU
    chunks = [jobs[i::nproc] for i in range(nproc)]

    def run(c):
        if not c:
            return []
        env = dict(os.environ)
        env.setdefault('SAMLANG_STD_DIR', '/repo/std')
        p = subprocess.run([binp, cmd], input='\n'.join(json.dumps(j) for j in c) + '\n', stdout=subprocess.PIPE,
                           stderr=subprocess.PIPE, text=True, timeout=timeout, env=env)
        got = [json.loads(l) for l in p.stdout.splitlines() if l.startswith('{')]
        if len(got) != len(c):
            seen = {g['id'] for g in got}
            for j in c:
                if j['id'] not in seen:
                    got.append({'id': j['id'], 'panic': 'no result from vh %s (exit %s): %s' % (cmd, p.returncode, p.stderr[-300:])})
        return got
    res = {}
    with concurrent.futures.ThreadPoolExecutor(nproc) as ex:
        for part in ex.map(run, chunks):
            for r in part:
                res[r['id']] = r
    return res


def src_runs(items, tag):
    """items: list of (key, program). Returns {key: outcome}."""
    ok, binp, _ = build_harness('debug')
    os.makedirs(os.path.join(WORK, 'e2e_%s' % tag), exist_ok=True)
    out = {}
    with concurrent.futures.ThreadPoolExecutor(14) as ex:
        futs = [(k, ex.submit(_src_run, binp, p, FUEL, n, tag)) for n, (k, p) in enumerate(items)]
        for k, f in futs:
            out[k] = f.result()
    return out


# ----------------------------------------------------------------------------- programs

def closure(samples, roots):
    """Import closure of some modules inside a set of sources."""
    todo, seen = list(roots), set()
    while todo:
        m = todo.pop()
        if m in seen or m not in samples:
            continue
        seen.add(m)
        todo += re.findall(r'from\s+([A-Za-z_][\w.]*)', samples[m])
    return {m: samples[m] for m in sorted(seen)}


def sample_programs():
    """One program per module of tests/ and std/: the module, what it imports, and a driver `Drv` whose main calls
    the `run` functions AllTests registers for it (for std modules: of up to three test modules that import it)."""
    S = mutate.load_samples()
    all_ = S.get('tests.AllTests', '')
    imps = dict(re.findall(r'import \{ (\w+) \} from (tests\.\w+);', all_))
    runs = {}
    for cls in re.findall(r'TestCase\.init\("\w+", (\w+)\.run\)', all_):
        if cls in imps:
            runs.setdefault(imps[cls], []).append(cls)
    out = []
    for mod in sorted(S):
        if mod == 'tests.AllTests' or mod == 'tests.Benchmark':
            continue
        if mod.startswith('tests.'):
            users = [mod] if mod in runs else []
        else:
            users = [m for m in sorted(runs) if mod in closure(S, [m])][:3]
        calls = [(c, m) for m in users for c in runs[m]]
        drv = ''.join('import { %s } from %s;\n' % cm for cm in calls)
        drv += 'class Main { function main(): unit = { %s } }\n' % ' '.join('let _ = %s.run();' % c for c, _ in calls)
        srcs = closure(S, [mod] + users)
        srcs['Drv'] = drv
        out.append({'sources': srcs, 'entry': 'Drv', 'module': mod, 'label': 'sample:' + mod, 'features': ['sample']})
    return out


PROG_OPTS = [{}, {'depth': 4}, {'nfun': 7}, {'loops': False, 'depth': 4}, {'closures': True, 'generics': True, 'loops': False, 'nfun': 6},
             {'interfaces': False}, {'vec': False, 'strings': False, 'depth': 4}]


def generated_programs(rng, tier):
    scale = 1 if tier == 'quick' else 10
    out = []
    for i in range(48 * scale):
        p = gprogs.gen_program(rng.fork(), PROG_OPTS[i % len(PROG_OPTS)])
        p.update(module='Main', label='prog:%d' % i)
        out.append(p)
    for i in range(30 * scale):
        p = scopes.gen_scope_program(rng.fork(), depth=3 + i % 3, nfun=3 + i % 3)
        p.update(module='Main', label='scope:%d' % i, features=['scopes'])
        out.append(p)
    for i in range(12 * scale):
        p = gprogs.gen_layout_program(rng.fork())
        p.update(module='Main', label='layout:%d' % i)
        out.append(p)
    for i in range(10 * scale):
        p = gprogs.gen_infer_program(rng.fork())
        p.update(module='Main', label='infer:%d' % i)
        out.append(p)
    return out


def rejected_programs(rng, tier, accepted_with_sites):
    scale = 1 if tier == 'quick' else 10
    out = []
    pool = list(accepted_with_sites)
    k = 0
    while pool and len(out) < 36 * scale and k < 200 * scale:
        p, sites = pool[k % len(pool)]
        k += 1
        x = rewrites.inject_error(p, p['module'], sites, rng.fork())
        if x:
            q, what = x
            q.update(module=p['module'], label='inject:%s:%s' % (what, p['label']))
            out.append(q)
    for i in range(10 * scale):
        p = scopes.gen_error_program(rng.fork())
        p.update(module='Main', label='scope-error:%d' % i, features=['scopes', 'mutated'])
        out.append(p)
    # inference violations (rejected by construction): the rewrites - explicit type arguments, annotations, wrapping - must keep
    # them rejected
    for kind, q in gprogs.infer_violation_programs(rng.fork()):
        q = dict(q)
        q.update(module='Main', label='infer-violation:' + kind, features=['inference', 'violation'])
        out.append(q)
    for i in range(14 * scale):
        uni = ['M%d' % j for j in range(3)]
        r = rng.fork()
        srcs = {m: hist.module_text(r, m, uni) for m in uni}
        for m in uni[:2]:
            out.append({'sources': srcs, 'entry': 'M0', 'module': m, 'label': 'hist:%d:%s' % (i, m), 'features': ['multi-module']})
    return out


# ----------------------------------------------------------------------------- layer B: signatures

def dup_modules(rng, prog, sites):
    """Modules with duplicate declarations whose signatures differ: a class copied to the end with every `int`
    replaced by `bool`; a member copied inside its class likewise."""
    tx = rewrites.Text(prog['sources'][prog['module']])
    out = []
    tops = sites['toplevels']
    sg = rewrites._segments(tx, [t['loc'] for t in tops])
    if sg and tops:
        i = rng.below(len(tops))
        dup = re.sub(rb'\bint\b', b'bool', sg[1][i])
        text = (sg[0] + b'\n'.join(sg[1]) + b'\n' + dup.strip() + sg[2]).decode()
        at = rng.below(len(tops) + 1)
        order = list(range(len(tops)))
        text2 = (sg[0] + b'\n'.join([sg[1][j] for j in order[:at]] + [dup.strip()] + [sg[1][j].strip(b' \t') for j in order[at:]]) + sg[2]).decode()
        out.append(('dup-class:' + tops[i]['name'], text))
        out.append(('dup-class-earlier:' + tops[i]['name'], text2))
    cands = [t for t in tops if t['members']]
    if cands:
        t = rng.pick(cands)
        ms = rewrites._segments(tx, [m['loc'] for m in t['members']])
        if ms:
            j = rng.below(len(t['members']))
            dup = re.sub(rb'\bint\b', b'bool', ms[1][j]).strip()
            text = (ms[0] + b'\n'.join([dup] + [x.strip(b' \t') for x in ms[1]]) + ms[2]).decode()
            out.append(('dup-member:%s.%s' % (t['name'], t['members'][j]['name']), text))
    return out


class Intern:
    def __init__(self):
        self.m = {}

    def __call__(self, x):
        return self.m.setdefault(x, len(self.m))


def sig_cases(sig):
    """Gallina cases (decls, impl) of one module: the toplevel map and, per toplevel, the two member maps."""
    cases = []
    names, sigs = Intern(), Intern()
    whole = {n: json.dumps(v, sort_keys=True) for n, v in sig['whole']}
    decls = [(names(d['name']), sigs(json.dumps(d['alone'], sort_keys=True))) for d in sig['decls']]
    impl = [(names(n), sigs(v)) for n, v in sorted(whole.items())]
    cases.append(('toplevels', decls, impl))
    for d in sig['decls']:
        if d['alone'] is None:
            continue
        nm, sg = Intern(), Intern()
        fn = [(nm(m['name']), sg(m['sig'])) for m in d['members'] if not m['is_method'] and d['is_class']]
        fn += [(nm(n), sg(s)) for n, s in d['ctors']]
        cases.append(('functions of ' + d['name'], fn, [(nm(n), sg(s)) for n, s in d['alone']['functions']]))
        nm, sg = Intern(), Intern()
        me = [(nm(m['name']), sg(m['sig'])) for m in d['members'] if m['is_method']]
        cases.append(('methods of ' + d['name'], me, [(nm(n), sg(s)) for n, s in d['alone']['methods']]))
    return cases


def g_pairs(ps):
    return '[' + '; '.join('(%d, %d)' % p for p in ps) + ']'


def layer_b_signatures(ck, rng, tier, programs, infos):
    """programs with sites (accepted generated ones, samples); also their reordered and duplicated variants."""
    jobs, meta = [], []
    n_dup = 0
    for p, sites in programs:
        mod = p['module']
        texts = [('as-is', p['sources'][mod])]
        r = rng.fork()
        for v in rewrites.reorder_variants(p, mod, sites, r, 3):
            texts.append((v['kind'], v['sources'][mod]))
        if n_dup < (40 if tier == 'quick' else 300):
            d = dup_modules(r, p, sites)
            n_dup += len(d)
            texts += d
        for what, text in texts:
            srcs = dict(p['sources'])
            srcs[mod] = text
            jobs.append({'id': len(jobs), 'sources': srcs, 'module': mod, 'want': 'sig'})
            meta.append((p['label'], what, srcs, mod))
    res = batch('rewrite-run', jobs)
    allcases, where = [], []
    dup_jobs = []
    for j, (label, what, srcs, mod) in enumerate(meta):
        r = res[j]
        if 'sig' not in r:
            ck.disagree('C13.Model.build_module vs build_module_signature', {'sources': srcs, 'module': mod},
                        'a total function', r.get('panic') or r.get('error'), how='vh rewrite-run (want=sig)')
            continue
        ck.count('B-sig:' + what.split(':')[0])
        for name, decls, impl in sig_cases(r['sig']):
            allcases.append((decls, impl))
            where.append((j, name))
            ck.case(['sig', decls, impl], bool(decls))
        if what.startswith('dup-'):
            dup_jobs.append(j)
    # the model, inside coqc
    nshard = 16 if tier == 'quick' else 32
    cjobs = []
    for si in range(nshard):
        part = allcases[si::nshard]
        body = ('From Coq Require Import List Arith. Import ListNotations.\nFrom SV Require Import C13.Model.\n'
                'Definition cs : list (list (nat * nat) * list (nat * nat)) := [\n%s].\nEval vm_compute in (sig_bad_cases 0 cs).\n'
                % ';\n'.join('(%s, %s)' % (g_pairs(d), g_pairs(i)) for d, i in part))
        cjobs.append(('c13_sig_%s_%d' % (tier, si), body))
    bad = []
    for si, (rc, o) in enumerate(coq_eval_many(cjobs)):
        resl = coq_result(o) if rc == 0 else None
        if resl is None:
            ck.obligation('model-evaluation(C13.Model.sig_bad_cases)', False, o[-600:])
            continue
        for idx in re.findall(r'\d+', resl):
            bad.append(si + nshard * int(idx))
    for b in sorted(bad)[:10]:
        j, name = where[b]
        label, what, srcs, mod = meta[j]
        ck.disagree('C13.Model.build (fold, last declaration wins) vs samlang_checker::build_module_signature',
                    {'sources': srcs, 'module': mod, 'map': name, 'variant': what, 'program': label},
                    {'declarations in source order (name id, signature id)': allcases[b][0]}, {'real map': allcases[b][1]},
                    how='echo \'{"id":0,"sources":..,"module":"%s","want":"sig"}\' | vh rewrite-run' % mod)
    ck.obligation('signature-fold correspondence ran', True, '%d maps of %d modules compared in coqc (%d disagreements)'
                  % (len(allcases), len(meta), len(bad)))
    # (3) duplicates are reported, in every order
    fjobs = [{'id': k, 'sources': meta[j][2], 'entries': [meta[j][3]], 'compile': False} for k, j in enumerate(dup_jobs)]
    fres = batch('front', fjobs) if fjobs else {}
    for k, j in enumerate(dup_jobs):
        kinds = [e['kind'] for e in fres[k]['errors']]
        ck.count('B-dup-reported:' + str('NameAlreadyBound' in kinds))
        ck.case(['dup', meta[j][1], meta[j][2][meta[j][3]]])
        if 'NameAlreadyBound' not in kinds:
            ck.property_failure('a module with two declarations of one name (different signatures: the order of the '
                                'declarations decides which one is used) is not reported as NameAlreadyBound',
                                {'sources': meta[j][2], 'module': meta[j][3], 'what': meta[j][1]}, expected='NameAlreadyBound',
                                observed=kinds)


DUP_WITNESS = ('class A { function f(): int = 1 }\nclass A { function f(): bool = true }\n'
               'class Main { function g(): int = A.f() function main(): unit = {} }\n',
               'class A { function f(): bool = true }\nclass A { function f(): int = 1 }\n'
               'class Main { function g(): int = A.f() function main(): unit = {} }\n')
CTOR_WITNESS = ('class P(val x: int) { function init(): int = 7 }\n'
                'class Main { function main(): unit = { let p = P.init(3); Process.println(Str.fromInt(p.x)); } }\n')


def dup_witness(ck):
    """The witness of C13_perm_invariant_dup_refuted on the real checker: with two classes A the order decides
    which signature `A.f` has — and both orders are rejected (NameAlreadyBound)."""
    res = batch('front', [{'id': i, 'sources': {'Main': t}, 'entries': ['Main'], 'compile': False} for i, t in enumerate(DUP_WITNESS + (CTOR_WITNESS,))], nproc=3)
    k0 = sorted(e['kind'] for e in res[0]['errors'])
    k1 = sorted(e['kind'] for e in res[1]['errors'])
    ck.case(['dup-witness'])
    ck.notes.append('duplicate class names: order (int, bool) -> %s; order (bool, int) -> %s' % (k0, k1))
    if k0 == k1:
        ck.disagree('C13_perm_invariant_dup_refuted replayed on the checker', {'a': DUP_WITNESS[0], 'b': DUP_WITNESS[1]},
                    'the last declaration wins: the two orders give different diagnostics', [k0, k1])
    for k in (k0, k1):
        if 'NameAlreadyBound' not in k:
            ck.property_failure('duplicate class name not reported', {'a': DUP_WITNESS[0], 'b': DUP_WITNESS[1]}, 'NameAlreadyBound', k)
    # C13_constructor_hides_function: a member function `init` of a struct class is silently hidden
    k2 = sorted(e['kind'] for e in res[2]['errors'])
    ck.notes.append('struct class with a member function `init` (hidden by the constructor in every member order): diagnostics %s' % k2)


# ----------------------------------------------------------------------------- layer C: the monitor

def kinds_of(errors):
    return sorted(e['kind'] for e in errors)


def verdict(front_result):
    """(diagnostic kinds, compile verdict, panic)"""
    return kinds_of(front_result.get('errors', [])), front_result.get('compile'), front_result.get('front_panic') or front_result.get('panic')


def compare_verdicts(v0, v1, writes_types=False):
    """writes_types: the rewrite writes out a type (annotation / explicit type arguments). On a REJECTED program that type can
    itself be the invalid one, and writing it a second time repeats the same complaint: the kinds of diagnostics are then
    compared as a set (the property is about the verdict; equal multisets are demanded only where the rewrite adds no text
    that can be complained about)."""
    k0, c0, p0 = v0
    k1, c1, p1 = v1
    if writes_types and k0 and k1 and set(k0) == set(k1):
        k1 = k0
    if p1 and not p0:
        return 'the front end panics on the rewritten program: %s' % p1
    if bool(k0) != bool(k1):
        return ('accepted program rejected after the rewrite: %s' % k1) if not k0 else ('rejected program accepted after the rewrite (was: %s)' % k0)
    if k0 != k1:
        return 'diagnostics differ: %s before, %s after' % (k0, k1)
    if c0 != c1:
        return 'compile verdict differs: %s before, %s after' % (c0, c1)
    return None


def front_jobs(items, start=0):
    return [{'id': start + i, 'sources': p['sources'], 'entries': [p['entry']], 'compile': True} for i, p in enumerate(items)]


def sites_of(programs):
    res = batch('rewrite-run', [{'id': i, 'sources': p['sources'], 'module': p['module']} for i, p in enumerate(programs)])
    return [res[i] for i in range(len(programs))]


def check_variants(ck, originals, variants, tag, report=True):
    """originals: {key: (program, verdict)}; variants: list with 'orig' key. Returns list of failures
    (variant, description, expected, observed)."""
    fres = batch('front', front_jobs(variants))
    fails = []
    runs = []
    for j, v in enumerate(variants):
        p0, v0 = originals[v['orig']]
        v1 = verdict(fres[j])
        ck.case([v['kind'], v['sources']], True)
        ck.count('C-variant:' + v['kind'])
        st = v.get('site') or {}
        if v['kind'] in ('paren', 'block'):
            ck.count('C-site:%s:%s/%s' % (v['kind'], st.get('k'), st.get('role')))
        elif v['kind'] == 'annot-let':
            ck.count('C-site:annot-let:%s-pattern' % st.get('pattern'))
        elif v['kind'] == 'rename':
            ck.count('C-site:rename:%s' % st.get('kind'))
        elif v['kind'] == 'targs':
            ck.count('C-site:targs:%s%s' % (st.get('kind'), '' if st.get('called') else '-not-called'))
        if v['sources'] == p0['sources']:
            ck.count('C-variant-identical-to-original:' + v['kind'])
        if v.get('dup_names'):
            ck.count('C-variant-with-duplicate-names:' + v['kind'])
            nb = lambda k: sum(1 for x in k if x == 'NameAlreadyBound')
            d = None
            if not v0[0] or not v1[0] or nb(v0[0]) != nb(v1[0]) or nb(v0[0]) == 0:
                d = ('declarations with duplicate names: expected rejection with the same number of NameAlreadyBound in every '
                     'order; %s before, %s after' % (v0[0], v1[0]))
        else:
            d = compare_verdicts(v0, v1, writes_types=v['kind'] in ('targs', 'annot-let', 'annot-lambda', 'annot-by-construction'))
        if d:
            fails.append((v, d, {'diagnostics': v0[0], 'compile': v0[1]}, {'diagnostics': v1[0], 'compile': v1[1],
                          'messages': [e['msg'][:200] for e in fres[j].get('errors', [])][:4]}))
        elif not v0[0] and v0[1] == 'ok':
            runs.append(j)
    need = sorted({variants[j]['orig'] for j in runs})
    base = src_runs([(('o', k), originals[k][0]) for k in need] + [(('v', j), variants[j]) for j in runs], tag)
    for j in runs:
        v = variants[j]
        b, r = base[('o', v['orig'])], base[('v', j)]
        bk, rk = b['ending']['kind'], r['ending']['kind']
        if bk not in COMPARABLE:
            ck.count('C-behaviour-skipped:original-' + bk)
            continue
        if rk not in COMPARABLE:
            ck.count('C-behaviour-skipped:variant-%s' % rk)
            if rk == 'interpreter-error':
                ck.sample({'interpreter-error on variant': v['kind'], 'site': v['site'], 'detail': r['ending'].get('detail')})
            continue
        ck.count('C-behaviour-compared')
        d = same_behaviour(b, r)
        if d:
            fails.append((v, 'behaviour differs after the rewrite: ' + d, {'lines': b['lines'][:40], 'ending': b['ending']},
                          {'lines': r['lines'][:40], 'ending': r['ending']}))
    return fails


def same_class(v, w):
    """v is a rewrite of the same kind at the same kind of site as the failing rewrite w."""
    if v['kind'] != w['kind']:
        return False
    a, b = v.get('site') or {}, w.get('site') or {}
    if v['kind'] in ('paren', 'block'):
        return a.get('k') == b.get('k') and a.get('role') == b.get('role')
    if v['kind'] == 'annot-let':
        return a.get('pattern') == b.get('pattern')
    if v['kind'] == 'targs':
        return a.get('kind') == b.get('kind') and a.get('called') == b.get('called')
    if v['kind'] == 'rename':
        return a.get('kind') == b.get('kind')
    return True


def class_variants(prog, info, failing):
    vs = [v for v in rewrites.variants(prog, prog['module'], info['sites'], Rng(7), exhaustive=True) if same_class(v, failing)]
    if len(vs) > 120:
        vs = Rng(11).shuffle(vs)[:120]
    return vs


def _quiet_check():
    sub = Check.__new__(Check)
    sub.__dict__.update(evaluations=0, distinct=set(), distribution={}, samples=[])
    return sub


def reductions(prog, sites):
    """Smaller candidates of the rewritten module: one toplevel, one member or one statement removed."""
    tx = rewrites.Text(prog['sources'][prog['module']])
    out = []
    tops = sites['toplevels']
    if len(tops) > 1:
        sg = rewrites._segments(tx, [t['loc'] for t in tops])
        if sg:
            for i in range(len(tops)):
                out.append((sg[0] + b'\n'.join(s for k, s in enumerate(sg[1]) if k != i) + sg[2]).decode())
    for t in tops:
        if len(t['members']) > 1:
            ms = rewrites._segments(tx, [m['loc'] for m in t['members']])
            if ms:
                for i in range(len(t['members'])):
                    out.append((ms[0] + b'\n'.join(s for k, s in enumerate(ms[1]) if k != i) + ms[2]).decode())
    spans = [tx.span(l['loc']) for l in sites['lets']]
    for e in sites['exprs']:
        if e['role'] == 'stmt':
            x = rewrites.extend_balanced(tx.b, *tx.span(e['loc']))
            if x:
                j = x[1]
                while j < len(tx.b) and tx.b[j] in b' \t\r\n':
                    j += 1
                if j < len(tx.b) and tx.b[j] == 59:
                    spans.append((x[0], j + 1))
    for s0, e0 in spans:
        out.append(rewrites.apply_edits(tx.b, [(s0, e0, b'', 0)]))
    return out


def shrink(prog, sites, failing, rounds=40):
    """Greedy: drop toplevels / members / statements of the rewritten module while the original keeps its verdict
    and some rewrite of the same family still fails."""
    cur, cur_sites = prog, sites
    v_orig = verdict(batch('front', front_jobs([cur]))[0])
    for _ in range(rounds):
        cands = reductions(cur, cur_sites)[:48]
        if not cands:
            break
        trial = []
        for text in cands:
            q = dict(cur)
            q['sources'] = dict(cur['sources'])
            q['sources'][cur['module']] = text
            trial.append(q)
        infos = sites_of(trial)
        base = batch('front', front_jobs(trial))
        originals, vs = {}, []
        for n, (q, info) in enumerate(zip(trial, infos)):
            if 'sites' not in info or info['syntax_errors']:
                continue
            v0 = verdict(base[n])
            if bool(v0[0]) != bool(v_orig[0]) or v0[1] != v_orig[1]:
                continue
            originals[n] = (q, v0)
            mine = class_variants(q, info, failing)
            for v in mine:
                v['orig'] = n
            vs += mine
        if not vs:
            break
        bad_idx = sorted({v['orig'] for v, _, _, _ in check_variants(_quiet_check(), originals, vs, 'c13shrink')})
        if not bad_idx:
            break
        cur, cur_sites = trial[bad_idx[0]], infos[bad_idx[0]]['sites']
    return cur


def report_failures(ck, fails, programs_by_key, sites_by_key, rng):
    seen_classes = set()
    for n, (v, d, exp, obs) in enumerate(fails):
        cls = (v['kind'], re.sub(r'\d+', 'N', d)[:60])
        p = programs_by_key[v['orig']]
        inp = {'rewrite': v['kind'], 'site': v['site'], 'module': v['module'], 'entry': v['entry'], 'program': p.get('label'),
               'original': p['sources'], 'rewritten': v['sources'], 'dup_names': bool(v.get('dup_names'))}
        if cls not in seen_classes and len(seen_classes) < 3 and v['orig'] in sites_by_key:
            seen_classes.add(cls)
            try:
                small = shrink(p, sites_by_key[v['orig']], v)
                if small is not p:
                    inp['shrunk_original'] = small['sources']
                    sub_sites = sites_of([small])[0]
                    sv = class_variants(small, sub_sites, v)
                    for x in sv:
                        x['orig'] = 0
                    sf = check_variants(_quiet_check(), {0: (small, verdict(batch('front', front_jobs([small]), nproc=1)[0]))}, sv, 'c13shrink')
                    if sf:
                        inp['shrunk_rewritten'] = sf[0][0]['sources']
                        inp['shrunk_site'] = sf[0][0]['site']
                        inp['shrunk_failure'] = sf[0][1]
            except Exception as ex:      # shrinking is best effort
                ck.notes.append('shrinking failed: %r' % (ex,))
        ck.property_failure('%s: %s' % (v['kind'], d), inp, expected=exp, observed=obs, how='./check C13 --replay <this file>')


# Two classes of `block` sites need care (gen/rewrites.py block_excluded); both are replayed as fixed witnesses.
METHOD_VALUE_ID = 'C03-method-value-generic-receiver'      # a C03 finding (fixed by d1b42a2), found by this monitor
WITNESSES = {
    METHOD_VALUE_ID: {
        'by_design': False, 'site_class': 'method-callee-on-generic-receiver',
        'what': 'a method of a generic class used as a value (`{ b.get }(2)` instead of `b.get(2)`) was accepted by the checker and panicked the compiler (mir_generics_specialization.rs: unwrap on None)',
        'original': 'class B<T>(val x: T) { method get(d: int): T = this.x }\nclass Main { function main(): unit = { Process.println(Str.fromInt(B.init(1).get(2))); } }\n',
        'rewritten': 'class B<T>(val x: T) { method get(d: int): T = this.x }\nclass Main { function main(): unit = { Process.println(Str.fromInt({ B.init(1).get }(2))); } }\n'},
    'block-around-generic-member-callee': {
        # BY DESIGN, always excluded, not a finding (no id is registered for it).  spec 6.7.1 / 6.7.2: `C.f(args)` and
        # `e.m(args)` are call FORMS (the part before the parenthesis is not an expression position); `{ C.f }(args)` is
        # a direct call (6.7.3) of a block whose value is a generic function reference with no context to infer its
        # type arguments from (5.7: "explicit type argument required (no context)").
        'by_design': True, 'site_class': 'generic-member-callee',
        'what': 'wrapping the callee of a generic member call in a block (`{ Opt.Som }(3)`) makes an accepted program rejected (Underconstrained): the member reference is instantiated without the arguments',
        'original': 'class Opt<T>(Non, Som(T)) { method orElse(d: T): T = match this { Som(v) -> v, Non -> d } }\nclass Main { function main(): unit = { Process.println(Str.fromInt(Opt.Som(3).orElse(0))); } }\n',
        'rewritten': 'class Opt<T>(Non, Som(T)) { method orElse(d: T): T = match this { Som(v) -> v, Non -> d } }\nclass Main { function main(): unit = { Process.println(Str.fromInt({ Opt.Som }(3).orElse(0))); } }\n'},
}


def witnesses(ck):
    jobs = []
    for n, (kid, w) in enumerate(sorted(WITNESSES.items())):
        for m, t in enumerate((w['original'], w['rewritten'])):
            jobs.append({'id': 2 * n + m, 'sources': {'Main': t}, 'entries': ['Main'], 'compile': True})
    res = batch('front', jobs, nproc=4)
    # the method-value finding is listed under C03: make it visible to this check's known_witness
    if not any(k['id'] == METHOD_VALUE_ID for k in ck.known):
        kf = json.load(open('/verif/known_findings.json'))
        ck.known += [k for k in kf['findings'] if k['id'] == METHOD_VALUE_ID]
    for n, (kid, w) in enumerate(sorted(WITNESSES.items())):
        v0, v1 = verdict(res[2 * n]), verdict(res[2 * n + 1])
        d = compare_verdicts(v0, v1)
        ck.case(['witness', kid])
        if w['by_design']:
            rewrites.EXCLUDED_BLOCK_CLASSES.add(w['site_class'])
            ck.count('C-excluded-by-design:' + kid)
            ck.notes.append('site class `%s` is excluded from the block rewrite BY DESIGN of the language (spec 6.7.1/6.7.2: the '
                            'callee of `C.f(args)` / `e.m(args)` is not an expression position; 5.7: a generic member reference '
                            'without context needs explicit type arguments); its witness currently gives: %s' % (kid, d or 'no difference'))
            continue
        if d:
            rewrites.EXCLUDED_BLOCK_CLASSES.add(w['site_class'])        # keep the monitor's output to this one witness
        else:
            rewrites.EXCLUDED_BLOCK_CLASSES.discard(w['site_class'])     # repaired: the monitor rewrites these sites
        if any(k['id'] == kid for k in ck.known):
            ck.known_witness(kid, bool(d), d or 'verdicts agree')        # status fixed + still fails -> property failure
        elif d:
            ck.property_failure('block: %s [%s]' % (d, kid), {'rewrite': 'block', 'original': {'Main': w['original']},
                                'rewritten': {'Main': w['rewritten']}, 'entry': 'Main', 'module': 'Main', 'class': kid, 'what': w['what']},
                                expected={'diagnostics': v0[0], 'compile': v0[1]}, observed={'diagnostics': v1[0], 'compile': v1[1]},
                                how='./check C13 --replay <this file>')


def monitor(ck, programs, rng, cap, tag):
    infos = sites_of(programs)
    base = batch('front', front_jobs(programs))
    originals, sites_by_key, variants = {}, {}, []
    skips = {}
    accepted = []
    for i, (p, info) in enumerate(zip(programs, infos)):
        if 'sites' not in info:
            ck.property_failure('the front end panics', {'sources': p['sources'], 'module': p['module']}, observed=info.get('panic'))
            continue
        if info['syntax_errors']:
            ck.count('C-program-skipped:syntax-errors')
            continue
        v0 = verdict(base[i])
        ck.count('C-program:' + ('accepted' if not v0[0] else 'rejected') + ':' + p['label'].split(':')[0])
        if not v0[0] and v0[1] != 'ok':
            ck.count('C-program:accepted-but-compile-' + str(v0[1])[:20])
        for e in set(v0[0]):
            ck.count('C-original-diagnostic:' + e)
        originals[i] = (p, v0)
        sites_by_key[i] = info['sites']
        if not v0[0]:
            accepted.append((p, info['sites']))
        vs = rewrites.variants(p, p['module'], info['sites'], rng.fork(), cap, skips)
        if p.get('annotated_twin'):
            # supplied by the generator: lambda parameters (and one call's type arguments) written out with the types they have by
            # construction, not with what the checker under test inferred
            vs.append({'kind': 'annot-by-construction', 'site': {'kind': 'helper-lambdas-annotated-by-construction'},
                       'sources': dict(p['annotated_twin']), 'entry': p['entry'], 'module': p['module']})
        if p.get('renamed_apart'):
            # supplied by the generator, which knows the binding structure it built: the same program with every local
            # binder renamed apart. Unlike the AST-driven rename it does not depend on what the analysis under test
            # reports about the original (a checker that wrongly sees a collision cannot hide behind "not renamable").
            vs.append({'kind': 'rename-apart', 'site': {'kind': 'all-binders-by-construction'}, 'sources': dict(p['renamed_apart']),
                       'entry': p['entry'], 'module': p['module']})
        for v in vs:
            v['orig'] = i
        variants += vs
    for k, n in sorted(skips.items()):
        ck.count('C-site-skipped:' + k, n)
    fails = check_variants(ck, originals, variants, tag)
    report_failures(ck, fails, {k: v[0] for k, v in originals.items()}, sites_by_key, rng)
    return accepted, len(variants)


def replay_one(ck, path):
    rp = json.load(open(path))
    inp = rp.get('input') or {}
    if 'original' in inp and 'rewritten' in inp:
        entry = inp.get('entry', 'Main')
        o = {'sources': inp['original'], 'entry': entry, 'module': inp.get('module', entry), 'label': 'replay'}
        v = {'sources': inp['rewritten'], 'entry': entry, 'module': inp.get('module', entry), 'kind': inp.get('rewrite', 'replay'),
             'site': inp.get('site'), 'orig': 0, 'dup_names': bool(inp.get('dup_names'))}
        v0 = verdict(batch('front', front_jobs([o]), nproc=1)[0])
        fails = check_variants(ck, {0: (o, v0)}, [v], 'c13replay')
        for v, d, exp, obs in fails:
            ck.property_failure('%s: %s' % (v['kind'], d), inp, expected=exp, observed=obs)
    elif 'sources' in inp:
        p = {'sources': inp['sources'], 'entry': inp.get('entry', 'Main'), 'module': inp.get('module', 'Main'), 'label': 'replay'}
        monitor(ck, [p], Rng(rp.get('seed', 1)), 200, 'c13replay')
    return ck.finish()


def load_corpus():
    out = []
    if os.path.isdir(CORPUS):
        for fn in sorted(os.listdir(CORPUS)):
            if fn.endswith('.sam'):
                out.append({'sources': {'Main': open(os.path.join(CORPUS, fn)).read()}, 'entry': 'Main', 'module': 'Main',
                            'label': 'corpus:' + fn, 'features': ['corpus']})
    return out


def run(tier, seed, replay=None):
    ck = Check(PID, tier, seed, level='proof (partial)')
    ck.checker_cmd = ('make -C /verif/coq theories/C13/Props.vo theories/TypeKernel/Props.vo [theories/C15/Props.vo] (coqc 8.16.1, '
                      'full .vo build) + Print Assumptions per theorem')
    ck.trusted = [
        'Coq 8.16.1 kernel; vm_compute to run the signature fold on dumped signatures and in the non-vacuity Examples',
        'no axioms: every C13 / TypeKernel theorem prints "Closed under the global context"',
        'hand-written model coq/theories/C13/Model.v of build_module_signature (global_signature.rs): a fold of '
        'HashMap::insert over the declarations in source order; tied to the code by comparing, for every module, the map the '
        'real function builds with the fold of the signatures the real function computes for each declaration alone '
        '(signatures rendered location-free by harness/src/rewrite_run.rs)',
        typekernel.TRUSTED,
        'harness/src/rewrite_run.rs (walk over the checked AST: locations, kinds, inferred types; SSA def-to-use map) and '
        'gen/rewrites.py (text edits at byte ranges): a wrong edit shows up as a spurious difference, never hides one',
        'behaviour of programs: the reference interpreter vh src-run (testing, not proof)',
        'not modelled: the bidirectional checker main_checker.rs (hints, synthesis mode, deferred type arguments), the parser '
        '(parentheses are dropped at parse time), import resolution: covered by the monitor only',
    ]
    ck.assumptions = ['C13_perm_invariant: the permuted declarations have pairwise distinct names (exact condition: '
                      'C13_perm_invariant_iff; otherwise C13_perm_invariant_dup_refuted and the checker reports NameAlreadyBound)',
                      'kernel theorems: about the model of type_system.rs (TypeKernel), for all types and all relocations']
    ck.rule = ('monitor: generated programs (gen/progs.py, gen/scopes.py, layout programs; rejected ones by injecting one '
               'type/scoping error at a site of the checked AST, gen_error_program, multi-module sets of gen/hist.py)%s; '
               'rewrites rename / rename-all / rename-apart (generator-supplied) / reorder-top / reorder-mem / paren / block / paren-many / annot-let / annot-lambda / '
               'targs / split at every applicable site, sampled down to ~30 per program and kind quota; '
               'oracle: multiset of diagnostic kinds, compile verdict, src-run behaviour; excluded by design of the language (spec '
               '6.7.1/6.7.2, 5.7; not a finding): `block` around the callee of a generic member call (`{ Opt.Som }(3)` is '
               'Underconstrained); reorders of declarations with duplicate names are only checked for rejection with the same '
               'number of NameAlreadyBound' % (', tests/ and std/ modules' if tier != 'quick' else ''))
    if replay:
        return replay_one(ck, replay)

    # ---- layer A
    check_props(ck, 'theories/C13/Props.v', extra_deps=['theories/TypeKernel'])
    typekernel.props(ck)
    if os.path.exists(os.path.join(COQ, 'theories/C15/Props.v')):
        check_props(ck, 'theories/C15/Props.v')

    rng = Rng(seed)
    # ---- layer C (first: it also yields the accepted programs layer B uses)
    witnesses(ck)
    dup_witness(ck)
    cap = 30
    gen = load_corpus() + generated_programs(rng, tier)
    accepted, nv = monitor(ck, gen, rng, cap, 'c13a')
    rej = rejected_programs(rng, tier, accepted)
    _, nv2 = monitor(ck, rej, rng, cap, 'c13r')
    samples = []
    if tier != 'quick':
        samples = sample_programs()
        acc_s, nv3 = monitor(ck, samples, rng, 40, 'c13s')
    else:
        # a few sample modules also in the quick tier
        samples = [s for s in sample_programs() if s['module'] in ('tests.GenericClassTests', 'tests.PatternMatching', 'std.option', 'tests.SortableList')]
        acc_s, nv3 = monitor(ck, samples, rng, 24, 'c13s')
    ck.extra_cov['variants'] = nv + nv2 + nv3

    # ---- layer B
    typekernel.kernel_correspondence(ck, tier, seed, PID)
    nb = 60 if tier == 'quick' else 400
    layer_b_signatures(ck, rng, tier, (accepted[:nb] + acc_s), None)
    return ck.finish()
