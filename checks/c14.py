"""C14 — source positions attached to syntax are faithful to the text (DESIGN.md section 4, C14).

Layer A: coq/theories/C14 (contains is a partial order, union is the least upper bound, union of first and
         last child encloses all children, Position <-> byte offset round trip, token_loc_exact).
Layer B: loc.rs functions vs the model: every ordered pair of locations over the 6x6 position grid
         (1 679 616 pairs, extracted model; the 3x3 grid again inside coqc with vm_compute) + random cases;
         lexer positions vs the C05/C14 lexer model on hostile layouts.
Layer C: every Location of the parsed AST, of diagnostics and of the services results (definition,
         references, folding ranges) on tests/, std/ and generated modules under hostile layouts.
"""
import json
import os
import subprocess

from gen import progs, texts
from gen.rng import Rng
from lib.vlib import Check, check_props, coq_make, coq_eval, coq_result, sh, vh, NCPU
from checks import c05

PID = 'C14'
CORPUS = '/verif/corpus/C14'

DRIVER_ML = r"""
open C14_model
let rec nat_of_int n = if n = 0 then O else S (nat_of_int (n - 1))
let rec int_of_nat = function O -> 0 | S n -> 1 + int_of_nat n
let rec int_of_pos = function XH -> 1 | XO p -> 2 * int_of_pos p | XI p -> 2 * int_of_pos p + 1
let int_of_n = function N0 -> 0 | Npos p -> int_of_pos p
let hex = "0123456789abcdef"
let () =
  match Sys.argv.(1) with
  | "grid" ->
    let n = nat_of_int (int_of_string Sys.argv.(2)) in
    List.iter (fun d -> print_char hex.[int_of_n d]) (grid_digits n); print_newline ();
    List.iter (fun d -> print_char hex.[int_of_n d]) (grid_cp_digits n); print_newline ()
  | _ ->
    (try
      while true do
        let line = input_line stdin in
        match List.map int_of_string (String.split_on_char ' ' (String.trim line)) with
        | [a1; a2; a3; a4; b1; b2; b3; b4; p1; p2] ->
          let f = nat_of_int in
          let ((((d, cp), lt), le), (((u1, u2), u3), u4)) =
            case_result ((((( f a1, f a2), f a3), f a4), (((f b1, f b2), f b3), f b4)), (f p1, f p2)) in
          Printf.printf "%d %b %b %b %d %d %d %d\n" (int_of_n d) cp lt le
            (int_of_nat u1) (int_of_nat u2) (int_of_nat u3) (int_of_nat u4)
        | _ -> ()
      done
    with End_of_file -> ())
"""

_extracted = {}


def build_extracted():
    if 'bin' in _extracted:
        return _extracted['bin']
    d = '/verif/work/c14x'
    os.makedirs(d, exist_ok=True)
    with open(os.path.join(d, 'ex.v'), 'w') as f:
        f.write('From Coq Require Import Extraction ExtrOcamlBasic.\nFrom SV Require Import C14.Model C14.Corr.\n'
                'Extraction Language OCaml.\nExtraction "c14_model.ml" grid_digits grid_cp_digits case_result.\n')
    with open(os.path.join(d, 'driver.ml'), 'w') as f:
        f.write(DRIVER_ML)
    rc, out = sh(['coqc', '-noglob', '-Q', '/verif/coq/theories', 'SV', 'ex.v'], cwd=d, timeout=300)
    if rc == 0:
        rc, out2 = sh('ocamlfind ocamlopt -w -a c14_model.mli c14_model.ml driver.ml -o c14_driver', cwd=d, timeout=300)
        out += out2
    _extracted['bin'] = (os.path.join(d, 'c14_driver') if rc == 0 else None, out)
    return _extracted['bin']


def decode_pair(n, idx):
    """index in the grid enumeration -> (a, b) as 4-tuples"""
    P = n * n
    L = P * P
    ai, bi = divmod(idx, L)

    def loc(i):
        s, e = divmod(i, P)
        return [s // n, s % n, e // n, e % n]
    return loc(ai), loc(bi)


def layer_b_loc(ck, rng, tier):
    binp, log = build_extracted()
    if binp is None:
        ck.obligation('model-extraction', False, log[-600:])
        return
    # (1) exhaustive: all ordered pairs of locations over the 6x6 grid
    n = 6
    rc, out = vh(['lex-run', 'loc-grid', n], timeout=300)
    lines = out.split('\n')
    if rc != 0 or len(lines) < 2 or lines[0].startswith('PANIC'):
        ck.property_failure('loc.rs functions panicked on the grid', {'grid': n}, observed=out[:300])
        return
    p = subprocess.run([binp, 'grid', str(n)], capture_output=True, text=True, timeout=600)
    mlines = p.stdout.split('\n')
    for name, a, b in (('contains/union', mlines[0], lines[0]), ('contains_position', mlines[1], lines[1])):
        ck.count('B-grid-' + name, len(b))
        ck.evaluations += len(b)
        if a != b:
            k = next((i for i, (x, y) in enumerate(zip(a, b)) if x != y), min(len(a), len(b)))
            ck.disagree('C14.%s (model) vs samlang_ast::Location (implementation), %dx%d grid' % (name, n, n),
                        {'index': k, 'pair': decode_pair(n, k) if name == 'contains/union' else k},
                        a[k:k + 1], b[k:k + 1], how='vh lex-run loc-grid %d' % n)
    ck.distinct.add('grid-%d' % n)
    # (2) the 3x3 grid again inside coqc (vm_compute): cross-checks the extraction
    rc, out3 = vh(['lex-run', 'loc-grid', 3], timeout=300)
    l3 = out3.split('\n')
    body = ('From Coq Require Import List NArith. Import ListNotations.\nFrom SV Require Import C14.Model C14.Corr.\n'
            'Open Scope N_scope.\nEval vm_compute in (grid_check 3 [%s], grid_cp_check 3 [%s]).\n'
            % (';'.join(str(ord(c)) for c in l3[0]), ';'.join(str(ord(c)) for c in l3[1])))
    rc, o = coq_eval('c14_grid3', body)
    res = coq_result(o) if rc == 0 else None
    if res != '(None, None)':
        if res is None:
            ck.obligation('model-evaluation-grid3', False, o[-600:])
        else:
            ck.disagree('C14 grid 3x3 inside coqc', {'grid': 3}, res, 'harness digits', how='vh lex-run loc-grid 3')
    else:
        ck.evaluations += len(l3[0]) + len(l3[1])
    # (3) random cases, coordinates from a pool of small and large values
    ncase = 10000 if tier == 'quick' else 100000
    pool = [0, 0, 1, 1, 2, 3, 4, 5, 7, 100, 255, 256, 1000, 2999]
    cases = []
    for _ in range(ncase):
        cases.append([rng.pick(pool) if rng.chance(3, 4) else rng.below(3000) for _ in range(10)])
    inp = '\n'.join(json.dumps({'id': i, 'a': c[0:4], 'b': c[4:8], 'p': c[8:10]}) for i, c in enumerate(cases)) + '\n'
    rc, out = vh(['lex-run', 'loc'], input=inp, timeout=600)
    impl = {}
    for l in out.split('\n'):
        if l.startswith('{'):
            v = json.loads(l)
            impl[v['id']] = v
    p = subprocess.run([binp, 'cases'], input='\n'.join(' '.join(map(str, c)) for c in cases) + '\n',
                       capture_output=True, text=True, timeout=600)
    mres = [l.split() for l in p.stdout.split('\n') if l.strip()]
    if len(mres) != len(cases):
        ck.obligation('model-evaluation-cases', False, 'model answered %d of %d' % (len(mres), len(cases)))
        return
    bad = 0
    for i, (c, m) in enumerate(zip(cases, mres)):
        v = impl.get(i)
        ck.case(['loc', c])
        if v is None or 'panic' in v:
            ck.property_failure('loc.rs function panicked', {'case': c}, observed=v)
            continue
        u = v['union']
        digit = (8 if v['contains'] else 0) + (4 if v['contains_rev'] else 0) + (2 if u[0:2] == c[0:2] else 0) + (1 if u[2:4] == c[2:4] else 0)
        mine = (digit, v['cp'], v['lt'], v['le'], u)
        theirs = (int(m[0]), m[1] == 'true', m[2] == 'true', m[3] == 'true', [int(x) for x in m[4:8]])
        if mine != theirs:
            bad += 1
            if bad <= 3:
                ck.disagree('C14.case_result (model) vs samlang_ast::Location (implementation)', {'a': c[0:4], 'b': c[4:8], 'p': c[8:10]},
                            theirs, mine, how='vh lex-run loc')
            else:
                ck.corr_fail.append({'correspondence': 'C14.case_result', 'input': c, 'model': None, 'implementation': None, 'how': ''})
    ck.count('B-random-cases', len(cases))


# ----------------------------------------------------------------------------- valid modules and layouts

def valid_modules(rng, ngen):
    """[(name, module name, text)]: tests/, std/ and generated programs"""
    out = []
    for name, text in texts.sample_files():
        out.append((name, name.replace('/', '.')[:-4], text))
    for i in range(ngen):
        p = progs.gen_infer_program(rng.fork()) if i % 6 == 5 else progs.gen_order_program(rng.fork()) if i % 6 == 3 else progs.gen_program(rng.fork(), {'two_modules': False})
        out.append(('gen-%d' % i, 'Main', p['sources']['Main']))
    return out


def impl_token_exact(text, res):
    """On the implementation: slicing the text at a token's location gives the token's text."""
    b = text.encode('utf-8')
    starts = c05.line_starts(b)
    bad = []
    prev_end = (0, 0)
    for k, sl, sc, el, ec, s in res['tokens']:
        a, z = c05.byte_offset(starts, len(b), sl, sc), c05.byte_offset(starts, len(b), el, ec)
        if a is None or z is None or not (a < z):
            bad.append(('token location outside the text or empty', [k, sl, sc, el, ec, s]))
            continue
        if (sl, sc) < prev_end:
            bad.append(('token overlaps the previous token', [k, sl, sc, el, ec, s]))
        prev_end = (el, ec)
        if k.endswith('comment'):
            continue
        want = s[len('ERROR: '):] if k == 'error' else s
        got = b[a:z].decode('utf-8', errors='replace')
        if got != want:
            if k == 'int' and want == '-2147483648' and got.startswith('-') and got.endswith('2147483648') and got[1:-10].strip() == '':
                continue      # the merged token: location = union of `-` and the digits (C14 Props, theorem 7)
            bad.append(('token location does not slice to the token text', [k, sl, sc, el, ec, s, got]))
    return bad


def run(tier, seed, replay=None):
    ck = Check(PID, tier, seed, level='proof (partial)')
    ck.checker_cmd = 'make -C /verif/coq theories/C14/Props.vo (coqc 8.16.1, full .vo build) + Print Assumptions per theorem'
    ck.trusted = [
        'Coq 8.16.1 kernel; vm_compute (3x3 grid, Examples); OCaml extraction (ExtrOcamlBasic) of C14.Corr for the 6x6 grid and '
        'the random cases, cross-checked by the in-coqc 3x3 grid',
        'hand-written model coq/theories/C14/Model.v of crates/samlang-ast/src/loc.rs, tied by exhaustive/random differential execution; '
        'token positions: the C05 lexer model (hand-written scanners + logos specification), tied through samlang_parser::verif::lex',
        'the AST walker of harness/src/lex_run.rs (which nodes are children of which) and the byte-column reading of Position',
        'layer C is testing: the ~60 union call sites of the parser, diagnostics and services locations are monitored, not proved',
    ]
    ck.assumptions = ['columns are byte columns (stated in the theorems); the LSP adapter of samlang-cli passes them as LSP `character` '
                      'values unchanged, which is only the same thing on lines without non-ASCII characters before the position']
    check_props(ck, 'theories/C14/Props.v', extra_deps=['theories/C05'])
    rc_, out_ = coq_make(['theories/C05/Corr.vo', 'theories/C14/Corr.vo'])
    if rc_ != 0:
        ck.obligation('build-Corr.vo', False, out_[-600:])
    rng = Rng(seed)

    # ---- layer B (i): loc.rs
    if not replay:
        layer_b_loc(ck, rng.fork(), tier)

    # ---- inputs: valid modules under hostile layouts
    ngen = 0 if replay else (40 if tier == 'quick' else 600)
    mods = valid_modules(rng.fork(), ngen)
    lrng = rng.fork()
    laid = []       # (name, layout, module name, text)
    if replay:
        rj = json.load(open(replay))
        for k, t in (rj.get('input') or {}).get('sources', {}).items():
            laid.append(('replay', 'as-is', k, t))
    else:
        for name, mname, text in mods:
            laid.append((name, 'as-is', mname, text))
            for lay in lrng.shuffle(texts.LAYOUTS)[:5]:
                t = texts.hostile_layout(lrng, text, lay)
                if t is not None:
                    laid.append((name, lay, mname, t))
        # long lines and deep nesting (valid shapes only; depths far below the parser's recursion limit)
        # (the parser rejects more than 200 nested expressions / patterns / annotations by design)
        nested = ('paren', 'block', 'generic', 'match', 'fn-type', 'ifelse')
        for kind in nested + ('binary', 'call-chain', 'else-if-chain', 'comment-run', 'toplevels', 'concat'):
            for d in ((40, 150) if kind in nested else ((50, 300) if tier == 'quick' else (50, 300, 800))):
                laid.append(('nesting:%s:%d' % (kind, d), 'one-line', 'Main', texts.deep_nesting(kind, d)))
                laid.append(('nesting:%s:%d' % (kind, d), 'longline', 'Main', texts.hostile_layout(lrng, texts.deep_nesting(kind, d), 'longline')))
    if not replay:
        # valid modules whose imports were dropped: unresolved classes, quick fixes with edit ranges
        for name, mname, text in mods:
            if 'import ' in text and len(text) < 6000:
                body = '\n'.join(l for l in text.split('\n') if not l.startswith('import '))
                laid.append(('noimport:' + name, 'as-is', mname, body))
                t = texts.hostile_layout(lrng, body, lrng.pick(texts.LAYOUTS))
                if t is not None:
                    laid.append(('noimport:' + name, 'relaid', mname, t))
    if os.path.isdir(CORPUS):
        for fn in sorted(os.listdir(CORPUS)):
            if fn.endswith('.sam'):
                laid.append(('corpus:' + fn, 'as-is', 'Main', open(os.path.join(CORPUS, fn), encoding='utf-8').read()))

    # ---- layer B (ii): lexer positions vs the model, and token_loc_exact on the implementation
    lex_items = [t for (_, _, _, t) in laid if len(t) <= (6000 if tier == "quick" else 12000)]
    if tier == 'quick' and len(lex_items) > 500:
        lex_items = lrng.shuffle(lex_items)[:500]
    results, rc = c05.lex_impl(lex_items)
    for t, r in zip(lex_items, results):
        if r is None or r['panic'] is not None:
            ck.property_failure('the lexer panicked', {'sources': {'Main': t[:2000]}}, observed=r and r['panic'])
            continue
        ck.case(['lexpos', t])
        ck.count('B-lexer-tokens', len(r['tokens']))
        for what, tok in impl_token_exact(t, r)[:2]:
            ck.property_failure(what, {'sources': {'Main': t[:3000]}, 'token': tok}, how='vh lex-run lex')
    fails, errors = c05.run_model(lex_items, results, 'c14', vm_sample=40)
    for e in errors:
        ck.obligation('model-evaluation-lexer', False, e)
    for idx in sorted(fails)[:3]:
        code, k = fails[idx]
        ck.disagree('C05.lex positions (model) vs lexer (implementation)', {'text': lex_items[idx][:3000], 'why': c05.WHY.get(code, code), 'index': k},
                    None, results[idx]['tokens'][max(0, k - 1):k + 2])
    for idx in sorted(fails)[3:]:
        ck.corr_fail.append({'correspondence': 'C05.lex positions', 'input': {'text': lex_items[idx][:500]}, 'model': None, 'implementation': None, 'how': ''})
    ck.extra_cov['lexer_position_inputs_validated'] = len(lex_items) - len(fails)

    # ---- layer C: AST, diagnostics, services
    jobs = []
    for i, (name, lay, mname, t) in enumerate(laid):
        # services (definition / references at every identifier, folding ranges) on single modules that are small enough
        jobs.append({'id': i, 'sources': {mname: t}, 'services': len(t) < 6000 and not name.startswith('nesting'), 'with_std': True})
    # the whole test corpus as one program (cross-module definitions and references)
    whole = {m: t for (n_, m, t) in mods if not n_.startswith('gen-')}
    if whole and not replay:
        jobs.append({'id': len(jobs), 'sources': whole, 'services': tier != 'quick', 'with_std': False})
        laid.append(('whole-corpus', 'as-is', '*', ''))
    # diagnostics on broken modules: their locations must still be inside the document
    mrng = rng.fork()
    nmut = 0 if replay else (300 if tier == 'quick' else 5000)
    samples = texts.sample_files()
    mut_base = len(jobs)
    for i in range(nmut):
        name, text = mrng.pick(samples)
        t = texts.token_mutant(mrng, text) if i % 2 else texts.tree_mutant(mrng, text)
        jobs.append({'id': mut_base + i, 'sources': {'Main': t}, 'services': False})
    nsh = NCPU
    shards = [jobs[i::nsh] for i in range(nsh)]
    import concurrent.futures

    def run_shard(sh_):
        if not sh_:
            return ''
        inp = '\n'.join(json.dumps(j) for j in sh_) + '\n'
        rc, out = vh(['lex-run', 'ast-locs'], input=inp, timeout=2400)
        return out
    with concurrent.futures.ThreadPoolExecutor(max_workers=nsh) as ex:
        outs = list(ex.map(run_shard, shards))
    res = {}
    for out in outs:
        for l in out.split('\n'):
            if l.startswith('{'):
                try:
                    v = json.loads(l)
                except ValueError:
                    continue
                res[v['id']] = v
    tot = {'nodes': 0, 'ids': 0, 'diagnostics': 0, 'definitions': 0, 'references': 0, 'folding': 0, 'edits': 0}
    for j in jobs:
        v = res.get(j['id'])
        is_mut = j['id'] >= mut_base
        label = 'mutant' if is_mut else '%s/%s' % (laid[j['id']][0].split(':')[0] if laid[j['id']][0].startswith(('nesting', 'corpus', 'noimport')) else ('gen' if laid[j['id']][0].startswith('gen-') else 'sample'), laid[j['id']][1])
        ck.count('C:' + label)
        if v is None:
            ck.property_failure('ast-locs produced no result (harness died)', {'sources': {k: t[:2000] for k, t in j['sources'].items()}})
            continue
        ck.case(['ast', j['sources']], v.get('nodes', 0) > 0)
        tot['nodes'] += v.get('nodes', 0)
        tot['ids'] += v.get('ids', 0)
        tot['diagnostics'] += v.get('parser_diagnostics', 0)
        for k in ('definitions', 'references', 'folding', 'edits'):
            tot[k] += (v.get('services') or {}).get(k, 0)
        tot['diagnostics'] += (v.get('services') or {}).get('diagnostics', 0)
        if not is_mut and v.get('syntax_errors', 0) > 0 and not laid[j['id']][0].startswith('corpus'):
            # a layout must keep a valid module valid: otherwise the generator (or the lexer) is wrong
            ck.property_failure('a re-laid-out valid module no longer parses (%s, layout %s)' % (laid[j['id']][0], laid[j['id']][1]),
                                {'sources': {k: t[:3000] for k, t in j['sources'].items()}}, observed='%d syntax errors' % v['syntax_errors'])
            continue
        for x in v.get('violations', []):
            if is_mut and x['what'] not in ('diagnostic location outside the document or inverted', 'parser panicked',
                                            'location outside the document', 'start after end', 'location in another module'):
                continue      # tree-shape invariants are claimed for syntactically valid modules only
            src = j['sources'] if sum(len(t) for t in j['sources'].values()) < 4000 else {x.get('module', 'Main'): j['sources'].get(x.get('module', 'Main'), '')[:3000]}
            ck.property_failure('%s: %s' % (label, x['what']), {'sources': src}, expected='location invariants of C14', observed=x, how='vh lex-run ast-locs')
            break
    ck.extra_cov.update({'ast_nodes_checked': tot['nodes'], 'identifier_spellings_checked': tot['ids'], 'diagnostic_locations_checked': tot['diagnostics'],
                         'definition_results_checked': tot['definitions'], 'reference_results_checked': tot['references'], 'folding_ranges_checked': tot['folding'], 'edit_ranges_checked': tot['edits']})
    ck.rule = ('B: loc.rs: all 1296^2 ordered pairs of locations (well formed or not) over the 6x6 position grid + all 1296x36 '
               'contains_position cases (extracted model), the 3x3 grid again inside coqc, random cases with coordinates up to 3000; lexer: '
               'token kinds/positions/bytes vs the lexer model on re-laid-out modules. C: tests/*.sam, std/*.sam and generated well-typed '
               'programs, as-is and under 5 of 6 hostile layouts (CRLF, tabs+FF, blank lines, multi-line/non-ASCII comments between any two '
               'tokens, long lines, mixed), nested/long one-line modules; for every AST node: inside the document, start <= end, encloses its '
               'children, siblings disjoint and in source order, identifier/keyword-type/literal locations spell their text (byte columns); '
               'parser and checker diagnostics and their reference locations inside their document; definition_location and all_references '
               'at every identifier, folding_ranges nest or are disjoint; edit ranges of the quick fixes (code_actions) offered for modules '
               'with their imports removed; diagnostics of token/tree mutants inside the document.')
    return ck.finish()
