"""C15 — navigation and rename agree with the language's scoping rules (DESIGN.md section 4, C15).

Layer A: coq/theories/C15 (scope-stack machine over event traces).
Layer B: `vh scope-run` logs every call on SsaLocalStackedContext while the real analysis runs on one module and
         dumps SsaAnalysisResult; the Coq model run on the logged trace (vm_compute) must reproduce the dumps; after
         `rewrite::rename` + re-analysis the logged trace must be the model's rename_trace of the original trace.
Layer C: every identifier occurrence (independent AST walk) as query position of definition_location /
         all_references / rename; renamed documents are parsed, checked and run (reference interpreter).
"""
import concurrent.futures
import json
import os
import re
import subprocess
import time

from gen.rng import Rng
from gen.scopes import gen_error_program, gen_scope_program
from lib.e2e import same_behaviour
from lib.vlib import WORK, Check, build_harness, check_props, coq_eval, coq_eval_many, coq_result, vh

PID = 'C15'
KNOWN = 'C15-nested-or-later-alt'
KNOWN2 = 'C15-rename-rewrites-as-same-name'
KNOWN3 = 'C15-interface-parameter-not-renamed'
AS_SAME = re.compile(r'\b([a-z]\w*) as \1\b')
FRESH = ['zq', 'zq1', 'zq2', 'zzq9']
COMPARABLE = ('return', 'panic', 'vec-bounds')
HEADER = ('From Coq Require Import List NArith Bool. Import ListNotations.\n'
          'From SV Require Import C15.Model C15.Corr.\nOpen Scope N_scope.\n')


# ----------------------------------------------------------------------------- harness
def scope_run(jobs, timeout=1500, nproc=12):
    """Runs the jobs through `vh scope-run` in parallel processes; results in order."""
    if not jobs:
        return []
    ok, binp, out = build_harness('debug')
    if not ok:
        raise RuntimeError('harness build failed:\n' + out[-3000:])
    chunks = [jobs[i::nproc] for i in range(nproc)]

    def one(chunk):
        if not chunk:
            return []
        inp = '\n'.join(json.dumps(j) for j in chunk) + '\n'
        try:
            p = subprocess.run([binp, 'scope-run'], input=inp, stdout=subprocess.PIPE, stderr=subprocess.PIPE, text=True, timeout=timeout)
        except subprocess.TimeoutExpired:
            return []
        out = []
        for l in p.stdout.splitlines():
            if l.startswith('{'):
                try:
                    out.append(json.loads(l))
                except ValueError:          # a line cut short: the process was killed while writing (memory pressure)
                    pass
        return out
    res = {}
    with concurrent.futures.ThreadPoolExecutor(max_workers=nproc) as ex:
        for part in ex.map(one, chunks):
            for r in part:
                res[r['id']] = r
    # jobs without an answer (a worker process killed or timed out under load): once more, in small chunks, a few at a time
    missing = [j for j in jobs if j['id'] not in res]
    if missing:
        small = [missing[i:i + 8] for i in range(0, len(missing), 8)]
        with concurrent.futures.ThreadPoolExecutor(max_workers=4) as ex:
            for part in ex.map(one, small):
                for r in part:
                    res[r['id']] = r
    return [res.get(j['id']) for j in jobs]


def src_run(binp, sources, entry, tag, idx, fuel=20000000):
    d = os.path.join(WORK, 'c15_%s' % tag)
    os.makedirs(d, exist_ok=True)
    req = os.path.join(d, 'req_%d.json' % idx)
    with open(req, 'w') as f:
        json.dump({'sources': sources, 'entry': entry, 'fuel': fuel, 'max_depth': 20000}, f)
    try:
        p = subprocess.run([binp, 'src-run', '--json', req], stdout=subprocess.PIPE, stderr=subprocess.PIPE, timeout=180, text=True)
        line = [l for l in p.stdout.splitlines() if l.startswith('{')]
        return json.loads(line[-1]) if line else {'lines': [], 'ending': {'kind': 'interpreter-error', 'detail': (p.stderr or p.stdout)[-300:]}}
    except subprocess.TimeoutExpired:
        return {'lines': [], 'ending': {'kind': 'out-of-fuel', 'detail': 'wall-clock'}}


# ----------------------------------------------------------------------------- trace -> Gallina
class Intern:
    def __init__(self):
        self.m = {}

    def __call__(self, k):
        k = tuple(k) if isinstance(k, list) else k
        if k not in self.m:
            self.m[k] = len(self.m) + 1
        return self.m[k]


def merge_events(raw):
    """["U",l]["G",x,ft] -> ("use",x,l,ft); ["O"]["L",l] -> ("poplam",l). Returns (events, problem or None)."""
    ev, i = [], 0
    while i < len(raw):
        e = raw[i]
        k = e[0]
        if k == 'P':
            ev.append(('push',))
        elif k == 'O':
            if i + 1 < len(raw) and raw[i + 1][0] == 'L':
                ev.append(('poplam', tuple(raw[i + 1][1])))
                i += 1
            else:
                ev.append(('pop',))
        elif k == 'U':
            if i + 1 >= len(raw) or raw[i + 1][0] != 'G':
                return ev, 'use_id at event %d not followed by get' % i
            ev.append(('use', raw[i + 1][1], tuple(e[1]), bool(raw[i + 1][2])))
            i += 1
        elif k == 'I':
            ev.append(('def', e[1], tuple(e[2])))
        else:
            return ev, 'unexpected raw event %r at %d' % (e, i)
        i += 1
    return ev, None


def g_event(e, nm, lc):
    if e[0] == 'push':
        return 'Push'
    if e[0] == 'pop':
        return 'Pop'
    if e[0] == 'poplam':
        return 'PopLam %d' % lc(e[1])
    if e[0] == 'def':
        return 'Def %d %d' % (nm(e[1]), lc(e[2]))
    return 'Use %d %d %s' % (nm(e[1]), lc(e[2]), 'true' if e[3] else 'false')


def g_pat(p, nm, lc):
    if p[0] == 'id':
        return '(PId %d %d)' % (nm(p[1]), lc(p[2]))
    if p[0] == 'w':
        return 'PWild'
    if p[0] == 'n':
        return '(PNode [%s])' % '; '.join(g_pat(q, nm, lc) for q in p[1])
    return '(POr %s [%s])' % (g_pat(p[1], nm, lc), '; '.join(g_pat(q, nm, lc) for q in p[2]))


def g_case(res, events, renames):
    """Gallina term (trace, dump, rename observations) for one harness result."""
    nm, lc = Intern(), Intern()
    a = res['analysis']
    tr = '[%s]' % '; '.join(g_event(e, nm, lc) for e in events)
    ud = '[%s]' % '; '.join('(%d, %d)' % (lc(u), lc(d)) for u, d in a['use_define'])
    d2u = '[%s]' % '; '.join('(%d, [%s])' % (lc(d), '; '.join(str(lc(u)) for u in us)) for d, us in a['def_to_use'])
    lams = '[%s]' % '; '.join('(%d, [%s])' % (lc(l), '; '.join('(%d, %d)' % (nm(n), lc(d)) for n, d in cs)) for l, cs in a['lambda_captures'])
    unb = '[%s]' % '; '.join(str(nm(n)) for n in a['unbound'])
    inv = '[%s]' % '; '.join(str(lc(l)) for l in a['invalid_defines'])
    errs = []
    for e in a['errors']:
        if e[0] == 'unbound':
            errs.append('Unbound %d %d' % (nm(e[1]), lc(e[2])))
        elif e[0] == 'bound':
            errs.append('AlreadyBound %d %d %d' % (nm(e[1]), lc(e[2]), lc(e[3])))
        else:
            errs.append('Unbound 0 0')       # a diagnostic the model does not know: forces a disagreement
    pats = '[%s]' % '; '.join(g_pat(p, nm, lc) for p in a['patterns'])
    rs = []
    for (d, x, x2, diffs) in renames:
        rs.append('(%d, %d, %d, [%s])' % (lc(d), nm(x), nm(x2), '; '.join('(%d, %d)' % (i, nm(n)) for i, n in diffs)))
    return '(%s,\n mkDump %s %s %s %s %s [%s] %s,\n [%s])' % (tr, ud, d2u, lams, unb, inv, '; '.join(errs), pats, '; '.join(rs))


def run_model(cases, tag):
    """cases: list of (key, gallina). Returns ({key: [codes]}, errors)."""
    nshard = 16
    shards = [cases[i::nshard] for i in range(nshard)]
    jobs, idx = [], []
    for si, sh in enumerate(shards):
        if not sh:
            continue
        body = HEADER + 'Definition cases : list (list event * dump * list rename_obs) := [\n%s].\n' % ';\n'.join(g for _, g in sh)
        body += 'Eval vm_compute in (fails 0 cases).\n'
        jobs.append(('c15_%s_%d' % (tag, si), body))
        idx.append(sh)
    outs = coq_eval_many(jobs)
    fails, errors = {}, []
    for (rc, out), sh in zip(outs, idx):
        res = coq_result(out) if rc == 0 else None
        if res is None:
            errors.append(out[-1500:])
            continue
        for m in re.finditer(r'\((\d+), \[([^\]]*)\]\)', res):
            fails[sh[int(m.group(1))][0]] = [int(x) for x in re.findall(r'\d+', m.group(2))]
    return fails, errors


CODE = {1: 'use_define_map', 2: 'def_to_use_map', 3: 'lambda_captures', 4: 'unbound_names', 5: 'invalid_defines',
        6: 'scoping diagnostics', 7: 'events of a pattern (visit_matching_pattern model `emit`)'}


def model_dump(res, events):
    nm, lc = Intern(), Intern()
    tr = '[%s]' % '; '.join(g_event(e, nm, lc) for e in events)
    rc, out = coq_eval('c15_dump', HEADER + 'Eval vm_compute in (model_dump %s).\n' % tr)
    inv_l = {v: list(k) for k, v in lc.m.items()}
    inv_n = {v: k for k, v in nm.m.items()}
    return {'model': coq_result(out) if rc == 0 else out[-600:], 'locations': inv_l, 'names': inv_n}


# ----------------------------------------------------------------------------- programs
def load_corpus():
    out = []
    d = os.path.join('/verif/corpus', PID)
    if os.path.isdir(d):
        for fn in sorted(os.listdir(d)):
            if fn.endswith('.sam'):
                out.append({'sources': {'Main': open(os.path.join(d, fn)).read()}, 'entry': 'Main', 'module': 'Main', 'label': 'corpus:' + fn})
    return out


def repo_dir_sources(dirname, prefix):
    out = {}
    d = os.path.join('/repo', dirname)
    for fn in sorted(os.listdir(d)):
        if fn.endswith('.sam'):
            out[prefix + fn[:-4]] = open(os.path.join(d, fn)).read()
    return out


def imports_closure(sources, root):
    seen, todo = set(), [root]
    while todo:
        m = todo.pop()
        if m in seen or m not in sources:
            continue
        seen.add(m)
        for mm in re.findall(r'import\s*\{[^}]*\}\s*from\s+([A-Za-z0-9_.]+)', sources[m]):
            todo.append(mm)
    return {m: sources[m] for m in seen}


def tests_programs(rng, nfiles):
    """/repo/tests/X.sam as the module under analysis, with a driver that runs the test class's `run`."""
    srcs = repo_dir_sources('tests', 'tests.')
    srcs.update(repo_dir_sources('std', 'std.'))      # std.set is not among the embedded std sources
    alltests = srcs.get('tests.AllTests', '')
    cls_of = dict((m, c) for c, m in re.findall(r'import\s*\{\s*(\w+)\s*\}\s*from\s+(tests\.\w+)', alltests))
    runs = set(re.findall(r'TestCase\.init\("[^"]*",\s*(\w+)\.run\)', alltests))
    names = [m for m in sorted(srcs) if m != 'tests.AllTests' and m.startswith('tests.')]
    if nfiles is not None and nfiles < len(names):
        names = rng.shuffle(names)[:nfiles]
    out = []
    for m in sorted(names):
        c = cls_of.get(m)
        sources = imports_closure(srcs, m)
        entry = None
        if c in runs:
            sources = dict(sources)
            sources['tests.C15Driver'] = 'import { %s } from %s;\n\nclass Main {\n  function main(): unit = %s.run()\n}\n' % (c, m, c)
            entry = 'tests.C15Driver'
        out.append({'sources': sources, 'entry': entry, 'module': m, 'label': 'repo:' + m})
    return out


def std_programs():
    srcs = repo_dir_sources('std', 'std.')
    return [{'sources': {}, 'std_text': srcs[m], 'entry': None, 'module': m, 'label': 'repo:' + m} for m in sorted(srcs)]


# ----------------------------------------------------------------------------- token-level comparison
TOK = re.compile(r'[A-Za-z_][A-Za-z0-9_]*|\d+|"(?:[^"\\]|\\.)*"|//[^\n]*|/\*.*?\*/|->|::|&&|\|\||[<>=!]=|\S', re.S)


def tokens_with_pos(text):
    """[(token, line, col)] with 0-based positions."""
    out, line, col, i = [], 0, 0, 0
    for m in TOK.finditer(text):
        seg = text[i:m.start()]
        if '\n' in seg:
            line += seg.count('\n')
            col = len(seg) - seg.rfind('\n') - 1
        else:
            col += len(seg)
        out.append((m.group(0), line, col))
        t = m.group(0)
        if '\n' in t:
            line += t.count('\n')
            col = len(t) - t.rfind('\n') - 1
        else:
            col += len(t)
        i = m.end()
    return out


def same_up_to_as_same(t0, t1):
    """the two documents have the same tokens once every `f as f` is written `f`"""
    n0, n1 = AS_SAME.sub(r'\1', t0), AS_SAME.sub(r'\1', t1)
    return [t for t, _, _ in tokens_with_pos(n0)] == [t for t, _, _ in tokens_with_pos(n1)]


def same_program_up_to_own_shorthand(t0, t1, name):
    """same tokens once `name as name` (the object-pattern element binding the renamed variable) is written `name`"""
    rx = re.compile(r'\b%s\s+as\s+%s\b' % (re.escape(name), re.escape(name)))
    n0, n1 = rx.sub(name, t0), rx.sub(name, t1)
    return [t for t, _, _ in tokens_with_pos(n0)] == [t for t, _, _ in tokens_with_pos(n1)]


def changed_token_positions(a, f1):
    """a: tokens_with_pos of the original. Positions (line, col in the original) of the tokens that differ, or None if the
    token sequences have different length"""
    b = tokens_with_pos(f1)
    if len(a) != len(b):
        return None
    return [((x[1], x[2]), x[0], y[0]) for x, y in zip(a, b) if x[0] != y[0]]


# ----------------------------------------------------------------------------- one program
def monitor_program(ck, prog, res, label, behaviours):
    """Layer C on one accepted program. `behaviours`: list collecting (prog, res, rename record) to run later."""
    a = res['analysis']
    inp = {'sources': prog['sources'] if prog['sources'] else {res['module']: res['text']}, 'module': res['module'], 'label': label,
           'formatted_text': res['text']}
    defs = {}
    for e in a['trace']:
        if e[0] == 'I':
            defs.setdefault(tuple(e[2]), e[1])
    use_def = {tuple(u): tuple(d) for u, d in a['use_define']}
    d2u = {tuple(d): sorted(tuple(u) for u in us) for d, us in a['def_to_use']}
    occs = res['occurrences']
    has_known = {o['name'] for o in occs if o['nested_or_later']}
    as_same = AS_SAME.search(res['text']) is not None
    expected = []
    for o, qs in zip(occs, res.get('queries', [])):
        loc = tuple(o['loc'])
        ck.count('occ:' + o['kind'] + (':later-alt' if o['later_alt'] else ''))
        if o['kind'] == 'this':
            expected.append(None)
            continue
        d = loc if loc in defs else use_def.get(loc)
        expected.append(d)
        klass = KNOWN if o['nested_or_later'] else None
        where = '%s at %d:%d' % (o['name'], loc[0] + 1, loc[1] + 1)
        if d is None:
            ck.property_failure('the occurrence of %s resolves to no binding in the analysis (no event for it): '
                                'go-to-definition, find-references and rename cannot work there' % where,
                                dict(inp, occurrence=o), expected='a binding of %s' % o['name'], observed='no entry in use_define_map/def_locs', klass=klass)
            ck.count('occ-without-binding' + (':known-class' if klass else ''))
            continue
        if defs.get(d) != o['name']:
            ck.property_failure('%s resolves to a binder of a different name (%r)' % (where, defs.get(d)), dict(inp, occurrence=o))
        refs = d2u.get(d)
        for q in qs[:2]:
            ck.case(('q', label, loc, tuple(q['pos'])), nontrivial=False)
            if 'panic' in q:
                ck.property_failure('query at %s panicked: %s' % (where, q['panic']), dict(inp, occurrence=o))
                continue
            if q['def'] is None or tuple(q['def']) != d or q.get('def_module_ok') is False:
                ck.property_failure('definition_location at %s (position %s) is %s, the analysis resolves it to %s'
                                    % (where, q['pos'], q['def'], list(d)), dict(inp, occurrence=o), expected=list(d), observed=q['def'], klass=klass)
            if [tuple(x) for x in q['refs']] != sorted(set(refs or [])):
                ck.property_failure('all_references at %s (position %s) differs from binder + uses' % (where, q['pos']),
                                    dict(inp, occurrence=o), expected=[list(x) for x in (refs or [])], observed=q['refs'], klass=klass)
        # one past the end: informational
        if len(qs) > 2 and (qs[2].get('def') is None or tuple(qs[2]['def']) != d):
            ck.count('query-one-past-end-differs')
    # renames
    by_binder = {}
    texts = {}
    token_checked, toks0 = set(), None
    for r in res.get('renames', []):
        if r.get('text') is not None and 'text_id' in r:
            texts[r['text_id']] = r
    for r in res.get('renames', []):
        if r['occ'] is None:
            continue
        o = occs[r['occ']]
        loc = tuple(o['loc'])
        d = expected[r['occ']]
        where = '%s at %d:%d -> %s' % (o['name'], loc[0] + 1, loc[1] + 1, r['new'])
        klass = KNOWN if (o['nested_or_later'] or o['name'] in has_known) else None
        rinp = dict(inp, occurrence=o, new_name=r['new'])
        ck.case(('r', label, loc, r['new']), nontrivial=True)
        if 'panic' in r or 'update_panic' in r:
            ck.property_failure('rename %s panicked: %s' % (where, r.get('panic') or r.get('update_panic')), rinp)
            continue
        tid = r.get('text_id', r.get('same_text_as'))
        if tid is None:
            if d is not None:
                ck.property_failure('rename %s is refused (None) although the occurrence resolves to a binder' % where, rinp, klass=klass)
            elif not o['nested_or_later']:
                ck.property_failure('rename %s is refused (None)' % where, rinp)
            continue
        full = texts[tid]
        if r.get('syntax_errors'):
            ck.property_failure('rename %s: the result does not parse: %s' % (where, r['syntax_errors'][:2]), dict(rinp, renamed=full['text']), klass=klass)
            continue
        if r.get('diagnostics') != res['diagnostics']:
            only_or = all('Or-pattern alternatives must bind the same variables' in m for m in r.get('diagnostics', []))
            ck.property_failure('rename %s: diagnostics change: %s' % (where, r.get('diagnostics', [])[:3]),
                                dict(rinp, renamed=full['text']), expected=res['diagnostics'], observed=r.get('diagnostics'),
                                klass=klass if only_or else None)
            continue
        bt = r.get('back_text')
        if r.get('back_equal') is not True and isinstance(bt, str) and same_program_up_to_own_shorthand(res['text'], bt, o['name']):
            # `{ x as x }` and `{ x }` are two spellings of one pattern; the element that binds the renamed variable comes
            # back in the short spelling (upstream's rename_test_2 pins that collapse). Same program, so not a failure.
            ck.count('rename-back-equal-up-to-own-shorthand')
        elif r.get('back_equal') is not True:
            k2 = klass
            ck.property_failure('rename %s and back to %s does not restore the text' % (where, o['name']),
                                dict(rinp, renamed=full['text']), expected=res['text'], observed=r.get('back_text', r.get('back_panic')), klass=k2)
        by_binder.setdefault((d, r['new']), set()).add(tid)
        # token-level (once per distinct renamed document): exactly the tokens at binder + uses change, to the new name
        if tid in token_checked:
            continue
        token_checked.add(tid)
        if d is not None and not any(oo['field'] is not None and expected[i] == d for i, oo in enumerate(occs)):
            if toks0 is None:
                toks0 = tokens_with_pos(res['text'])
            ch = changed_token_positions(toks0, full['text'])
            want = sorted((x[0], x[1]) for x in d2u.get(d, []))
            if ch is None and as_same and same_up_to_as_same(res['text'].replace(o['name'], r['new']), full['text'].replace(o['name'], r['new'])):
                ck.property_failure('rename %s also rewrites an unrelated `f as f` pattern into `f`' % where,
                                    dict(rinp, renamed=full['text']), klass=KNOWN2)
            elif ch == [] and occs[[i for i, oo in enumerate(occs) if tuple(oo['loc']) == d][0]]['kind'] == 'iparam' if d in [tuple(oo['loc']) for oo in occs] else False:
                ck.property_failure('rename %s returns the document unchanged: parameters of interface method signatures are not renamed' % where,
                                    dict(rinp, renamed=full['text']), klass=KNOWN3)
            elif ch is None or sorted(p for p, _, _ in ch) != want or any(n != r['new'] or old != o['name'] for _, old, n in ch):
                ck.property_failure('rename %s: the tokens that changed are not exactly the binder and its uses' % where,
                                    dict(rinp, renamed=full['text']), expected=[list(x) for x in want],
                                    observed=None if ch is None else [list(p) for p, _, _ in ch], klass=klass)
            else:
                ck.count('rename-token-check-ok')
        else:
            ck.count('rename-token-check-skipped(struct field pattern)')
    for (d, new), tids in by_binder.items():
        if len(tids) > 1:
            ck.property_failure('renaming the same binder through different occurrences gives different documents',
                                dict(inp, binder=list(d) if d else None, new_name=new), klass=KNOWN if has_known else None)
    if res.get('diagnostics_restored') is False:
        ck.property_failure('after renaming back the server reports different diagnostics', inp)
    # behaviour: once per distinct renamed text
    if prog.get('entry'):
        for tid, full in sorted(texts.items()):
            if full.get('syntax_errors') or full.get('diagnostics') != res['diagnostics']:
                continue
            behaviours.append((prog, res, full, label))


def rename_observations(ck, res, events, label):
    """Layer B input for the rename tie: (binder loc, old name, new name, diffs) per distinct renamed text."""
    a = res['analysis']
    defs = {}
    for e in a['trace']:
        if e[0] == 'I':
            defs.setdefault(tuple(e[2]), e[1])
    use_def = {tuple(u): tuple(d) for u, d in a['use_define']}
    named = [i for i, e in enumerate(events) if e[0] in ('def', 'use')]
    old_names = [events[i][1] for i in named]
    out = []
    for r in res.get('renames', []):
        if r.get('text') is None or 'text_id' not in r or r['occ'] is None:
            continue
        o = res['occurrences'][r['occ']]
        loc = tuple(o['loc'])
        d = loc if loc in defs else use_def.get(loc)
        if d is None:
            continue
        if r.get('syntax_errors'):
            continue
        if o['kind'] == 'iparam':
            continue        # open finding C15-interface-parameter-not-renamed; reported by the monitor
        if not r.get('shape_ok'):
            ck.disagree('rename: trace after rewrite::rename + re-analysis vs original trace (shape)',
                        {'label': label, 'text': res['text'], 'occurrence': o, 'new': r['new'], 'renamed': r['text']},
                        'same events up to names and a relabelling of locations', 'different shape (analysis_panic=%s)' % r.get('analysis_panic'))
            continue
        if not r.get('loc_order_ok'):
            ck.disagree('rename: relabelling of locations is not monotone', {'label': label, 'text': res['text'], 'occurrence': o}, 'monotone', 'not monotone')
        new_names = r['names']
        if len(new_names) != len(old_names):
            ck.disagree('rename: number of named events', {'label': label, 'occurrence': o}, len(old_names), len(new_names))
            continue
        diffs = [(named[j], new_names[j]) for j in range(len(named)) if new_names[j] != old_names[j]]
        out.append((d, o['name'], r['new'], diffs))
        ck.count('rename-trace-tied')
    return out


# ----------------------------------------------------------------------------- main
def run(tier, seed, replay=None):
    ck = Check(PID, tier, seed, level='proof')
    ck.checker_cmd = 'make -C /verif/coq theories/C15/Props.vo (coqc 8.16.1, full .vo build) + Print Assumptions per theorem'
    ck.trusted = [
        'Coq 8.16.1 kernel; vm_compute to run the model on logged traces and in the non-vacuity Examples',
        'no axioms: every C15 theorem prints "Closed under the global context"',
        'hand-written model coq/theories/C15/Model.v of SsaLocalStackedContext::{get, insert, push_scope, pop_scope} and of '
        'the bookkeeping of SsaAnalysisState::{define_id, use_id} (crates/samlang-checker/src/ssa_analysis.rs); tied to the '
        'code by running it on the event trace logged by the hook samlang_checker::verif (add-only log lines in the four '
        'methods, in use_id and at the lambda pop) and comparing with the dumped SsaAnalysisResult',
        'which construct emits which events is modelled in theories/C15v/Visitor.v (a mirror of ssa_analysis.rs visit_*), proved to compute lexical scoping, and compared event for event with the hook log of every module (checks/c15_visitor.py)',
        'harness/src/scope_run.rs (event log -> JSON, comparison of two traces up to a relabelling of locations, the '
        'independent AST walk that enumerates identifier occurrences) and checks/c15.py (JSON -> Gallina terms, interning)',
        'behaviour of renamed programs: the reference interpreter vh src-run (testing, not proof)',
        'not modelled: HashMap internals (association lists, newest binding first), local_scoped_def_locs, the ServerState '
        'plumbing around rename (covered by the monitor only), the pretty printer and the parser',
    ]
    ck.assumptions = ['rename_hyps: the renamed binder has exactly one definition event (true of parameters, pattern and lambda '
                      'binders; type parameters are defined twice and are not local variables), the trace raises no scoping '
                      'diagnostic, the new name does not occur in the trace']
    check_props(ck, 'theories/C15/Props.v')

    rng = Rng(seed)
    progs = []
    if replay:
        rp = json.load(open(replay))
        inp = rp.get('input') or {}
        if 'sources' in inp:
            progs.append({'sources': inp['sources'], 'entry': 'Main' if 'Main' in inp['sources'] else None,
                          'module': inp.get('module', 'Main'), 'label': 'replay'})
    else:
        progs += load_corpus()
        ngen, nerr, ntests = (150, 40, 6) if tier == 'quick' else (1500, 300, None)
        for i in range(ngen):
            p = gen_scope_program(rng.fork(), depth=4 if i % 3 else 5, nfun=4 + i % 3)
            p.update(module='Main', label='gen:%d' % i)
            progs.append(p)
        for i in range(nerr):
            p = gen_error_program(rng.fork())
            p.update(module='Main', label='err:%d' % i)
            progs.append(p)
        # one program of the open class, so that the KNOWN-FINDING line is printed while the defect is there
        progs += tests_programs(rng.fork(), ntests)
        if tier != 'quick':
            progs += std_programs()
        only = os.environ.get('C15_ONLY')          # debugging aid: restrict to one family of programs
        if only:
            progs = [p for p in progs if p['label'].startswith(only)]
    ck.rule = ('generated modules (gen/scopes.py: parameters, let with every pattern form, or-patterns binding the same names, '
               'if-let, lambdas, nested lambdas, this; names reused in sibling scopes) x every identifier occurrence found by an '
               'independent AST walk x {definition, references, rename to a fresh name, rename back}; scoping-error mutants '
               'for the analysis correspondence only; /repo/tests modules (sample in quick, all in thorough) and /repo/std '
               '(thorough). distinct = distinct (module, occurrence, query) triples; non-trivial = renames')

    jobs = []
    for i, p in enumerate(progs):
        lab = p['label']
        j = {'id': i, 'module': p['module'], 'fresh': FRESH}
        if 'std_text' in p:
            j.update(sources={p['module']: p['std_text']}, with_std=True, renames='binders', max_renames=60)
        elif lab.startswith('repo:'):
            j.update(sources=p['sources'], renames='all' if tier != 'quick' else 'all', max_renames=400 if tier != 'quick' else 40)
        elif lab.startswith('err:'):
            j.update(sources=p['sources'], renames='none')
        else:
            j.update(sources=p['sources'], renames='all')
        jobs.append(j)
    results = scope_run(jobs)
    ck.notes.append('t(scope-run)=%.1fs' % (time.time() - ck.t0))

    cases, behaviours = [], []
    evs = {}
    for i, (p, res) in enumerate(zip(progs, results)):
        lab = p['label']
        if res is None or 'harness_panic' in (res or {}):
            ck.obligation('harness-run:%s' % lab, False, str(res)[:300])
            continue
        a = res['analysis']
        if res['syntax_errors']:
            ck.count('skipped:syntax-errors')
            continue
        if a.get('panic'):
            ck.property_failure('analysis panicked on %s: %s' % (lab, a['panic']), {'sources': p['sources'], 'module': p['module']})
            continue
        if not res.get('format_fixpoint'):
            ck.count('skipped:printer-not-idempotent (C09 territory)')
            continue
        events, problem = merge_events(a['trace'])
        if problem:
            ck.disagree('hook event log', {'label': lab}, 'use_id = UseAt;Get and lambda pop = Pop;LambdaFrame', problem)
            continue
        evs[i] = events
        for e in events:
            ck.count('ev:' + e[0])
        accepted = res.get('diagnostics') == []
        ck.count('programs:' + lab.split(':')[0] + (':accepted' if accepted else ':with-diagnostics'))
        ck.count('lambda-frames-with-captures', sum(1 for _, cs in a['lambda_captures'] if cs))
        ck.count('scoping-diagnostics', len(a['errors']))
        renames = rename_observations(ck, res, events, lab) if accepted else []
        cases.append((i, g_case(res, events, renames)))
        ck.case(('b', lab, res['text']), nontrivial=True)
        if accepted and lab.split(':')[0] != 'err':
            for k, v in (p.get('features') or {}).items() if isinstance(p.get('features'), dict) else []:
                ck.count('feature:' + k, v)
            monitor_program(ck, p, res, lab, behaviours)
    # Layer B: the model on the logged traces
    ck.notes.append('t(monitor)=%.1fs' % (time.time() - ck.t0))
    fails, errors = run_model(cases, 'r' if replay else tier[0])
    ck.notes.append('t(model)=%.1fs' % (time.time() - ck.t0))
    for e in errors:
        ck.obligation('model-evaluation', False, e)
    shown = 0
    for i, codes in sorted(fails.items()):
        res, p = results[i], progs[i]
        for c in codes:
            if c >= 1000:
                ck.disagree('rename_hyps (hypotheses of C15_rename_preserves_resolution) on the trace of an accepted program',
                            {'label': p['label'], 'text': res['text'], 'rename_index': c - 1000}, 'hold', 'do not hold')
            elif c >= 100:
                ck.disagree('C15.rename_trace (model) vs trace logged after rewrite::rename + re-analysis',
                            {'label': p['label'], 'text': res['text'], 'rename_index': c - 100}, 'equal traces', 'different')
            else:
                md = model_dump(res, evs[i]) if shown < 2 else None
                shown += 1
                ck.disagree('C15.run (model) vs perform_ssa_analysis_on_module: ' + CODE.get(c, str(c)),
                            {'label': p['label'], 'sources': {p['module']: res['text']}, 'module': p['module']}, md,
                            {k: res['analysis'][k] for k in ('use_define', 'def_to_use', 'lambda_captures', 'unbound', 'invalid_defines', 'errors')})
    ck.extra_cov['traces_validated_against_impl'] = len(cases) - sum(1 for c in fails.values() if any(x < 100 for x in c))
    # Layer C: behaviour of renamed programs
    ok, binp, _ = build_harness('debug')
    base_cache = {}
    todo = []
    cap = 9000 if tier == 'quick' else 90000
    stride = max(1, -(-len(behaviours) // cap))
    for k, (p, res, full, lab) in enumerate(behaviours):
        if k % stride == 0:
            todo.append((k, p, res, full, lab))
    ck.count('behaviour:renamed-documents', len(behaviours))
    ck.count('behaviour:runs', len(todo))

    def sources_with(p, res, text):
        s = dict(p['sources'])
        s[res['module']] = text
        return s
    with concurrent.futures.ThreadPoolExecutor(max_workers=14) as ex:
        base_f = {}
        for k, p, res, full, lab in todo:
            if lab not in base_f:
                base_f[lab] = ex.submit(src_run, binp, sources_with(p, res, res['text']), p['entry'], 'b', len(base_f))
        ren_f = [(ex.submit(src_run, binp, sources_with(p, res, full['text']), p['entry'], 'r', k), p, res, full, lab) for k, p, res, full, lab in todo]
        for f, p, res, full, lab in ren_f:
            b0, b1 = base_f[lab].result(), f.result()
            k0 = b0['ending']['kind']
            ck.count('behaviour:base-' + k0)
            if k0 not in COMPARABLE:
                continue
            d = None if b1['ending']['kind'] in COMPARABLE else 'renamed program ends with %s' % b1['ending']
            d = d or same_behaviour(b0, b1)
            ck.case(('beh', lab, full['text']), nontrivial=True)
            if d:
                o = res['occurrences'][full['occ']] if full['occ'] is not None else None
                ck.property_failure('renamed program behaves differently: ' + d,
                                    {'sources': p['sources'], 'module': res['module'], 'formatted_text': res['text'], 'occurrence': o,
                                     'new_name': full['new'], 'renamed': full['text']},
                                    expected={'lines': b0['lines'][:30], 'ending': b0['ending']},
                                    observed={'lines': b1['lines'][:30], 'ending': b1['ending']})
            else:
                ck.count('behaviour:identical')
    if cases:
        i0 = cases[0][0]
        ck.sample({'label': progs[i0]['label'], 'text': results[i0]['text'][:600], 'events': len(evs[i0]),
                   'occurrences': len(results[i0]['occurrences']), 'renames': len(results[i0].get('renames', []))})
    if not replay:
        # the visitor: Gallina mirror of ssa_analysis.rs visit_* (theories/C15v), proved to compute lexical scoping, compared
        # event for event with the hooked analysis on every module
        from checks import c15_visitor
        c15_visitor.visitor(ck, tier, seed)
    os.makedirs(os.path.join(WORK, 'c15'), exist_ok=True)
    with open(os.path.join(WORK, 'c15', 'failures_%s.json' % tier), 'w') as f:     # scratch copy of everything found, for debugging
        json.dump({'property_failures': ck.mon_fail, 'disagreements': ck.corr_fail}, f, indent=1, default=str)
    return ck.finish()
