"""C15 (visitor) — the VISITOR of ssa_analysis.rs is modelled, not only observed.

Layer A: coq/theories/C15v (Syntax, Visitor = Gallina mirror of the visit_* functions, Rules = lexical scoping by
         environment passing + free variables, Proofs, Props: 26 theorems).
Layer B: `vh scope-ast` parses a module with the real parser and dumps (i) the module as a term of C15v/Syntax.v, built by
         an independent walk over the parsed AST, and (ii) the raw log of the calls the hooked real analysis made on the
         scope stack, with the segment of every member.  Inside coqc (vm_compute): `visit_module ast` must be the logged
         trace event for event, and `visit_member m` the segment of every member m.  Any difference is a disagreement,
         reported with the member's source text and the first differing event.  Also: use_define_map of the real
         SsaAnalysisResult must be the map the declarative rules (Rules.v: lex_module, no trace, no machine) give.

`visitor(ck, tier, seed)` is called by checks/c15.py; `run(tier, seed)` runs this part alone.
"""
import concurrent.futures
import json
import os
import re
import subprocess
import sys
import time

from gen.rng import Rng
from gen.scopes import gen_error_program, gen_scope_program, scope_violation_programs
from lib.vlib import REPO, WORK, Check, build_harness, check_props, coq_eval_many, coq_result

HEADER = ('From Coq Require Import List NArith Bool. Import ListNotations.\n'
          'From SV Require Import C15.Model C15v.Syntax C15v.Visitor C15v.Corr.\nOpen Scope N_scope.\n')
TABLE = 'C15v.visit_module / visit_member (Gallina model of the visitor of ssa_analysis.rs) vs the trace logged by the hooked analysis'


class Intern:
    """identifier strings / location quadruples -> 1, 2, 3, ... (as checks/c15.py does)"""

    def __init__(self):
        self.m = {}

    def __call__(self, k):
        k = tuple(k) if isinstance(k, list) else k
        if k not in self.m:
            self.m[k] = len(self.m) + 1
        return self.m[k]

    def inv(self):
        return {v: k for k, v in self.m.items()}


def merge_events(raw):
    """["U",l]["G",x,ft] -> ("use",x,l,ft); ["O"]["L",l] -> ("poplam",l) (as checks/c15.py). Returns (events, index map raw->merged, problem)."""
    ev, at, i = [], {}, 0
    while i < len(raw):
        e = raw[i]
        k = e[0]
        at[i] = len(ev)
        if k == 'P':
            ev.append(('push',))
        elif k == 'O':
            if i + 1 < len(raw) and raw[i + 1][0] == 'L':
                ev.append(('poplam', tuple(raw[i + 1][1])))
                i += 1
            else:
                ev.append(('pop',))
        elif k == 'U':
            if i + 1 >= len(raw) or raw[i + 1][0] != 'G':
                return ev, at, 'use_id at event %d not followed by get' % i
            ev.append(('use', raw[i + 1][1], tuple(e[1]), bool(raw[i + 1][2])))
            i += 1
        elif k == 'I':
            ev.append(('def', e[1], tuple(e[2])))
        else:
            return ev, at, 'unexpected raw event %r at %d' % (e, i)
        i += 1
    at[len(raw)] = len(ev)
    return ev, at, None


def g_event(e, nm, lc):
    if e[0] == 'push':
        return 'Push'
    if e[0] == 'pop':
        return 'Pop'
    if e[0] == 'poplam':
        return 'PopLam %d' % lc(e[1])
    if e[0] == 'def':
        return 'Def %d %d' % (nm(e[1]), lc(e[2]))
    return 'Use %d %d %s' % (nm(e[1]), lc(e[2]), 'true' if e[3] else 'false')


# ----------------------------------------------------------------------------- JSON term -> Gallina (Syntax.v)
class OutOfFragment(Exception):
    pass


class G:
    def __init__(self, nm, lc, stats):
        self.nm, self.lc, self.stats = nm, lc, stats

    def cnt(self, k):
        self.stats[k] = self.stats.get(k, 0) + 1

    def lst(self, xs):
        return '[' + '; '.join(xs) + ']'

    def annot(self, a):
        k = a[0]
        if k == 'prim':
            return 'TPrim'
        if k == 'id':
            return '(TId %s %d %d %s)' % ('true' if a[1] else 'false', self.nm(a[2]), self.lc(a[3]), self.annots(a[4]))
        if k == 'gen':
            return '(TGeneric %d %d)' % (self.nm(a[1]), self.lc(a[2]))
        if k == 'fn':
            return '(TFn %s %s)' % (self.annots(a[1]), self.annot(a[2]))
        raise OutOfFragment('annotation ' + str(k))

    def annots(self, l):
        return 'TNil' if not l else '(annots_of %s)' % self.lst(self.annot(a) for a in l)

    def oannot(self, a):
        return 'None' if a is None else '(Some %s)' % self.annot(a)

    def pat(self, p):
        k = p[0]
        if k in ('tuple', 'object', 'variant'):
            self.cnt('pat:' + k)
            return '(%s %s)' % ({'tuple': 'PTuple', 'object': 'PObject', 'variant': 'PVariant'}[k], self.pats(p[1]))
        if k == 'id':
            return '(PId %d %d)' % (self.nm(p[1]), self.lc(p[2]))
        if k == 'wild':
            return 'PWild'
        if k == 'or':
            if not p[1]:
                raise OutOfFragment('or-pattern without alternatives')
            self.cnt('pat:or')
            return '(POr %s %s)' % (self.pat(p[1][0]), self.pats(p[1][1:]))
        raise OutOfFragment('pattern ' + str(k))

    def pats(self, l):
        return 'PNil' if not l else '(pats_of %s)' % self.lst(self.pat(q) for q in l)

    def block(self, b):
        ss = []
        for s in b['stmts']:
            if s[0] == 'let':
                self.cnt('let')
                ss.append('inl (%s, %s, %s)' % (self.pat(s[1]), self.oannot(s[2]), self.expr(s[3])))
            else:
                ss.append('inr %s' % self.expr(s[1]))
        fin = 'None' if b['final'] is None else '(Some %s)' % self.expr(b['final'])
        return '(stmts_of %s %s)' % (self.lst(ss), fin)

    def ifelse(self, i):
        e2 = i[-1]
        g2 = '(ElseIf %s)' % self.ifelse(e2[1]) if e2[0] == 'if' else '(ElseBlock %s)' % self.block(e2[1])
        if i[0] == 'bool':
            self.cnt('if')
            return '(IfBool %s %s %s)' % (self.expr(i[1]), self.block(i[2]), g2)
        self.cnt('if-let')
        return '(IfLet %s %s %s %s)' % (self.pat(i[1]), self.expr(i[2]), self.block(i[3]), g2)

    def exprs(self, l):
        return 'ENil' if not l else '(exprs_of %s)' % self.lst(self.expr(e) for e in l)

    def expr(self, e):
        k = e[0]
        if k == 'lit':
            return 'ELit'
        if k == 'classid':
            return 'EClassId'
        if k == 'id':
            return '(EId %d %d)' % (self.nm(e[1]), self.lc(e[2]))
        if k == 'tuple':
            return '(ETuple %s)' % self.exprs(e[1])
        if k == 'field':
            return '(EField %s %s)' % (self.expr(e[1]), self.annots(e[2]))
        if k == 'method':
            return '(EMethod %s %s)' % (self.expr(e[1]), self.annots(e[2]))
        if k == 'unary':
            return '(EUnary %s)' % self.expr(e[1])
        if k == 'call':
            return '(ECall %s %s)' % (self.expr(e[1]), self.exprs(e[2]))
        if k == 'binary':
            return '(EBinary %s %s)' % (self.expr(e[1]), self.expr(e[2]))
        if k == 'if':
            return '(EIf %s)' % self.ifelse(e[1])
        if k == 'match':
            self.cnt('match')
            self.stats['match-arms'] = self.stats.get('match-arms', 0) + len(e[2])
            arms = 'ANil' if not e[2] else '(arms_of %s)' % self.lst('(%s, %s)' % (self.pat(a[0]), self.expr(a[1])) for a in e[2])
            return '(EMatch %s %s)' % (self.expr(e[1]), arms)
        if k == 'lambda':
            self.cnt('lambda')
            ps = self.lst('(%d, %d, %s)' % (self.nm(p[0]), self.lc(p[1]), self.oannot(p[2])) for p in e[2])
            return '(ELambda %d %s %s)' % (self.lc(e[1]), ps, self.expr(e[3]))
        if k == 'block':
            self.cnt('block')
            return '(EBlock %s)' % self.block(e[1])
        raise OutOfFragment('expression ' + str(k))

    def tparams(self, l):
        out = []
        for x, loc, b in l:
            gb = 'None' if b is None else '(Some (%d, %d, %s))' % (self.nm(b[0]), self.lc(b[1]), self.annots(b[2]))
            out.append('(mkTParam %d %d %s)' % (self.nm(x), self.lc(loc), gb))
        return self.lst(out)

    def member(self, m):
        ps = self.lst('(%d, %d, %s)' % (self.nm(p[0]), self.lc(p[1]), self.annot(p[2])) for p in m['params'])
        body = 'None' if m['body'] is None else '(Some %s)' % self.expr(m['body'])
        return '(mkMember %s %d %d %s %s %s %s)' % ('true' if m['method'] else 'false', self.nm(m['name']), self.lc(m['loc']),
                                                    self.tparams(m['tparams']), ps, self.annot(m['ret']), body)

    def toplevel(self, t):
        ext = self.lst('(%d, %d, %s)' % (self.nm(n[0]), self.lc(n[1]), self.annots(n[2])) for n in t['ext'])
        d = t['def']
        if d is None:
            gd = 'None'
        elif d[0] == 'struct':
            gd = '(Some (TDStruct %s))' % self.lst('(%d, %d, %s)' % (self.nm(f[0]), self.lc(f[1]), self.annot(f[2])) for f in d[1])
        else:
            gd = '(Some (TDEnum %s))' % self.lst('(%d, %d, %s)' % (self.nm(v[0]), self.lc(v[1]), self.annots(v[2])) for v in d[1])
        return '(mkTop %s %d %d %d %s %s %s %s)' % ('true' if t['class'] else 'false', self.nm(t['name']), self.lc(t['nloc']), self.lc(t['loc']),
                                                    self.tparams(t['tparams']), ext, gd, self.lst(self.member(m) for m in t['members']))

    def module(self, m):
        imps = self.lst('(%d, %d)' % (self.nm(i[0]), self.lc(i[1])) for i in m['imports'])
        return '(mkModule %s %s)' % (imps, self.lst(self.toplevel(t) for t in m['tops']))


# ----------------------------------------------------------------------------- harness
def scope_ast(jobs, timeout=900, nproc=12):
    if not jobs:
        return []
    ok, binp, out = build_harness('debug')
    if not ok:
        raise RuntimeError('harness build failed:\n' + out[-3000:])
    chunks = [jobs[i::nproc] for i in range(nproc)]

    def one(chunk):
        if not chunk:
            return []
        inp = '\n'.join(json.dumps(j) for j in chunk) + '\n'
        try:
            p = subprocess.run([binp, 'scope-ast'], input=inp, stdout=subprocess.PIPE, stderr=subprocess.PIPE, text=True, timeout=timeout)
        except subprocess.TimeoutExpired:
            return []
        return [json.loads(l) for l in p.stdout.splitlines() if l.startswith('{')]
    res = {}
    with concurrent.futures.ThreadPoolExecutor(max_workers=nproc) as ex:
        for part in ex.map(one, chunks):
            for r in part:
                res[r['id']] = r
    return [res.get(j['id']) for j in jobs]


def repo_modules(dirname, prefix):
    d = os.path.join(REPO, dirname)
    return [(prefix + fn[:-4], open(os.path.join(d, fn)).read()) for fn in sorted(os.listdir(d)) if fn.endswith('.sam')]


def span_text(text, span):
    lines = text.split('\n')
    sl, sc, el, ec = span
    if sl == el:
        return lines[sl][sc:ec]
    return '\n'.join([lines[sl][sc:]] + lines[sl + 1:el] + [lines[el][:ec]])


def describe(code, inv_n, inv_l):
    k, a, b, c = code
    if k == 0:
        return 'no event (the trace ends here)'
    if k == 1:
        return 'push_scope'
    if k == 2:
        return 'pop_scope'
    if k == 3:
        return 'pop_scope of the lambda at %s' % (list(inv_l.get(a, ())),)
    if k == 4:
        return 'define_id(%s, %s)' % (inv_n.get(a), list(inv_l.get(b, ())))
    return 'use_id(%s, %s, for_type=%s)' % (inv_n.get(a), list(inv_l.get(b, ())), bool(c))


SPEC_CODE = 999999
FAIL = re.compile(r'\((\d+), \((\d+), \((\d+), (\d+), (\d+), (\d+)\), \((\d+), (\d+), (\d+), (\d+)\)\)\)')


def inputs(tier, seed):
    """(label, module name, text, counts towards the tests/+std/ coverage figure)"""
    rng = Rng(seed)
    out = []
    d = os.path.join('/verif/corpus', 'C15')
    if os.path.isdir(d):
        for fn in sorted(os.listdir(d)):
            if fn.endswith('.sam'):
                out.append(('corpus:' + fn, 'Main', open(os.path.join(d, fn)).read(), False))
    ngen, nerr = (60, 25) if tier == 'quick' else (600, 200)
    for i in range(ngen):
        p = gen_scope_program(rng.fork(), depth=4 if i % 3 else 5, nfun=4 + i % 3)
        out.append(('gen:%d' % i, 'Main', p['sources']['Main'], False))
        out.append(('gen-apart:%d' % i, 'Main', p['renamed_apart']['Main'], False))
    for i in range(nerr):
        p = gen_error_program(rng.fork())
        out.append(('err:%d' % i, 'Main', p['sources']['Main'], False))
    # a binder used outside the region where it is in scope (14 kinds): the use must come out unresolved
    for kind, p in scope_violation_programs(rng.fork()):
        out.append(('viol:' + kind, 'Main', p['sources']['Main'], False))
    for name, text in repo_modules('tests', 'tests.') + repo_modules('std', 'std.'):
        out.append(('repo:' + name, name, text, True))
    return out


OR_UNBOUND = '''class E(A(int), B(int)) {}
class Main {
  function f(e: E, y: int): int = match e { A(x) | B(y) -> 1 }
  function main(): unit = Process.println(Str.fromInt(Main.f(E.A(1), 2)))
}
'''


def replay_refuted(ck):
    """C15v_or_pattern_later_alternative_resolves_refuted: `A(x) | B(y)` with an enclosing y.  The scoping analysis resolves
    the later alternative's y to the enclosing binding without a diagnostic of its own; the program must still be rejected."""
    ok, binp, _ = build_harness('debug')
    job = {'id': 0, 'sources': {'Main': OR_UNBOUND}, 'entries': ['Main'], 'compile': False}
    try:
        p = subprocess.run([binp, 'front'], input=json.dumps(job) + '\n', stdout=subprocess.PIPE, stderr=subprocess.PIPE, text=True, timeout=120)
        r = json.loads([l for l in p.stdout.splitlines() if l.startswith('{')][-1])
    except Exception as ex:        # noqa: BLE001
        ck.obligation('replay of the refuted or-pattern statement', False, repr(ex)[:300])
        return
    msgs = [e.get('msg', '') for e in r.get('errors', []) if e.get('module') == 'Main']
    ck.case(('refuted-or', OR_UNBOUND), nontrivial=True)
    if msgs:
        ck.count('visitor:refuted-or-pattern-witness-rejected-by-the-checker')
        ck.notes.append('witness of C15v_or_pattern_later_alternative_resolves_refuted is rejected by the checker: ' + msgs[0][:160])
    else:
        ck.property_failure('`A(x) | B(y)` with an enclosing y is accepted: the later alternative silently refers to the enclosing variable',
                            {'sources': {'Main': OR_UNBOUND}, 'module': 'Main'}, expected='a diagnostic', observed='no diagnostic')


def visitor(ck, tier, seed):
    """Layer A obligations of C15v + the visitor tie; records everything on ck."""
    sys.setrecursionlimit(max(sys.getrecursionlimit(), 20000))
    t0 = time.time()
    check_props(ck, 'theories/C15v/Props.v', extra_deps=('theories/C15',))
    ck.notes.append('visitor: t(props)=%.1fs' % (time.time() - t0))
    ck.trusted += [
        'visitor model: coq/theories/C15v/Visitor.v is a hand-written Gallina mirror of the visit_* functions of '
        'crates/samlang-checker/src/ssa_analysis.rs; tied to the code by comparing, inside coqc, `visit_module ast` with the trace '
        'logged by the hook (whole module and every member), ast being dumped by harness/src/scope_ast.rs with a walk of its own '
        'over the AST the real parser produced; trusted: that walk (AST -> term of C15v/Syntax.v), the bracket-based split of '
        'the logged trace into member segments, checks/c15_visitor.py (JSON -> Gallina, interning of names and locations)',
        'the declarative side of the C15v theorems (C15v/Rules.v: lex_*, binders, fv_*) is a definition of lexical scoping '
        'written for this check; AlreadyBound diagnostics and local_scoped_def_locs are not part of the visitor theorems',
    ]
    progs = inputs(tier, seed)
    jobs = [{'id': i, 'module': m, 'text': t} for i, (_, m, t, _) in enumerate(progs)]
    results = scope_ast(jobs)
    ck.notes.append('visitor: t(scope-ast)=%.1fs' % (time.time() - t0))
    cases, meta = [], {}
    cov_all = cov_in = 0
    stats = {}
    for i, ((label, modname, text, counted), r) in enumerate(zip(progs, results)):
        fam = label.split(':')[0]
        if r is None or 'harness_panic' in r:
            ck.obligation('scope-ast:%s' % label, False, str(r)[:300])
            continue
        if r.get('panic'):
            if r['panic'].startswith('ssa:'):
                ck.property_failure('scoping analysis panicked on %s: %s' % (label, r['panic']), {'sources': {modname: text}, 'module': modname})
            else:
                ck.count('visitor:skipped:' + r['panic'].split(':')[0] + '-panic')
            continue
        ast = r['ast']
        members = [m for t in ast['tops'] for m in t['members']]
        if counted:
            cov_all += len(members)
        if r['syntax_errors']:
            ck.count('visitor:skipped:syntax-errors')
            continue
        nm, lc = Intern(), Intern()
        try:
            gm = G(nm, lc, stats).module(ast)
        except OutOfFragment as ex:
            ck.count('visitor:out-of-fragment:' + str(ex))
            continue
        if counted:
            cov_in += len(members)
        events, at, problem = merge_events(r['trace'])
        if problem:
            ck.disagree('hook event log', {'label': label}, 'use_id = UseAt;Get and lambda pop = Pop;LambdaFrame', problem)
            continue
        if r.get('segments') is None:
            ck.disagree(TABLE + ': bracket structure of the logged trace', {'label': label, 'sources': {modname: text}, 'module': modname},
                        'toplevel scope = 4 scopes, members directly inside the third and the fourth', r.get('split_error'))
            segs = None
        else:
            segs = [events[at[a]:at[b]] for a, b in r['segments']]
        tr = '[%s]' % '; '.join(g_event(e, nm, lc) for e in events)
        if segs is None:
            gs = '[]'
        else:
            gs = '[%s]' % ';\n  '.join('[%s]' % '; '.join(g_event(e, nm, lc) for e in sg) for sg in segs)
        this = nm('this')
        ud = '[%s]' % '; '.join('(%d, %d)' % (lc(u), lc(d)) for u, d in r.get('use_define', []))
        cases.append((i, '(%d, %s,\n %s,\n %s,\n %s)' % (this, gm, tr, gs, ud), len(gm) + len(tr)))
        ck.count('visitor:use_define-entries', len(r.get('use_define', [])))
        meta[i] = (label, modname, text, members, nm, lc, len(events))
        ck.count('visitor:modules:' + fam)
        ck.count('visitor:members:' + fam, len(members))
        ck.count('visitor:events', len(events))
        ck.case(('visitor', label, text), nontrivial=True)
    for k, v in sorted(stats.items()):
        ck.count('visitor:construct:' + k, v)
    # the model on the same inputs, inside coqc
    nshard = 16
    order = sorted(cases, key=lambda c: -c[2])
    shards = [order[k::nshard] for k in range(nshard)]
    cjobs, idx = [], []
    for si, sh in enumerate(shards):
        if not sh:
            continue
        body = HEADER + 'Definition cases : list vcase := [\n%s].\n' % ';\n'.join(g for _, g, _ in sh)
        body += 'Eval vm_compute in (vfails 0 cases).\n'
        cjobs.append(('c15v_%s_%d' % (tier[0], si), body))
        idx.append(sh)
    outs = coq_eval_many(cjobs)
    ck.notes.append('visitor: t(model)=%.1fs' % (time.time() - t0))
    nbad_members = nbad_modules = nbad_spec = 0
    evaluated = 0
    for (rc, out), sh in zip(outs, idx):
        res = coq_result(out) if rc == 0 else None
        if res is None:
            ck.obligation('visitor-model-evaluation', False, out[-1500:])
            continue
        evaluated += len(sh)
        # [(case, [(which, (idx, (a, b, c, d), (e, f, g, h))); ...]); ...]
        for cm in re.finditer(r'\((\d+), \[([^\[\]]*)\]\)', res):
            i = sh[int(cm.group(1))][0]
            label, modname, text, members, nm, lc, nev = meta[i]
            inv_n, inv_l = nm.inv(), lc.inv()
            fs = [tuple(int(x) for x in fm.groups()) for fm in FAIL.finditer(cm.group(2))]
            whole = [f for f in fs if f[0] == 0]
            per = [f for f in fs if 0 < f[0] < SPEC_CODE]
            if any(f[0] == SPEC_CODE for f in fs):
                nbad_spec += 1
                ck.disagree('C15v.lex_module (lexical scoping by environment passing, Rules.v) vs use_define_map of SsaAnalysisResult',
                            {'label': label, 'module': modname, 'sources': {modname: text}},
                            'use_define_map computed from the syntax by the declarative rules', 'a different map')
            if not whole and not per:
                continue
            nbad_modules += 1
            for f in per[:3]:
                m = members[f[0] - 1] if f[0] - 1 < len(members) else None
                nbad_members += 1
                ck.disagree(TABLE,
                            {'label': label, 'module': modname, 'member': m and m['name'], 'member_source': m and span_text(text, m['span'])[:1500],
                             'first_differing_event_of_the_member': f[1], 'sources': {modname: text}},
                            describe(f[2:6], inv_n, inv_l), describe(f[6:10], inv_n, inv_l))
            nbad_members += max(0, len(per) - 3)
            if whole and not per:
                f = whole[0]
                ck.disagree(TABLE + ' (outside the members: toplevel / module structure)',
                            {'label': label, 'module': modname, 'first_differing_event_of_the_module': f[1], 'sources': {modname: text}},
                            describe(f[2:6], inv_n, inv_l), describe(f[6:10], inv_n, inv_l))
    ck.count('visitor:modules-evaluated', evaluated)
    ck.count('visitor:modules-with-a-difference', nbad_modules)
    ck.count('visitor:members-with-a-difference', nbad_members)
    ck.count('visitor:modules-whose-use_define_map-differs-from-the-declarative-rules', nbad_spec)
    ck.extra_cov['visitor_fragment_coverage'] = {
        'members_of_tests_and_std': cov_all, 'in_fragment': cov_in,
        'ratio': round(cov_in / cov_all, 4) if cov_all else None,
        'note': 'every construct ssa_analysis.rs looks at is in C15v/Syntax.v; a member is outside only if its module has syntax errors'}
    ck.extra_cov['visitor_traces_equal_to_model'] = evaluated - nbad_modules
    ck.extra_cov['visitor_use_define_maps_equal_to_declarative_rules'] = evaluated - nbad_spec
    replay_refuted(ck)
    return nbad_modules + nbad_spec


def run(tier, seed, replay=None):
    ck = Check('C15', tier, seed, level='proof')
    ck.pid = 'C15v'           # own evidence / replay files: this is a part of C15 run on its own
    ck.checker_cmd = 'make -C /verif/coq theories/C15v/Props.vo (coqc 8.16.1, full .vo build) + Print Assumptions per theorem'
    ck.trusted = ['Coq 8.16.1 kernel; vm_compute to run the visitor model on dumped syntax trees and in the non-vacuity Examples',
                  'no axioms: every C15v theorem prints "Closed under the global context"',
                  'C15/Model.v (scope-stack machine), tied to the code by checks/c15.py']
    ck.rule = ('modules: corpus/C15, gen/scopes.py programs in both renderings (pool names / binders renamed apart), scoping-error '
               'variants, every module of /repo/tests and /repo/std; per module the whole trace and the trace of every member are '
               'compared with the model inside coqc. distinct = distinct module texts')
    visitor(ck, tier, seed)
    return ck.finish()


if __name__ == '__main__':
    sys.exit(run(sys.argv[1] if len(sys.argv) > 1 else 'quick', int(sys.argv[2]) if len(sys.argv) > 2 else 1))
