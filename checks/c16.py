"""C16 — text edits proposed by the language server apply cleanly and do what they say (DESIGN.md 4, C16).

A  theories/C16/Props.v   script_correct, inserts_nonempty, edits_commute, edits_any_order
B  `vh edits-run diff`    list_differ::compute (hook) vs script_of_trace on the trace reconstructed from
                          the implementation's script (Corr.v), + apply_script = new, + LCS length
C  `vh edits-run docs`    a real ServerState: quick-fix code_actions / completion additional_edits on generated
                          documents (gen/imports.py), applied by the appliers below, analysed on a fresh server
"""
import concurrent.futures
import json
import os
import re

from gen import imports as G
from gen.rng import Rng
from lib.vlib import NCPU, Check, check_props, coq_eval, coq_eval_many, coq_result, g_list, g_Z, sh
from lib.vlib import vh as _vh

PID = 'C16'
KLASS = 'C16-autoimport-no-separator'     # id of the known-finding class (if the coordinator registers it)


def vh(args, timeout=600, input=None):
    """The harness built against /repo; C16_VH=<binary> substitutes a harness built against a scratch copy
    of the repository (used to evaluate a candidate repair without touching /repo)."""
    alt = os.environ.get('C16_VH')
    if alt:
        return sh([alt] + [str(a) for a in args], timeout=timeout, input=input)
    return _vh(args, timeout=timeout, input=input)

# ----------------------------------------------------------------------------- layer B

HEADER = ('From Coq Require Import List ZArith. Import ListNotations.\n'
          'From SV Require Import C16.Model C16.Corr.\nOpen Scope Z_scope.\n')


def gen_pairs(seed, n):
    """List pairs of length <= 12 over {0,1,2,3}: independent, derived by random edits, equal, empty."""
    rng = Rng(seed ^ 0xD1FF)
    out = [([], []), ([1], []), ([], [1]), ([1], [1]), ([1], [0]), ([1, 2], [3, 0, 1]), ([1, 3, 0, 2], [1, 2, 3, 2]),
           ([1, 2], [1, 2, 3]), ([0, 1, 2, 3], [3, 2, 1, 0])]
    while len(out) < n:
        k = rng.below(10)
        old = [rng.below(4) for _ in range(rng.range(0, 12))]
        if k < 4:
            new = [rng.below(4) for _ in range(rng.range(0, 12))]
        elif k < 9:
            new = list(old)
            for _ in range(rng.range(0, 5)):
                op = rng.below(3)
                if op == 0 and new:
                    del new[rng.below(len(new))]
                elif op == 1 and len(new) < 12:
                    new.insert(rng.below(len(new) + 1), rng.below(4))
                elif new:
                    new[rng.below(len(new))] = rng.below(4)
        else:
            new = list(old)
        out.append((old, new))
    return out


def lcs_len(a, b):
    t = [[0] * (len(b) + 1) for _ in range(len(a) + 1)]
    for i in range(len(a)):
        for j in range(len(b)):
            t[i + 1][j + 1] = t[i][j] + 1 if a[i] == b[j] else max(t[i][j + 1], t[i + 1][j])
    return t[len(a)][len(b)]


def py_apply_script(script, old):
    """Independent reading of a script (by look-up): the expected new list, or None if malformed."""
    ins, act = {}, {}
    for kind, idx, items in script:
        if kind == 'insert':
            ins.setdefault(idx, []).extend(items)
        else:
            if idx in act or not (0 <= idx < len(old)) or old[idx] != items[0]:
                return None
            act[idx] = items
    if any(not (-1 <= i < len(old)) for i in ins):
        return None
    out = list(ins.get(-1, []))
    for i, a in enumerate(old):
        if i in act:
            if len(act[i]) == 2:
                out.append(act[i][1])
        else:
            out.append(a)
        out += ins.get(i, [])
    return out


def g_script(script):
    xs = []
    for kind, idx, items in script:
        if kind == 'insert':
            c = 'Insert %s false' % g_list(['%d' % x for x in items])
        elif kind == 'delete':
            c = 'Delete %d' % items[0]
        else:
            c = 'Replace %d %d' % (items[0], items[1])
        xs.append('(%s, %s)' % (g_Z(idx), c))
    return g_list(xs)


def g_case(old, new, script):
    return '(%s, %s, %s)' % (g_list(['%d' % x for x in old]), g_list(['%d' % x for x in new]), g_script(script))


def layer_b(ck, tier, seed):
    n = 10000 if tier == 'quick' else 150000
    pairs = gen_pairs(seed, n)
    inp = '\n'.join(json.dumps({'id': i, 'old': o, 'new': nw}) for i, (o, nw) in enumerate(pairs)) + '\n'
    rc, out = vh(['edits-run', 'diff'], input=inp, timeout=1200)
    res = [json.loads(l) for l in out.splitlines() if l.startswith('{')]
    if rc != 0 or len(res) != len(pairs):
        ck.obligation('harness-diff-run', False, 'rc=%s, %d results for %d pairs: %s' % (rc, len(res), len(pairs), out[-400:]))
        return
    cases = []
    for (old, new), r in zip(pairs, res):
        if 'panic' in r:
            ck.disagree('C16.script_of_trace (model) vs list_differ::compute (implementation)', {'old': old, 'new': new},
                        'a script', 'panic: ' + r['panic'], how='echo {"id":0,"old":..,"new":..} | vh edits-run diff')
            continue
        s = [(k, i, it) for k, i, it in r['script']]
        cases.append((old, new, s))
        kinds = [k for k, _, _ in s]
        ck.count('B:scripts_with_replace' if 'replace' in kinds else 'B:scripts_without_replace')
        if any(k == 'replace' for k in kinds) and any(k == 'insert' and any(k2 == 'replace' and i2 == i for k2, i2, _ in s) for k, i, _ in s):
            ck.count('B:fusion_with_remaining_insert')
        ck.count('B:len_old=%d' % len(old) if len(old) in (0, 12) else 'B:len_old_1..11')
        ck.case({'old': old, 'new': new}, nontrivial=old != new and bool(old) and bool(new))
        # independent (Python) reading of the implementation's script, and minimality of the trace
        got = py_apply_script(s, old)
        if got != new:
            ck.property_failure('the edit script of list_differ::compute does not turn old into new',
                                {'old': old, 'new': new}, new, {'script': s, 'applied': got},
                                how='echo \'{"id":0,"old":%s,"new":%s}\' | vh edits-run diff' % (old, new))
        matched = len(old) - sum(1 for k in kinds if k != 'insert')
        if matched != lcs_len(old, new):
            ck.count('B:trace_not_longest')
            ck.notes.append('longest_trace is not a longest common subsequence on old=%s new=%s (%d matched, LCS %d); '
                            'not required by C16' % (old, new, matched, lcs_len(old, new)))
        else:
            ck.count('B:trace_is_longest')
    # the model, inside coqc
    nshard = NCPU
    shards = [[] for _ in range(nshard)]
    for i, c in enumerate(cases):
        shards[i % nshard].append((i, c))
    jobs = []
    for si, sh_ in enumerate(shards):
        if sh_:
            body = HEADER + 'Definition cases : list (list Z * list Z * zscript) := %s.\n' % g_list([g_case(*c) for _, c in sh_])
            body += 'Eval vm_compute in (fails 0%nat cases).\n'
            jobs.append(('c16_b_%d' % si, body))
    outs = coq_eval_many(jobs)
    nfail, ji = 0, 0
    for si, sh_ in enumerate(shards):
        if not sh_:
            continue
        rc, out = outs[ji]
        ji += 1
        r = coq_result(out) if rc == 0 else None
        if r is None:
            ck.obligation('model-evaluation', False, out[-800:])
            continue
        for a, b in re.findall(r'\((\d+), (\d+)\)', r):
            nfail += 1
            old, new, s = sh_[int(a)][1]
            why = {1: 'the trace reconstructed from the implementation\'s script is not a valid trace',
                   2: 'script_of_trace(reconstructed trace) differs from the implementation\'s script',
                   3: 'apply_script(implementation script) old <> new',
                   4: 'a Delete/Replace records an element that is not the old element at that position'}[int(b)]
            if nfail <= 3:
                rc2, out2 = coq_eval('c16_b_explain', HEADER + 'Eval vm_compute in (explain %s).\n' % g_case(old, new, s))
                ck.disagree('C16.script_of_trace / apply_script (model) vs list_differ::compute (implementation): ' + why,
                            {'old': old, 'new': new}, coq_result(out2) if rc2 == 0 else out2[-500:], {'script': s},
                            how='echo \'{"id":0,"old":%s,"new":%s}\' | vh edits-run diff' % (old, new))
            else:
                ck.corr_fail.append({'correspondence': 'C16.script_of_trace', 'input': {'old': old, 'new': new}, 'model': None,
                                     'implementation': s, 'how': why})
    ck.extra_cov['scripts_validated_against_model'] = len(cases) - nfail
    if cases:
        ck.sample({'layer': 'B', 'old': cases[-1][0], 'new': cases[-1][1], 'script': cases[-1][2]})


# ----------------------------------------------------------------------------- appliers (independent of /repo)

class Doc:
    """Positions are (line, column) with lines split at \\n and columns counted in `unit`s
    ('byte': what samlang's lexer counts; 'utf16': what an LSP client counts by default)."""

    def __init__(self, text, unit='byte'):
        self.text, self.unit = text, unit
        self.lines = text.split('\n')
        self.starts, off = [], 0
        for ln in self.lines:
            self.starts.append(off)
            off += len(ln) + 1

    def width(self, s):
        return len(s.encode('utf-8')) if self.unit == 'byte' else len(s.encode('utf-16-le')) // 2

    def offset(self, line, col):
        """Character offset of a position, or None when it is outside the document."""
        if line < 0 or line >= len(self.lines):
            return None
        ln = self.lines[line]
        if col == self.width(ln):
            return self.starts[line] + len(ln)
        acc = 0
        for k, ch in enumerate(ln):
            if acc == col:
                return self.starts[line] + k
            acc += self.width(ch)
            if acc > col:
                return None     # inside a character
        return None


def resolve(doc, edits):
    """[(start, end, text)] in character offsets + the list of range defects."""
    out, bad = [], []
    for e in edits:
        sl, sc, el, ec = e['range']
        a, b = doc.offset(sl, sc), doc.offset(el, ec)
        if a is None or b is None:
            bad.append('range %s lies outside the document' % e['range'])
            continue
        if a > b:
            bad.append('range %s has start after end' % e['range'])
            continue
        out.append((a, b, e['text']))
    srt = sorted(out)
    for x, y in zip(srt, srt[1:]):
        if not (x[1] <= y[0] and x[0] < y[0]):      # Model.v: edit_before
            bad.append('ranges %s and %s overlap (or are two insertions at one point)' % (x[:2], y[:2]))
    return out, bad


def apply_back_to_front(text, es):
    for a, b, t in sorted(es, key=lambda e: -e[0]):
        text = text[:a] + t + text[b:]
    return text


def apply_front_to_back(text, es):
    out, pos = [], 0
    for a, b, t in sorted(es):
        out.append(text[pos:a])
        out.append(t)
        pos = b
    out.append(text[pos:])
    return ''.join(out)


# ----------------------------------------------------------------------------- layer C

def run_docs(jobs, timeout=1500):
    """vh edits-run docs on all cores; results in job order."""
    if not jobs:
        return []
    nsh = max(1, min(NCPU, len(jobs) // 20 or 1))
    chunks = [jobs[k::nsh] for k in range(nsh)]

    def one(chunk):
        inp = '\n'.join(json.dumps({'id': j['id'], 'sources': j['sources'], 'history': j.get('history', []), 'doc': j['doc']})
                        for j in chunk) + '\n'
        rc, out = vh(['edits-run', 'docs'], input=inp, timeout=timeout)
        res = [json.loads(l) for l in out.splitlines() if l.startswith('{')]
        if len(res) != len(chunk):
            raise RuntimeError('edits-run docs: %d results for %d jobs (rc=%s)\n%s' % (len(res), len(chunk), rc, out[-1500:]))
        return res
    vh(['edits-run', 'none'], input='')      # build once, before the threads start
    with concurrent.futures.ThreadPoolExecutor(max_workers=nsh) as ex:
        parts = list(ex.map(one, chunks))
    res = [None] * len(jobs)
    for k, part in enumerate(parts):
        for i, r in enumerate(part):
            res[k + i * nsh] = r
    return res


def final_sources(job):
    src = dict(job['sources'])
    for b in job.get('history', []):
        src.update(b)
    return src


TITLE = re.compile(r'^Import `([^`]+)` from `([^`]+)`$')
IMPORT_TEXT = re.compile(r'import \{ (\w+) \} from ([\w.]+);')


def proposals(job, r):
    """Distinct edit proposals of one result: quick fixes and completion items with additional edits."""
    props, seen = [], set()
    for u in r['unresolved']:
        if u['name'] != job['use_name']:
            continue
        for src in ('actions_at_start', 'actions_selected'):
            acts = u[src]
            if isinstance(acts, dict):
                props.append({'kind': 'panic', 'what': '%s: %s' % (src, acts.get('panic')), 'at': u['loc']})
                continue
            for a in acts:
                m = TITLE.match(a['title'])
                p = {'kind': 'quickfix', 'at': u['loc'], 'title': a['title'], 'cls': m.group(1) if m else None,
                     'module': m.group(2) if m else None, 'edits': a['edits'], 'main': None}
                key = json.dumps([p['kind'], p['title'], p['edits']], sort_keys=True)
                if key not in seen:
                    seen.add(key)
                    props.append(p)
        for src in ('completion_at_start', 'completion_at_end'):
            items = u[src]
            if isinstance(items, dict):
                props.append({'kind': 'panic', 'what': '%s: %s' % (src, items.get('panic')), 'at': u['loc']})
                continue
            for it in items:
                if not it['edits']:
                    # an item without additional edits claims that the class is already usable in the document; for a class
                    # that only library modules export and the document neither imports nor defines, that claim is judged too
                    lab = it['label']
                    usable = re.search(r'import\s*\{[^}]*\b%s\b[^}]*\}|\b(class|interface)\s+%s\b' % (re.escape(lab), re.escape(lab)), job['text'])
                    if usable or not exporters(lab):
                        continue
                # the client replaces the word under the cursor by insert_text and applies the additional edits
                p = {'kind': 'completion', 'at': u['loc'], 'title': it['detail'], 'cls': it['label'], 'module': None,
                     'edits': it['edits'], 'main': {'range': u['loc'], 'text': it['insert_text']}}
                key = json.dumps([p['kind'], p['cls'], p['edits'], p['main']], sort_keys=True)
                if key not in seen:
                    seen.add(key)
                    props.append(p)
    return props


def multiset(xs):
    d = {}
    for x in xs:
        d[x] = d.get(x, 0) + 1
    return d


def exporters(cls):
    return [m for m, cs in G.LIBS.items() if cls in cs] or (['my-lib.A'] if cls == 'Zed' else [])


def judge(job, before, prop, after, new_text):
    """The property on one applied proposal; returns the list of (kind, detail) failures."""
    fails = []
    b, a = before['analysis'], after['analysis']
    cls, name = prop['cls'], job['use_name']
    # no new syntax error
    sb = multiset(e['msg'] for e in b['errors'] if e['syntax'])
    sa = multiset(e['msg'] for e in a['errors'] if e['syntax'])
    new_syntax = [m for m, c in sa.items() if c > sb.get(m, 0)]
    if new_syntax or a['fresh_syntax_errors'] > b['fresh_syntax_errors']:
        fails.append(('new-syntax-errors', '%d syntax errors after the edit, e.g. %s' %
                      (sum(sa.values()), (new_syntax or ['?'])[0])))
    # imports the named class from the named module; the existing imports are untouched
    mods = [prop['module']] if prop['module'] else exporters(cls)
    imp_b = [(tuple(i['members']), i['module']) for i in b['imports']]
    imp_a = [(tuple(i['members']), i['module']) for i in a['imports']]
    if not any(cls in ms and m in mods for ms, m in imp_a):
        fails.append(('not-imported', 'no import of %s from %s in the edited document; imports: %s' % (cls, '/'.join(mods), imp_a)))
    rest = list(imp_a)
    for x in imp_b:
        if x in rest:
            rest.remove(x)
        else:
            fails.append(('imports-changed', 'existing import %s disappeared; imports now: %s' % (x, imp_a)))
            break
    else:
        it = iter(imp_a)
        if len(imp_a) != len(imp_b) + 1 or not all(x in it for x in imp_b):
            fails.append(('imports-changed', 'imports before %s, after %s' % (imp_b, imp_a)))
    # the class is no longer reported as unresolved, nothing else changes in the diagnostics
    if any(e['kind'] == 'CannotResolveClass' and e['class'] == cls for e in a['errors']):
        fails.append(('still-unresolved', 'CannotResolveClass for %s is still reported' % cls))
    ob = multiset((e['kind'], e['msg']) for e in b['errors'] if not e['syntax'] and not (e['kind'] == 'CannotResolveClass' and e['class'] == name))
    oa = multiset((e['kind'], e['msg']) for e in a['errors'] if not e['syntax']
                  and not (name != cls and e['kind'] == 'CannotResolveClass' and e['class'] == name))
    if oa != ob:
        diff = [k for k in set(oa) | set(ob) if oa.get(k, 0) != ob.get(k, 0)]
        fails.append(('other-errors-changed', 'diagnostics that differ: %s' % diff[:3]))
    # otherwise the same program
    tb, ta = b['toplevels'], a['toplevels']
    if [t['name'] for t in tb] != [t['name'] for t in ta]:
        fails.append(('ast-changed', 'toplevels before %s, after %s' % ([t['name'] for t in tb], [t['name'] for t in ta])))
    else:
        for x, y in zip(tb, ta):
            want_toks, want_pp = x['toks'], x['pp']
            if prop['main'] and name != cls:
                sl, sc, el, ec = prop['at']
                tl = x['loc']
                if (tl[0], tl[1]) <= (sl, sc) and (el, ec) <= (tl[2], tl[3]):
                    want_toks = re.sub(r'(?<![\w])%s(?![\w])' % re.escape(name), cls, want_toks, count=0)
                    want_pp = re.sub(r'(?<![\w])%s(?![\w])' % re.escape(name), cls, want_pp, count=0)
                    y = dict(y)
                    y['toks'] = re.sub(r'(?<![\w])%s(?![\w])' % re.escape(name), cls, y['toks'], count=0)
                    y['pp'] = re.sub(r'(?<![\w])%s(?![\w])' % re.escape(name), cls, y['pp'], count=0)
            if want_toks != y['toks']:
                fails.append(('ast-changed', 'tokens of toplevel %s changed' % x['name']))
                break
            if want_pp != y['pp']:
                # a comment changed owner.  Harmless when it trails the previous item on that item's line (the parser
                # hands every comment to the NEXT node); a defect when a comment that stood on its own line(s) in
                # front of the toplevel (its documentation) no longer does
                if body_pp(want_pp) != body_pp(y['pp']):
                    fails.append(('comment-changed', 'toplevel %s no longer prints the same: %r -> %r' %
                                  (x['name'], x['pp'][:80], y['pp'][:80])))
                    break
                if x['lead'] != y['lead']:
                    fails.append(('comment-reattached', 'the comments in front of toplevel %s were %s, now %s' %
                                  (x['name'], x['lead'], y['lead'])))
                    break
    return fails


def body_pp(pp):
    """A printed toplevel without the comments printed in front of it."""
    lines = pp.split('\n')
    for k, ln in enumerate(lines):
        if ln.startswith(('class ', 'private ', 'interface ')):
            return '\n'.join(lines[k:])
    return pp


def last_import_lacks_semicolon(text, analysis):
    """The class of the known suspicion: the text is inserted right at the end of the last import's range,
    which ends at the `;` when there is one."""
    if not analysis['imports']:
        return False
    d = Doc(text)
    l = analysis['imports'][-1]['loc']
    off = d.offset(l[2], l[3])
    return off is None or off == 0 or text[off - 1] != ';'


WITNESSES = [
    ('no-semicolon', 'import { Bar } from Lib.A\nclass Main {\n  function main(): int = Foo.make()\n}\n'),
    ('no-semicolon-line-comment', 'import { Bar } from Lib.A // note\nclass Main {\n  function main(): int = Foo.make()\n}\n'),
    ('no-semicolon-doc-comment', 'import { Bar } from Lib.A\n/** Main doc */\nclass Main {\n  function main(): int = Foo.make()\n}\n'),
    ('semicolon', 'import { Bar } from Lib.A;\nclass Main {\n  function main(): int = Foo.make()\n}\n'),
    ('semicolon-line-comment', 'import { Bar } from Lib.A; // note\nclass Main {\n  function main(): int = Foo.make()\n}\n'),
    ('no-imports', 'class Main {\n  function main(): int = Foo.make()\n}\n'),
    ('no-imports-header-comment', '// header\nclass Main {\n  function main(): int = Foo.make()\n}\n'),
    # an import cut short in front of the class (one syntax error before and after; the edit must not land inside the class header)
    ('truncated-import', 'import { Bar } from \nclass Main {\n  function main(): int = Foo.make()\n}\n'),
    ('truncated-import-list', 'import { Bar, \nclass Main {\n  function main(): int = Foo.make()\n}\n'),
]


KLASS_PATH = 'C16-module-path-not-importable'
KEYWORDS = {'import', 'from', 'class', 'interface', 'private', 'function', 'method', 'val', 'let', 'if', 'else', 'match', 'as', 'true',
            'false', 'this', 'unit', 'int', 'bool', 'then', 'const'}


def unimportable_path(module):
    """a module whose path cannot be written after `from`: a segment that is not an identifier, or is a keyword"""
    return any(not re.match(r'^[A-Za-z][A-Za-z0-9]*$', seg) or seg in KEYWORDS for seg in (module or '').split('.'))


def path_witness_job():
    src = G.lib_sources()
    src['my-lib.A'] = 'class Zed {\n  function make(): int = 5\n}\n'
    text = 'class Main {\n  function main(): int = Zed.make()\n}\n'
    src[G.DOC] = text
    return {'id': 'witness/module-path', 'sources': src, 'history': [], 'doc': G.DOC, 'cls': 'Zed', 'use_name': 'Zed', 'text': text,
            'layout': {'kind': 'witness', 'name': 'module-path'}, 'history_kind': 'none'}


def witness_jobs():
    out = [path_witness_job()]
    for name, text in WITNESSES:
        src = G.lib_sources()
        src[G.DOC] = text
        out.append({'id': 'witness/' + name, 'sources': src, 'history': [], 'doc': G.DOC, 'cls': 'Foo', 'use_name': 'Foo',
                    'text': text, 'layout': {'kind': 'witness', 'name': name}, 'history_kind': 'none'})
    return out


def layer_c(ck, jobs, tag):
    """Runs the monitor on `jobs`; returns the failing cases [(job, proposal, failures, new_text)]."""
    res = run_docs(jobs)
    after_jobs, plan = [], []
    for job, r in zip(jobs, res):
        ck.count('C:docs')
        ck.count('C:layout_%s' % job['layout'].get('kind'))
        ck.count('C:history_%s' % job['history_kind'])
        if 'panic' in r:
            ck.property_failure('the language server panicked: ' + r['panic'], replay_input(job), how=HOW)
            continue
        if r['text'] != job['text']:
            ck.obligation('harness-bookkeeping', False, 'server text of %s differs from the generator\'s (%s)' % (job['doc'], job['id']))
            continue
        props = proposals(job, r)
        if not any(u['name'] == job['use_name'] for u in r['unresolved']):
            ck.count('C:docs_without_unresolved_diagnostic')
            continue
        if job['use_name'] == job['cls']:
            offered = sorted({p['module'] for p in props if p['kind'] == 'quickfix' and p['cls'] == job['cls']})
            ck.count('C:quickfix_offers_every_exporter' if offered == sorted(G.CANDIDATES.get(job['cls'], ['my-lib.A'])) else 'C:quickfix_offer_incomplete')
        d = Doc(job['text'])
        for p in props:
            if p['kind'] == 'panic':
                ck.property_failure('the language server panicked: ' + p['what'], replay_input(job, p), how=HOW)
                continue
            ck.count('C:proposals_%s' % p['kind'])
            all_edits = p['edits'] + ([p['main']] if p['main'] else [])
            es, bad = resolve(d, all_edits)
            if bad:
                plan.append((job, r, p, None, [('bad-range', '; '.join(bad))]))
                continue
            new_text = apply_back_to_front(job['text'], es)
            if new_text != apply_front_to_back(job['text'], es):
                ck.obligation('appliers-agree', False, 'back-to-front and front-to-back application differ on %s' % job['id'])
            src = final_sources(job)
            src[job['doc']] = new_text
            after_jobs.append({'id': len(after_jobs), 'sources': src, 'history': [], 'doc': job['doc']})
            plan.append((job, r, p, len(after_jobs) - 1, new_text))
    after = run_docs(after_jobs)
    failing = []
    for job, r, p, k, x in plan:
        canon = {'text': job['text'], 'proposal': [p['kind'], p['cls'], p['module']], 'history': job['history_kind']}
        ck.case(canon, nontrivial=bool(r['analysis']['imports']))
        if k is None:
            fails, new_text = x, None
        else:
            new_text = x
            ar = after[k]
            if 'panic' in ar:
                fails = [('panic-after-edit', ar['panic'])]
            else:
                fails = judge(job, r, p, ar, new_text)
        nosemi = last_import_lacks_semicolon(job['text'], r['analysis'])
        ck.count('C:%s_last_import_%s' % ('fail' if fails else 'ok',
                                            'none' if not r['analysis']['imports'] else 'without_semicolon' if nosemi else 'with_semicolon'))
        for kind, _ in fails:
            ck.count('C:fail:' + kind)
        if fails:
            failing.append((job, p, fails, new_text, nosemi))
    return failing


HOW = 'echo <input as one JSON line> | /verif/harness/target/debug/vh edits-run docs   (then apply the edits of the named proposal)'


def replay_input(job, prop=None):
    d = {'id': job['id'], 'sources': job['sources'], 'history': job.get('history', []), 'doc': job['doc']}
    if prop is not None:
        d['proposal'] = {k: prop.get(k) for k in ('kind', 'title', 'cls', 'module', 'at', 'edits', 'main')}
    return d


KLASS_TRUNC = 'C16-import-list-cut-short'


def import_list_cut_short(text):
    """the document has an `import {` whose member list is not closed before the next declaration starts"""
    return re.search(r'import\s*\{[^}]*?\b(class|interface|import|private)\b', text) is not None


def module_of_title(p):
    m = re.search(r'from `([^`]*)`', p.get('title') or '')
    if m:
        return m.group(1)
    m = re.search(r' from ([^;\n]*);', ' '.join(e.get('text', '') for e in p.get('edits') or []))
    return m.group(1).strip() if m else ''


def report(ck, failing):
    """One property failure per (failure kinds, proposal kind), smallest document first."""
    groups = {}
    for job, p, fails, new_text, nosemi in failing:
        key = (tuple(sorted({k for k, _ in fails})), p['kind'], nosemi)
        if key not in groups or len(job['text']) + 50 * len(job.get('history', [])) < groups[key][5]:
            groups[key] = (job, p, fails, new_text, nosemi, len(job['text']) + 50 * len(job.get('history', [])))
    for key in sorted(groups, key=lambda k: groups[k][5]):
        job, p, fails, new_text, nosemi, _ = groups[key]
        what = 'applying the %s "%s" breaks the property: %s' % (p['kind'], p['title'], '; '.join('%s (%s)' % f for f in fails))
        ck.property_failure(what, replay_input(job, p),
                            expected='document that parses, imports %s, no CannotResolveClass for it, same toplevels' % p['cls'],
                            observed={'document_before': job['text'], 'document_after': new_text},
                            how=HOW, klass=KLASS_TRUNC if import_list_cut_short(job['text']) else KLASS if nosemi
                            else KLASS_PATH if unimportable_path(p.get('module') or module_of_title(p)) else None)


def encoding_probe(ck):
    """Positions are UTF-8 byte columns (samlang-parser lexer); samlang-cli hands them to the client unchanged as LSP
    `character`s, which a client reads as UTF-16 code units unless `positionEncoding` was negotiated (it is not).
    Recorded as a note, not as a failure of C16: samlang_services itself declares no unit."""
    text = '/* \u00e9\u00e9\u00e9 */ import { Bar } from Lib.A; class Main {\n  function main(): int = Foo.make()\n}\n'
    src = G.lib_sources()
    src[G.DOC] = text
    r = run_docs([{'id': 'enc', 'sources': src, 'history': [], 'doc': G.DOC}])[0]
    try:
        edits = r['unresolved'][0]['actions_at_start'][0]['edits']
    except (KeyError, IndexError, TypeError):
        return
    out = {}
    for unit in ('byte', 'utf16'):
        es, bad = resolve(Doc(text, unit), edits)
        out[unit] = None if bad else apply_back_to_front(text, es).split('\n')[0]
    ck.count('C:encoding_probe_utf16_%s' % ('same' if out['byte'] == out['utf16'] else 'displaced'))
    if out['byte'] != out['utf16']:
        ck.notes.append('edit ranges are UTF-8 byte columns: read as UTF-16 code units (the LSP default, which samlang-cli does '
                        'not renegotiate) the quick fix on %r gives %r instead of %r' % (text.split('\n')[0], out['utf16'], out['byte']))


def run(tier, seed, replay=None):
    ck = Check(PID, tier, seed, level='proof (partial)')
    ck.checker_cmd = 'make -C /verif/coq theories/C16/Props.vo (coqc 8.16.1, full .vo build) + Print Assumptions per theorem'
    ck.trusted = [
        'Coq 8.16.1 kernel; vm_compute for the correspondence cases and the non-vacuity Examples',
        'no axioms: every C16 theorem prints "Closed under the global context"',
        'hand-written model coq/theories/C16/Model.v of list_differ::compute (ast_differ.rs) from the trace on; tied to the '
        'code by differential execution through samlang_services::verif::list_diff, with the trace reconstructed from the '
        'implementation\'s script (Corr.v) because the hook does not expose it; `leading_separator` is not exposed either '
        'and is compared erased',
        'longest_trace (BFS) is not modelled: valid_trace is checked on every case',
        'the text-edit theorems are about (offset, offset, text) edits on a list; the (line, column) -> offset conversion, the '
        'appliers and the judge (checks/c16.py) and harness/src/edits_run.rs are trusted test glue',
        'wrapped_list_diff / Change::to_edit / compute_module_diff (locations, separators, printing of the inserted node) are '
        'not modelled: covered by the layer C monitor only',
    ]
    ck.assumptions = ['C16_script_correct: the trace is valid (checked by computation on every correspondence case)',
                      'C16_edits_commute / C16_edits_any_order: ranges pairwise disjoint and inside the document '
                      '(checked by the monitor on every proposal)']
    ck.rule = ('B: list pairs of length <= 12 over 4 values (independent / derived by <= 5 random edits / equal / empty); '
               'C: documents = import-area grid (0..3 imports x trailing ; x same-line trailer x separator x lead of the first '
               'class) + random layouts, x candidate classes Foo (2 exporters), Baz (nested module), Qux, x quick fix at the '
               'start of / selecting the name and completion at start / end, one third after an edit history; '
               'non-trivial = document with at least one existing import')
    check_props(ck, 'theories/C16/Props.v')

    if replay:
        obj = json.load(open(replay))
        inp = obj.get('input', obj)
        if 'old' in inp:
            rc, out = vh(['edits-run', 'diff'], input=json.dumps({'id': 0, 'old': inp['old'], 'new': inp['new']}) + '\n')
            print(out)
            return ck.finish()
        src = final_sources(inp)
        job = {'id': 'replay', 'sources': inp['sources'], 'history': inp.get('history', []), 'doc': inp['doc'],
               'text': src[inp['doc']], 'layout': {'kind': 'replay'}, 'history_kind': 'replay',
               'cls': (inp.get('proposal') or {}).get('cls') or 'Foo', 'use_name': None}
        r = run_docs([job])[0]
        names = [u['name'] for u in r.get('unresolved', [])]
        job['use_name'] = names[0] if names else job['cls']
        report(ck, layer_c(ck, [job], 'replay'))
        return ck.finish()

    layer_b(ck, tier, seed)

    n_layouts = 240 if tier == 'quick' else 3600
    layouts, jobs = G.generate(seed, n_layouts)
    failing = layer_c(ck, witness_jobs() + jobs, 'gen')
    report(ck, failing)
    # the two named witnesses of the suspicion of DESIGN section 7 #16, as known-finding witnesses when registered
    if any(k['id'] == KLASS for k in ck.known):
        still = any(job['id'].startswith('witness/no-semicolon') for job, *_ in failing)
        ck.known_witness(KLASS, still, 'witness documents: ' + ', '.join(n for n, _ in WITNESSES[:3]))
    encoding_probe(ck)
    if jobs:
        ck.sample({'layer': 'C', 'document': jobs[len(jobs) // 2]['text'], 'class': jobs[len(jobs) // 2]['cls']})
    ck.extra_cov['documents'] = len(jobs) + len(WITNESSES)
    ck.extra_cov['layouts'] = len(layouts)
    return ck.finish()
