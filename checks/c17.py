"""C17 — the string-interning heap (DESIGN.md section 4, C17)."""
import json
import os
import re

from lib.vlib import (Check, check_props, coq_eval_many, coq_result, g_bool, g_bytes, g_list, g_nat, g_opt, vh)

PID = 'C17'


def g_handle(h):
    if 'id' in h:
        return '(HId %s)' % g_nat(h['id'])
    return '(HInline %s)' % g_bytes(h['inline'])


def g_op(o):
    k = o['op']
    if k == 'alloc_string':
        return 'OAllocString ' + g_bytes(o['s'])
    if k == 'alloc_static':
        return 'OAllocStatic ' + g_bytes(o['s'])
    if k == 'alloc_temp':
        return 'OAllocTemp'
    if k == 'sync_temp':
        return 'OSyncTemp %s %s' % (g_nat(o['extra']), g_nat(o['k']))
    if k == 'modref':
        return 'OMkModRef ' + g_list([g_handle(h) for h in o['parts']])
    if k == 'modref_str':
        return 'OMkModRefStr ' + g_list([g_bytes(s) for s in o['parts']])
    if k == 'add_unmarked':
        return 'OAddUnmarked ' + g_nat(o['m'])
    if k == 'pop':
        return 'OPop ' + g_opt(None if o['m'] is None else g_nat(o['m']))
    if k == 'mark':
        return 'OMark ' + g_handle(o['hd'])
    if k == 'sweep':
        # the model's sweep clamps the end of the slice to the table length (below 20 000 in every generated history), so a
        # larger work unit is the same operation; huge units (usize::MAX) are passed to the model as 20 000
        return 'OSweep ' + g_nat(min(o['n'], 20000))
    raise ValueError(k)


def g_obs(o):
    if 'h' in o:
        return '(ObsH %s)' % g_handle(o['h'])
    if 'm' in o:
        return '(ObsM %s)' % g_nat(o['m'])
    if 'b' in o:
        return '(ObsB %s)' % g_bool(o['b'])
    return 'ObsU'


def g_snap(s):
    return 'mkSnap %s %s %s %s %s' % (
        g_obs(s['obs']),
        g_list([g_opt(None if r is None else g_bytes(r)) for r in s['reads']]),
        g_nat(s['slots']), g_nat(s['dead']), g_list([g_bytes(u) for u in s['unmarked']]))


def case_v(hist):
    return '(%s, %s)' % (g_list([g_op(o) for o in hist['ops']]), g_list([g_snap(s) for s in hist['snaps']]))


HEADER = ('From Coq Require Import List NArith. Import ListNotations.\n'
          'From SV Require Import C17.Model C17.Corr.\n')


def run_model(hists, tag):
    """Returns {case index: first differing step}."""
    # shards of bounded SIZE (operations, not histories): one coqc holds every snapshot of its shard in memory
    shards, cur, cur_ops = [], [], 0
    for i, h in enumerate(hists):
        cur.append((i, h))
        cur_ops += len(h['ops'])
        if cur_ops >= 2500:
            shards.append(cur)
            cur, cur_ops = [], 0
    if cur:
        shards.append(cur)
    jobs = []
    for si, sh_ in enumerate(shards):
        if not sh_:
            continue
        body = HEADER + 'Definition cases : list (list op * list snapshot) := %s.\n' % g_list([case_v(h) for _, h in sh_])
        body += 'Eval vm_compute in (fails 0%N cases).\n'
        jobs.append(('c17_%s_%d' % (tag, si), body))
    outs = coq_eval_many(jobs)
    fails = {}
    errors = []
    ji = 0
    for si, sh_ in enumerate(shards):
        if not sh_:
            continue
        rc, out = outs[ji]
        ji += 1
        res = coq_result(out) if rc == 0 else None
        if res is None:
            errors.append(out[-1500:])
            continue
        for a, b in re.findall(r'\((\d+)%N, (\d+)%N\)|\((\d+), (\d+)\)', res) and \
                [(x[0] or x[2], x[1] or x[3]) for x in re.findall(r'\((\d+)%N, (\d+)%N\)|\((\d+), (\d+)\)', res)]:
            fails[sh_[int(a)][0]] = int(b)
    return fails, errors


def model_snapshot(hist, k):
    body = HEADER + 'Eval vm_compute in (model_snap %s %s).\n' % (g_list([g_op(o) for o in hist['ops']]), '%d%%N' % k)
    from lib.vlib import coq_eval
    rc, out = coq_eval('c17_snap', body)
    return coq_result(out) if rc == 0 else out[-800:]


def run(tier, seed, replay=None):
    ck = Check(PID, tier, seed, level='proof')
    ck.checker_cmd = 'make -C /verif/coq theories/C17/Props.vo (coqc 8.16.1, full .vo build) + Print Assumptions per theorem'
    ck.trusted = [
        'Coq 8.16.1 kernel; vm_compute used to evaluate the model on harness inputs and in the non-vacuity Example',
        'no axioms: every C17 theorem prints "Closed under the global context"',
        'hand-written model coq/theories/C17/Model.v of crates/samlang-heap/src/lib.rs (Heap, PStr); tied to the code by '
        'differential execution of the whole public API along generated histories (harness/src/heap_run.rs)',
        'harness translation JSON -> Gallina terms (checks/c17.py) and the Debug formatting of PStr/ModuleReference',
        'not modelled: HashMap/HashSet internals (association lists; the HashSet iterator choice of pop is an argument), '
        'memory safety of the unsafe union/pointer code (the model is about table contents), thread-safety of TempPStrCounter',
    ]
    ck.assumptions = ['handles passed to alloc_module_reference are live when used (wf_ops) for C17_modref_parts_permanent']
    check_props(ck, 'theories/C17/Props.v')

    if replay:
        rc, out = vh(['heap-run', 'replay', replay])
        hists = [json.loads(l) for l in out.splitlines() if l.startswith('{')]
    else:
        count, maxlen = (1500, 40) if tier == 'quick' else (8000, 120)
        hists = []
        corpus = os.path.join('/verif/corpus', 'C17')
        if os.path.isdir(corpus):
            for fn in sorted(os.listdir(corpus)):
                rc, out = vh(['heap-run', 'replay', os.path.join(corpus, fn)])
                hists += [json.loads(l) for l in out.splitlines() if l.startswith('{')]
        rc, out = vh(['heap-run', 'gen', seed, count, maxlen], timeout=1200)
        if rc != 0:
            ck.obligation('harness-run', False, out[-500:])
        hists += [json.loads(l) for l in out.splitlines() if l.startswith('{')]
    ck.rule = ('histories of 3..N operations over a pool of 12 long and 8 short strings (incl. 15/16-byte boundary and '
               'multi-byte UTF-8), sweep work units from {0,1,2,3,len/2,len,len+7,10000,usize::MAX}; distinct = distinct raw op '
               'lists; non-trivial = at least one table allocation and one sweep or mark')
    for h in hists:
        kinds = [o['op'] for o in h['raw_ops']]
        for k in kinds:
            ck.count('op:' + k)
        ck.count('len<=10' if len(kinds) <= 10 else 'len<=40' if len(kinds) <= 40 else 'len>40')
        reclaimed = any(s['dead'] > 0 for s in h['snaps'])
        ck.count('histories_with_reclaim' if reclaimed else 'histories_without_reclaim')
        nontrivial = any(k.startswith('alloc') or k.startswith('modref') for k in kinds) and any(k in ('sweep', 'mark') for k in kinds)
        ck.case(h['raw_ops'], nontrivial)
        for m in h['monitor']:
            ck.property_failure(m, {'raw_ops': h['raw_ops']}, how='vh heap-run replay <file>')
        for i, s in enumerate(h['snaps']):
            if 'panic' in s['obs']:
                ck.property_failure('operation %d (%s) panicked' % (i, kinds[i]), {'raw_ops': h['raw_ops']})
    if hists:
        ck.sample({'ops': hists[0]['ops'], 'final': hists[0]['snaps'][-1] if hists[0]['snaps'] else None})
        big = max(hists, key=lambda h: len(h['ops']))
        ck.sample({'ops': big['ops'][:25], 'note': 'prefix of the longest history (%d ops)' % len(big['ops'])})
    clean = [h for h in hists if not any('panic' in s['obs'] for s in h['snaps'])]
    fails, errors = run_model(clean, 'r' if replay else 'g')
    for e in errors:
        ck.obligation('model-evaluation', False, e)
    for idx, step in sorted(fails.items())[:3]:
        h = clean[idx]
        ck.disagree('C17.trace (model) vs samlang_heap::Heap (implementation)', {'raw_ops': h['raw_ops'], 'step': step,
                    'op': h['ops'][step] if step < len(h['ops']) else None},
                    model_snapshot(h, step), h['snaps'][step] if step < len(h['snaps']) else None)
    for idx in list(fails)[3:]:
        ck.corr_fail.append({'correspondence': 'C17.trace', 'input': {'raw_ops': clean[idx]['raw_ops']}, 'model': None, 'implementation': None, 'how': ''})
    ck.extra_cov['traces_validated_against_impl'] = len(clean) - len(fails)
    return ck.finish()
