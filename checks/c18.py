"""C18 — std collections behave like finite maps, sets and sequences (DESIGN.md section 4, C18).

Layer A: Coq theorems (coq/theories/C18) about the Gallina model that `vh std-dump` (T-std)
         regenerates from /repo/std/*.sam on every run (coq/generated/Std*.v).
Layer B: the model IS the source through T-std; T-std is validated (TESTING) by evaluating the
         generated functions with vm_compute on generated operation sequences and comparing every
         observation and every intermediate state with a sorted-association-list specification
         evaluated here in Python.
Layer C: monitor_compiled() — compiled driver programs (checks/c18_driver.py) in node and headless Chrome.
"""
import filecmp
import json
import os
import re
import shutil

from lib.vlib import COQ, REPO, WORK, Check, check_props, coq_eval_many, coq_make, parse_props, vh

PID = 'C18'
GEN = os.path.join(COQ, 'generated')
EXPECTED_SKIPS = {'Int.toString'}          # members T-std is known not to translate (Str builtins)
MODULES = ['StdPrelude', 'StdInterfaces', 'StdTuples', 'StdOption', 'StdBoxed', 'StdList', 'StdResult', 'StdMap', 'StdSet']


def generate():
    """T-std: (re)write /verif/coq/generated/Std*.v from /repo/std/*.sam through `vh std-dump`.
    Idempotent: a file whose content did not change is not rewritten (so make does not rebuild needlessly).
    Returns (rc, translator output, list of files whose content changed)."""
    os.makedirs(GEN, exist_ok=True)
    tmp = os.path.join(WORK, 'c18_gen')
    shutil.rmtree(tmp, ignore_errors=True)
    os.makedirs(tmp, exist_ok=True)
    # VERIF_C18_STD: test hook, translate a copy of the std directory (used to check that a changed library
    # makes this check fail) instead of /repo/std
    alt = os.environ.get('VERIF_C18_STD')
    rc, out = vh(['std-dump', tmp, alt or os.path.join(REPO, 'std')])
    changed = []
    if rc == 0:
        for fn in sorted(os.listdir(tmp)):
            if not fn.endswith('.v'):
                continue
            src, dst = os.path.join(tmp, fn), os.path.join(GEN, fn)
            if not os.path.exists(dst) or not filecmp.cmp(src, dst, shallow=False):
                shutil.copyfile(src, dst)
                changed.append(fn)
    return rc, out, changed


# ----------------------------------------------------------------------------- PRNG (splitmix64)

class Rng:
    def __init__(self, seed):
        self.s = seed & 0xFFFFFFFFFFFFFFFF

    def next(self):
        self.s = (self.s + 0x9E3779B97F4A7C15) & 0xFFFFFFFFFFFFFFFF
        z = self.s
        z = ((z ^ (z >> 30)) * 0xBF58476D1CE4E5B9) & 0xFFFFFFFFFFFFFFFF
        z = ((z ^ (z >> 27)) * 0x94D049BB133111EB) & 0xFFFFFFFFFFFFFFFF
        return z ^ (z >> 31)

    def below(self, n):
        return self.next() % n

    def range(self, lo, hi):
        return lo + self.below(hi - lo + 1)

    def pick(self, xs):
        return xs[self.below(len(xs))]


# ----------------------------------------------------------------------------- Python specification

def sgn(x):
    return (x > 0) - (x < 0)


def pred(m, r, x):
    return x % m == r


def ob(b):
    return [1 if b else 0]


def oopt(x):
    return [0] if x is None else [1, x]


def flat(d):
    out = []
    for k in sorted(d):
        out += [k, d[k]]
    return out


def spec_map(ops, return_state=False):
    """Returns the expected flat output of Corr.mrun, or None if some op has no total specification."""
    d = {}
    out = []
    for o in ops:
        k = o[0]
        obs = []
        if k == 'MIns':
            d[o[1]] = o[2]
        elif k == 'MRem':
            d.pop(o[1], None)
        elif k == 'MGet':
            obs = oopt(d.get(o[1]))
        elif k == 'MHas':
            obs = ob(o[1] in d)
        elif k == 'MUpd':
            _, key, mode, c = o
            cur = d.get(key)
            new = None if mode == 0 else c if mode == 1 else (None if cur is None else cur + c) if mode == 2 else (c if cur is None else None)
            if new is None:
                d.pop(key, None)
            else:
                d[key] = new
        elif k == 'MUnion':
            other = dict(o[1])
            for kk, vv in other.items():
                d.setdefault(kk, vv)
        elif k == 'MCUnion':
            mode, other = o[1], dict(o[2])
            for kk, vv in other.items():
                if kk in d:
                    new = d[kk] + vv if mode == 0 else None if mode == 1 else vv
                    if new is None:
                        del d[kk]
                    else:
                        d[kk] = new
                else:
                    d[kk] = vv
        elif k == 'MMerge':
            mode, other = o[1], dict(o[2])
            nd = {}
            for kk in set(d) | set(other):
                a, b = d.get(kk), other.get(kk)
                if mode == 0:
                    new = a if a is not None else b
                elif mode == 1:
                    new = a + b if a is not None and b is not None else None
                else:
                    new = a if b is None else b if a is None else None
                if new is not None:
                    nd[kk] = new
            d = nd
        elif k == 'MSplit':
            _, key, side = o
            lo = {a: b for a, b in d.items() if a < key}
            hi = {a: b for a, b in d.items() if a > key}
            obs = oopt(d.get(key)) + [-1] + flat(lo) + [-1] + flat(hi) + [1]
            d = lo if side == 0 else hi
        elif k == 'MFilter':
            d = {a: b for a, b in d.items() if pred(o[1], o[2], a + b)}
        elif k == 'MPartition':
            _, m, r, side = o
            t = {a: b for a, b in d.items() if pred(m, r, a + b)}
            f = {a: b for a, b in d.items() if not pred(m, r, a + b)}
            obs = flat(t) + [-1] + flat(f) + [1]
            d = t if side == 0 else f
        elif k == 'MFold':
            acc = 7
            for kk in sorted(d):
                acc = (acc * 31 + kk * 5 + d[kk]) % 1000003
            obs = [acc]
        elif k == 'MIter':
            pass
        elif k == 'MForAll':
            obs = ob(all(pred(o[1], o[2], a + b) for a, b in d.items()))
        elif k == 'MExists':
            obs = ob(any(pred(o[1], o[2], a + b) for a, b in d.items()))
        elif k == 'MEntries':
            obs = flat(d)
        elif k == 'MKeys':
            obs = sorted(d)
        elif k in ('MMin', 'MMax'):
            if d:
                kk = min(d) if k == 'MMin' else max(d)
                obs = [1, kk, d[kk]]
            else:
                obs = [0]
        elif k in ('MMinKey', 'MMaxKey'):
            obs = oopt((min(d) if k == 'MMinKey' else max(d)) if d else None)
        elif k == 'MSize':
            obs = [len(d)]
        elif k == 'MIsEmpty':
            obs = ob(not d)
        elif k == 'MMap':
            d = {a: b * 2 + a + o[1] for a, b in d.items()}
        elif k == 'MCompare':
            # lexicographic on the sorted entries: keys first, then values
            a = [(x, d[x]) for x in sorted(d)]
            other = dict(o[1])
            b = [(x, other[x]) for x in sorted(other)]
            obs = [sgn((a > b) - (a < b))]
        elif k == 'MEqual':
            obs = ob(d == dict(o[1]))
        else:
            raise ValueError(k)
        out += [0, -7] + obs + [-8] + flat(d) + [-9, 1]
    return (out, d) if return_state else out


def spec_set(ops):
    s = set()
    out = []
    for o in ops:
        k = o[0]
        obs = []
        if k == 'SIns':
            s = s | {o[1]}
        elif k == 'SRem':
            s = s - {o[1]}
        elif k == 'SHas':
            obs = ob(o[1] in s)
        elif k == 'SUnion':
            s = s | set(o[1])
        elif k == 'SInter':
            s = s & set(o[1])
        elif k == 'SDiff':
            s = s - set(o[1])
        elif k == 'SSubset':
            obs = ob(s <= set(o[1]))
        elif k == 'SDisjoint':
            obs = ob(not (s & set(o[1])))
        elif k == 'SSplit':
            _, key, side = o
            lo = {a for a in s if a < key}
            hi = {a for a in s if a > key}
            obs = ob(key in s) + [-1] + sorted(lo) + [-1] + sorted(hi) + [1]
            s = lo if side == 0 else hi
        elif k == 'SFilter':
            s = {a for a in s if pred(o[1], o[2], a)}
        elif k == 'SPartition':
            _, m, r, side = o
            t = {a for a in s if pred(m, r, a)}
            f = s - t
            obs = sorted(t) + [-1] + sorted(f) + [1]
            s = t if side == 0 else f
        elif k == 'SFold':
            acc = 7
            for kk in sorted(s):
                acc = (acc * 31 + kk * 5) % 1000003
            obs = [acc]
        elif k == 'SIter':
            pass
        elif k == 'SForAll':
            obs = ob(all(pred(o[1], o[2], a) for a in s))
        elif k == 'SExists':
            obs = ob(any(pred(o[1], o[2], a) for a in s))
        elif k == 'SElements':
            obs = sorted(s)
        elif k == 'SMin':
            obs = oopt(min(s) if s else None)
        elif k == 'SMax':
            obs = oopt(max(s) if s else None)
        elif k == 'SSize':
            obs = [len(s)]
        elif k == 'SIsEmpty':
            obs = ob(not s)
        elif k == 'SFromList':
            s = set(o[1])
        elif k == 'SMapf':
            _, a, b, m = o
            s = {(a * x + b) % m for x in s}
        elif k == 'SCompare':
            a, b = sorted(s), sorted(set(o[1]))
            obs = [sgn((a > b) - (a < b))]
        elif k == 'SEqual':
            obs = ob(s == set(o[1]))
        else:
            raise ValueError(k)
        out += [0, -7] + obs + [-8] + sorted(s) + [-9, 1]
    return out


def spec_list(ops):
    l = []
    out = []
    for o in ops:
        k = o[0]
        obs = []
        if k == 'LCons':
            l = [o[1]] + l
        elif k == 'LLength':
            obs = [len(l)]
        elif k == 'LIsEmpty':
            obs = ob(not l)
        elif k == 'LFirst':
            obs = oopt(l[0] if l else None)
        elif k == 'LRest':
            if l:
                obs, l = [1], l[1:]
            else:
                obs = [0]
        elif k == 'LFilter':
            l = [x for x in l if pred(o[1], o[2], x)]
        elif k == 'LMap':
            l = [o[1] * x + o[2] for x in l]
        elif k == 'LFilterMap':
            l = [x + 1 for x in l if pred(o[1], o[2], x)]
        elif k == 'LIter':
            pass
        elif k == 'LContains':
            obs = ob(o[1] in l)
        elif k == 'LForAll':
            obs = ob(all(pred(o[1], o[2], x) for x in l))
        elif k == 'LExists':
            obs = ob(any(pred(o[1], o[2], x) for x in l))
        elif k == 'LFind':
            obs = oopt(next((x for x in l if pred(o[1], o[2], x)), None))
        elif k == 'LFindMap':
            obs = oopt(next((x * 3 for x in l if pred(o[1], o[2], x)), None))
        elif k == 'LAppend':
            l = l + list(o[1])
        elif k == 'LRevAppend':
            l = l[::-1] + list(o[1])
        elif k == 'LFold':
            acc = 7
            for x in l:
                acc = (acc * 31 + x) % 1000003
            obs = [acc]
        elif k == 'LFoldRight':
            acc = 7
            for x in reversed(l):
                acc = (acc * 31 + x) % 1000003
            obs = [acc]
        elif k == 'LBind':
            l = [y for x in l for y in [x] * o[1] + [x + 1]]
        elif k == 'LFlatten':
            l = l + list(o[1]) + l
        elif k == 'LReverse':
            l = l[::-1]
        elif k == 'LOf':
            l = [o[1]]
        else:
            raise ValueError(k)
        out += [0, -7] + obs + [-8] + l + [-9, 1]
    return out


# ----------------------------------------------------------------------------- generators

def gen_keys(rng, wide):
    if wide:
        return lambda: rng.range(-(1 << 29), (1 << 29) - 1)
    n = rng.pick([4, 8, 16, 40])
    return lambda: rng.range(0, n - 1)


def gen_kvs(rng, key, maxn):
    return [(key(), rng.range(0, 99)) for _ in range(rng.range(0, maxn))]


def gen_map_ops(rng, n, wide, excluded):
    key = gen_keys(rng, wide)
    kinds = [('MIns', 30), ('MRem', 14), ('MGet', 6), ('MHas', 4), ('MUpd', 8), ('MUnion', 4), ('MCUnion', 3), ('MMerge', 3),
             ('MSplit', 3), ('MFilter', 3), ('MPartition', 3), ('MFold', 2), ('MIter', 1), ('MForAll', 2), ('MExists', 2),
             ('MEntries', 2), ('MKeys', 2), ('MMin', 2), ('MMax', 2), ('MMinKey', 1), ('MMaxKey', 1), ('MSize', 2),
             ('MIsEmpty', 1), ('MMap', 1), ('MCompare', 2), ('MEqual', 2)]
    kinds = [(k, w) for k, w in kinds if k not in excluded]
    tot = sum(w for _, w in kinds)
    ops = []
    cur = {}
    for _ in range(n):
        x = rng.below(tot)
        for k, w in kinds:
            if x < w:
                break
            x -= w
        if k == 'MIns':
            o = (k, key(), rng.range(0, 99))
        elif k in ('MRem', 'MGet', 'MHas'):
            o = (k, rng.pick(sorted(cur)) if cur and rng.below(3) else key())
        elif k == 'MUpd':
            o = (k, rng.pick(sorted(cur)) if cur and rng.below(2) else key(), rng.below(4), rng.range(1, 50))
        elif k == 'MUnion':
            o = (k, gen_kvs(rng, key, 12))
        elif k in ('MCUnion', 'MMerge'):
            o = (k, rng.below(3), gen_kvs(rng, key, 12))
        elif k == 'MSplit':
            o = (k, key(), rng.below(2))
        elif k in ('MFilter', 'MForAll', 'MExists'):
            m = rng.range(1, 4)
            o = (k, m, rng.below(m))
        elif k == 'MPartition':
            m = rng.range(1, 4)
            o = (k, m, rng.below(m), rng.below(2))
        elif k == 'MMap':
            o = (k, rng.range(0, 5))
        elif k in ('MCompare', 'MEqual'):
            other = sorted(cur.items()) if rng.below(2) else gen_kvs(rng, key, 8)
            if other and rng.below(2):
                i = rng.below(len(other))
                other = other[:i] + [(other[i][0], other[i][1] + rng.range(0, 1))] + other[i + 1:]
            o = (k, other)
        else:
            o = (k,)
        if k in ('MCompare', 'MEqual') and rng.below(2):
            # the exact current bindings (computed by the specification), inserted in another order: equal maps with
            # different histories (their trees may differ in shape and height)
            try:
                _, st = spec_map(ops, return_state=True)
                ent = sorted(st.items())
                ent = ent[::-1] if rng.below(2) else ent[len(ent) // 2:] + ent[:len(ent) // 2]
                o = (k, ent)
            except Exception:
                pass
        ops.append(o)
        # keep a rough idea of the present keys to aim operations at them
        if k == 'MIns':
            cur[o[1]] = o[2]
        elif k == 'MRem':
            cur.pop(o[1], None)
    return ops


def gen_set_ops(rng, n, wide, excluded):
    key = gen_keys(rng, wide)
    kinds = [('SIns', 30), ('SRem', 14), ('SHas', 6), ('SUnion', 5), ('SInter', 4), ('SDiff', 4), ('SSubset', 3), ('SDisjoint', 2),
             ('SSplit', 3), ('SFilter', 3), ('SPartition', 3), ('SFold', 2), ('SIter', 1), ('SForAll', 2), ('SExists', 2),
             ('SElements', 3), ('SMin', 2), ('SMax', 2), ('SSize', 2), ('SIsEmpty', 1), ('SFromList', 2), ('SMapf', 2),
             ('SCompare', 2), ('SEqual', 2)]
    kinds = [(k, w) for k, w in kinds if k not in excluded]
    tot = sum(w for _, w in kinds)
    ops = []
    cur = set()
    for _ in range(n):
        x = rng.below(tot)
        for k, w in kinds:
            if x < w:
                break
            x -= w
        if k in ('SIns', 'SRem', 'SHas'):
            o = (k, rng.pick(sorted(cur)) if cur and k != 'SIns' and rng.below(3) else key())
        elif k in ('SUnion', 'SInter', 'SDiff', 'SSubset', 'SDisjoint', 'SFromList', 'SCompare', 'SEqual'):
            other = [key() for _ in range(rng.range(0, 12))]
            if k in ('SSubset', 'SCompare', 'SEqual', 'SInter') and rng.below(2):
                other = sorted(cur) + other[:rng.below(3)]
            o = (k, other)
        elif k == 'SSplit':
            o = (k, key(), rng.below(2))
        elif k in ('SFilter', 'SForAll', 'SExists'):
            m = rng.range(1, 4)
            o = (k, m, rng.below(m))
        elif k == 'SPartition':
            m = rng.range(1, 4)
            o = (k, m, rng.below(m), rng.below(2))
        elif k == 'SMapf':
            o = (k, rng.pick([1, 1, 2, 3, -1, 0]), rng.range(0, 9), rng.pick([5, 16, 1000]))
        else:
            o = (k,)
        ops.append(o)
        if k == 'SIns':
            cur.add(o[1])
        elif k == 'SRem':
            cur.discard(o[1])
    return ops


def gen_list_ops(rng, n, excluded):
    kinds = [('LCons', 30), ('LLength', 3), ('LIsEmpty', 1), ('LFirst', 2), ('LRest', 3), ('LFilter', 3), ('LMap', 3), ('LFilterMap', 2),
             ('LIter', 1), ('LContains', 3), ('LForAll', 2), ('LExists', 2), ('LFind', 2), ('LFindMap', 2), ('LAppend', 3),
             ('LRevAppend', 2), ('LFold', 2), ('LFoldRight', 2), ('LBind', 1), ('LFlatten', 1), ('LReverse', 3), ('LOf', 1)]
    kinds = [(k, w) for k, w in kinds if k not in excluded]
    tot = sum(w for _, w in kinds)
    ops = []
    size = 0
    for _ in range(n):
        x = rng.below(tot)
        for k, w in kinds:
            if x < w:
                break
            x -= w
        if k in ('LBind', 'LFlatten') and size > 40:
            k = 'LReverse'
        if k in ('LCons', 'LContains', 'LOf'):
            o = (k, rng.range(-20, 20))
        elif k in ('LFilter', 'LFilterMap', 'LForAll', 'LExists', 'LFind', 'LFindMap'):
            m = rng.range(1, 4)
            o = (k, m, rng.below(m))
        elif k == 'LMap':
            o = (k, rng.range(-2, 3), rng.range(-5, 5))
        elif k in ('LAppend', 'LRevAppend', 'LFlatten'):
            o = (k, [rng.range(-20, 20) for _ in range(rng.range(0, 6))])
        elif k == 'LBind':
            o = (k, rng.range(0, 2))
        else:
            o = (k,)
        ops.append(o)
        size = size + 1 if k == 'LCons' else size * 3 if k in ('LBind', 'LFlatten') else size
    return ops


# ----------------------------------------------------------------------------- Gallina printing and evaluation

def gz(n):
    return '(%d)' % n if n < 0 else '%d' % n


def gop(o):
    parts = [o[0]]
    for a in o[1:]:
        if isinstance(a, list):
            if a and isinstance(a[0], tuple):
                parts.append('[' + '; '.join('(%s, %s)' % (gz(x), gz(y)) for x, y in a) + ']')
            else:
                parts.append('[' + '; '.join(gz(x) for x in a) + ']')
        else:
            parts.append(gz(a))
    return '(' + ' '.join(parts) + ')' if len(parts) > 1 else parts[0]


HEADER = ('From Coq Require Import List ZArith. Import ListNotations.\n'
          'From SVG Require Import StdPrelude StdMap StdSet StdList.\n'
          'From SV Require Import C18.Corr.\nOpen Scope Z_scope.\n')

RUNNERS = {'map': ('mrun', 'Map_Empty', 'mop'), 'set': ('srun', 'Set_Empty', 'sop'), 'list': ('lrun', 'List_Nil', 'lop')}
SPECS = {'map': spec_map, 'set': spec_set, 'list': spec_list}


def evaluate(cases, tag):
    """cases: list of (kind, ops). Returns list of observed flat int lists (or an error string)."""
    nshard = 16
    shards = [[] for _ in range(nshard)]
    for i, c in enumerate(cases):
        shards[i % nshard].append(i)
    jobs = []
    for si, idxs in enumerate(shards):
        if not idxs:
            continue
        body = HEADER
        for i in idxs:
            kind, ops = cases[i]
            fn, init, ty = RUNNERS[kind]
            body += 'Eval vm_compute in (%d, %s pe_never %s ([%s] : list %s)).\n' % (
                i, fn, init, '; '.join(gop(o) for o in ops), ty)
        jobs.append(('c18_%s_%d' % (tag, si), body))
    outs = coq_eval_many(jobs)
    res = {}
    errors = []
    for rc, out in outs:
        if rc != 0:
            errors.append(out[-1500:])
            continue
        for m in re.finditer(r'=\s*\((\d+),\s*(\[.*?\]|nil)\s*\)\s*:\s', out, re.S):
            body = m.group(2)
            res[int(m.group(1))] = [int(x) for x in re.findall(r'-?\d+', body)]
    return res, errors


def first_divergence(exp, got):
    """index of the step (0-based) where expected and observed flat outputs diverge"""
    n = 0
    i = 0
    while i < min(len(exp), len(got)) and exp[i] == got[i]:
        if exp[i] == -9:
            n += 1
        i += 1
    return n


def ops_from_json(ops):
    out = []
    for o in ops:
        parts = [o[0]]
        for a in o[1:]:
            if isinstance(a, list):
                parts.append([tuple(x) if isinstance(x, list) else x for x in a])
            else:
                parts.append(a)
        out.append(tuple(parts))
    return out


def load_inputs(path):
    """operation sequences from a corpus file or from a replay file written by an earlier run"""
    j = json.load(open(path))
    found = []
    if 'ops' in j and 'kind' in j and j['kind'] in RUNNERS:
        found.append((j['kind'], ops_from_json(j['ops']), j.get('what', os.path.basename(path))))
    inp = j.get('input')
    if isinstance(inp, dict) and 'ops' in inp:
        found.append((inp['kind'], ops_from_json(inp['ops']), j.get('what', os.path.basename(path))))
    for d in j.get('first_disagreements', []):
        inp = d.get('input', {})
        if 'ops' in inp:
            found.append((inp['kind'], ops_from_json(inp['ops']), 'disagreement recorded in ' + os.path.basename(path)))
    return found


def run_fixed_inputs(ck, inputs, tag):
    """corpus witnesses of repaired defects / replayed inputs: any deviation from the specification is a
    failure of the property itself (they suppress nothing)"""
    if not inputs:
        return
    observed, errors = evaluate([(k, o) for k, o, _ in inputs], tag)
    for e in errors:
        ck.obligation('model-evaluation(%s)' % tag, False, e)
    for i, (kind, ops, what) in enumerate(inputs):
        ck.case([kind, ops], True)
        ck.count('corpus:' + kind)
        exp = SPECS[kind](ops)
        got = observed.get(i)
        if got is None:
            if not errors:
                ck.obligation('model-evaluation(%s)' % tag, False, 'no output for input %d' % i)
            continue
        if exp != got:
            step = first_divergence(exp, got)
            stopped = got.count(-9) < len(ops)
            status = {1: 'Panic', 2: 'OutOfFuel'}.get(got[-1], 'stopped') if stopped else 'wrong result'
            ck.property_failure('std.%s deviates from the finite-%s specification at operation %d (%s): %s'
                                % (kind, kind, step, status, what),
                                {'kind': kind, 'ops': [list(o) for o in ops]},
                                expected={'flat': exp[:300]}, observed={'flat': got[:300]},
                                how='./check C18 --replay <this file>')


def shrink(kind, ops, rounds=12):
    """greedy one-operation-at-a-time shrinking of a failing sequence; every round is one batch of coqc runs"""
    ops = list(ops)
    for _ in range(rounds):
        cands = [ops[:j] + ops[j + 1:] for j in range(len(ops) - 1)]
        if not cands:
            break
        obs, errs = evaluate([(kind, c) for c in cands], 'shrink')
        if errs:
            break
        nxt = None
        for j, c in enumerate(cands):
            if obs.get(j) is not None and obs.get(j) != SPECS[kind](c):
                nxt = c
                break
        if nxt is None:
            break
        ops = nxt
    return ops


def monitor_compiled(ck, tier, seed, cases=None, observed=None, replay=None):
    """Layer C: the same operation sequences printed as samlang programs over the real std/*.sam, compiled by the real
    compiler and run in node (TypeScript) and headless Chrome (WebAssembly); compared with the specification and with
    the translated model (checks/c18_driver.py)."""
    from checks import c18_driver
    if replay:
        return c18_driver.driver_replay(ck, replay)
    return c18_driver.driver(ck, tier, seed, cases, observed)


def excluded_ops(thms):
    """Operations whose full statement is refuted in Props.v (C18_<x>_refuted) are kept out of the random
    sequences (their witnesses are theorems); when the library is repaired and the theorem is replaced by
    the positive one, the operation is generated again automatically."""
    table = {
        'C18_map_max_refuted': ['MMax', 'MMaxKey'],
        'C18_map_exists_refuted': ['MExists'],
        'C18_map_union_refuted': ['MUnion', 'MCUnion'],
        'C18_map_merge_refuted': ['MMerge'],
        'C18_map_compare_refuted': ['MCompare'],
        'C18_set_max_refuted': ['SMax', 'SMapf'],
        'C18_set_exists_refuted': ['SExists'],
        'C18_set_remove_refuted': ['SRem'],
        'C18_set_diff_refuted': ['SDiff'],
        'C18_set_compare_refuted': ['SCompare'],
    }
    ex = set()
    for t, ops in table.items():
        if t in thms:
            ex.update(ops)
    return ex


def run(tier, seed, replay=None):
    ck = Check(PID, tier, seed, level='proof')
    ck.checker_cmd = ('vh std-dump /verif/coq/generated && make -C /verif/coq theories/C18/Props.vo '
                      '(coqc 8.16.1, full .vo build of the regenerated model and all C18 theories) + Print Assumptions per theorem')
    ck.trusted = [
        'Coq 8.16.1 kernel; vm_compute in the witness lemmas and in the translator validation',
        'T-std (harness/src/std_dump.rs): trusted to print what std/*.sam contains; it is a structural walk over the '
        'type-checked AST of the real samlang front end; validated (testing) against a Python sorted-list specification',
        'modelling assumptions of the embedding: int is Z (no 32-bit wrap for heights/sizes), `==` on non-primitive values is '
        'an uninterpreted oracle that may answer true only on equal values, the user\'s compare is a total pure function, '
        'closures are total or fail through the result monad, strings are not modelled',
        'checks/c18.py: the Python specification and the printing of operation sequences as Gallina terms',
    ]
    ck.assumptions = [
        'compare is a strict total order as computed (cmp_order: cmp a b = 0 <-> a = b, sign antisymmetry, transitivity); '
        'proved for boxed Int with the 32-bit a - b on every window of keys of width 2^31 (C18_int_compare_is_order), '
        'and shown to fail on all of int32 (C18_int_compare_overflow_not_transitive)',
        '`==` oracle soundness: phys_eq a b = true -> a = b (needed by insert/remove/update/filter/union/map, which return '
        '`this` when a recursive result is `==` to the old subtree); theorems that do not need it do not assume it',
        'closures passed to the library are total: f x = Ok (g x) for a Gallina function g',
        'every theorem carries an explicit fuel bound: height + constant for single-tree operations, 2*(h1+h2)+constant for '
        'union/intersection/difference/merge, number of bindings + height for compare/equal, 4*size+16 for Set.map, '
        'length + constant for List; trees satisfy the AVL (stored heights, balance <= 2) and search-tree invariants, '
        'which every operation is proved to preserve',
    ]

    # (i)+(ii) regenerate the model from the sources
    rc, out, changed = generate()
    ck.extra_cov['generated_files_changed_since_last_run'] = changed
    skipped = re.findall(r'^SKIPPED (\S+): (.*)$', out, re.M)
    emitted = re.findall(r'^EMITTED (\S+)$', out, re.M)
    ck.obligation('T-std translates std/*.sam', rc == 0 and len(emitted) > 0, out[-600:] if rc != 0 else '%d members emitted' % len(emitted))
    ck.extra_cov['translator_members_emitted'] = len(emitted)
    ck.extra_cov['translator_members_skipped'] = [{'member': m, 'reason': r} for m, r in skipped]
    unexpected = [m for m, _ in skipped if m not in EXPECTED_SKIPS]
    ck.obligation('T-std skips only the expected members', not unexpected,
                  'skipped: ' + ', '.join('%s (%s)' % s for s in skipped) if skipped else 'nothing skipped')

    # (iii) rebuild the generated model and every C18 theory against it
    gen_files = ['generated/%s.v' % m for m in MODULES if os.path.exists(os.path.join(GEN, m + '.v'))]
    rc, out = coq_make([f[:-2] + '.vo' for f in gen_files], force=gen_files)
    ck.obligation('generated model compiles', rc == 0, out[-800:] if rc != 0 else ', '.join(gen_files))
    proofs_ok = check_props(ck, 'theories/C18/Props.v', extra_deps=['generated'])
    thms, _, _ = parse_props(os.path.join(COQ, 'theories/C18/Props.v'))
    ck.extra_cov['refuted_statements'] = [t for t in thms if t.endswith('_refuted')]
    ck.extra_cov['partial_statements'] = [t for t in thms if t.endswith('_partial')]

    # (iv) translator validation — TESTING
    rc, out = coq_make(['theories/C18/Corr.vo'])
    if rc != 0:
        ck.obligation('evaluation harness Corr.v compiles', False, out[-800:])
        monitor_compiled(ck, tier, seed)
        return ck.finish()
    excluded = excluded_ops(thms)
    if replay:
        run_fixed_inputs(ck, load_inputs(replay), 'replay')
        ck.rule = 'replay of ' + replay
        monitor_compiled(ck, tier, seed, replay=replay)
        return ck.finish()
    corpus = os.path.join('/verif/corpus', PID)
    inputs = []
    if os.path.isdir(corpus):
        for fn in sorted(os.listdir(corpus)):
            if fn.endswith('.json'):
                inputs += load_inputs(os.path.join(corpus, fn))
    run_fixed_inputs(ck, inputs, 'corpus')
    ck.extra_cov['corpus_inputs'] = len(inputs)
    rng = Rng(seed * 1000003 + 17)
    ncase, maxlen = (360, 60) if tier == 'quick' else (24000, 120)
    cases = []
    for i in range(ncase):
        kind = ('map', 'set', 'list')[i % 3] if i % 9 != 8 else 'map'
        n = rng.range(3, maxlen)
        wide = rng.below(4) == 0
        if kind == 'map':
            ops = gen_map_ops(rng, n, wide, excluded)
        elif kind == 'set':
            ops = gen_set_ops(rng, n, wide, excluded)
        else:
            ops = gen_list_ops(rng, min(n, 40), excluded)
        cases.append((kind, ops))
    ck.rule = ('operation sequences of 3..%d operations over Map<Z,Z>, Set<Z>, List<Z>; keys from [0,n) with n in {4,8,16,40} '
               '(3 of 4 sequences) or from [-2^29,2^29) (1 of 4); after every operation the observation and the whole state '
               '(in-order bindings, stored heights consistent and balanced) are compared; distinct = distinct operation lists; '
               'non-trivial = at least 3 state-changing operations; operations with a refuted statement are excluded: %s'
               % (maxlen, ', '.join(sorted(excluded)) or 'none'))
    observed, errors = evaluate(cases, 'g')
    for e in errors:
        ck.obligation('model-evaluation', False, e)
    agree = 0
    nbad = 0
    for i, (kind, ops) in enumerate(cases):
        for o in ops:
            ck.count('op:' + o[0])
        ck.count('kind:' + kind)
        changing = sum(1 for o in ops if o[0] in ('MIns', 'MRem', 'MUpd', 'MUnion', 'MCUnion', 'MMerge', 'MFilter', 'SIns', 'SRem',
                                                  'SUnion', 'SInter', 'SDiff', 'SFilter', 'LCons', 'LAppend', 'LMap', 'LReverse'))
        ck.case([kind, ops], changing >= 3)
        exp = SPECS[kind](ops)
        got = observed.get(i)
        if got is None:
            if not errors:
                ck.obligation('model-evaluation', False, 'no output for case %d' % i)
            continue
        if exp == got:
            agree += 1
        else:
            nbad += 1
            if nbad > 3:
                continue
            step = first_divergence(exp, got)
            small = shrink(kind, ops[:step + 1])
            exp_s = SPECS[kind](small)
            got_s = evaluate([(kind, small)], 'shrunk')[0].get(0)
            inp = {'kind': kind, 'ops': [list(o) for o in small]}
            how = 'status 1 = Panic, 2 = OutOfFuel; -7 obs -8 state -9 invariant-flag per step; ./check C18 --replay <this file>'
            if proofs_ok:
                # the theorems still hold of this very model: then the Python specification / the printing of terms is at fault
                ck.disagree('generated std.%s (T-std) vs sorted-list specification' % kind, inp,
                            {'expected_flat': exp_s[:400]}, {'observed_flat': (got_s or [])[:400]}, how=how)
            else:
                # the proofs no longer check against the regenerated model AND the model deviates from the
                # specification on this input: a failing input of the property itself
                ck.property_failure('std.%s deviates from the finite-%s specification (operation %d of a generated sequence, shrunk)'
                                    % (kind, kind, step), inp, expected={'flat': exp_s[:400]},
                                    observed={'flat': (got_s or [])[:400]}, how=how)
    ck.extra_cov['sequences_agreeing_with_spec'] = agree
    ck.extra_cov['sequences_deviating_from_spec'] = nbad
    if cases:
        ck.sample({'kind': cases[0][0], 'ops': [list(o) for o in cases[0][1][:12]]})
        big = max(cases, key=lambda c: len(c[1]))
        ck.sample({'kind': big[0], 'ops': [list(o) for o in big[1][:12]], 'note': 'prefix of the longest sequence (%d ops)' % len(big[1])})
    monitor_compiled(ck, tier, seed, cases, observed)
    return ck.finish()
