"""C18 layer C — compiled-driver monitor for the std collections (library module, used by checks/c18.py).

The operation sequences that checks/c18.py evaluates on the TRANSLATED std code (Corr.mrun / srun / lrun under
vm_compute) are executed here on the REAL std/*.sam compiled by the REAL compiler:

  sequence --(this file)--> samlang module `Main` (one function per sequence, several sequences per program)
           --(vh front, samlang_compiler::compile_sources)--> Main.ts + __all__.wasm
           --(engines/run_ts.js in node | engines/run_wasm.js in headless Chrome)--> printed integers
           == checks/c18.py spec_map / spec_set / spec_list  (and thereby == the translated model)

Per operation the driver applies the same std member with the same callback as coq/theories/C18/Corr.v
(`updf mode c`, `unionf mode`, `mergef mode`, `pred2 m r`, the fold functions, ...), then prints
`0 -7 obs.. -8 state.. -9 flag`, one integer per line, exactly the flattened format of Corr.v / the specification.
The state is printed by the driver's OWN in-order traversal of the tree (pattern matching on Empty/Leaf/Node
from outside the class), and `flag` is the driver's own check "stored heights correct and balance <= 2" (the
m_avl_b / s_avl_b of Corr.v), so neither depends on the library's entries()/elements().

Keys are std.boxed.Int (compare = this.value - other.value: the `zcmp` of Corr.v under 32 bits).

Differences from Corr.v, all extensionally invisible on the sequences that are run:
  * `mod` is the floor modulus of Z / Python: H.fmod(a, m) = let r = a % m; if r < 0 { r + m } else { r }  (m > 0);
  * the fold functions and Set.map's function reduce the key before multiplying
    ((a*31 + (k mod 1000003)*5 + v) mod 1000003, (a*(k mod m) + b) mod m): equal in Z, and free of 32-bit overflow for
    keys in [-2^29, 2^29);
  * a sequence is cut before the first operation after which some integer of the expected output (observation or
    state) is outside (-2^30, 2^30) (repeated MMap / LMap growth): beyond it samlang's 32-bit int and Z differ.
    Inside the bound every `a - b` comparison, `k + v`, `a*31 + x`, `v*2 + k + c` ... of the callbacks is exact;
  * MIter / SIter / LIter: the callback PRINTS what it visits (the model's callback returns tt, the specification's
    observation is empty); the expected output is the specification's with the state spliced in as observation
    (`expected()`), so that the iteration order of the compiled `iter` is checked too.
  * the driver's own `match` on an Option<Int> tests the Some arm first: the emitted TypeScript tests a payload-free
    variant with the loose `o == 1`, and `[1] == 1` holds in JavaScript, so a None-first match takes Some(Int.init(1))
    for None (open finding C04-ts-loose-equality, a back-end defect, not a std defect; the first version of this monitor
    ran into it: Set<Int>.min() of a set whose minimum is 1 printed as None in node, correctly in Chrome).
A run-time panic of the compiled program (Process.panic "Bad tree" / "Invalid state" ...) ends the sequence with
status 1, like `Panic` in Corr.v; any other abnormal ending (stack overflow, engine fault, timeout) with status 3.

Entry points: driver(ck, tier, seed, sequences=None, model_observed=None), driver_replay(ck, replay_json),
run(tier, seed) (standalone, writes no evidence).  Scratch: <WORK>/c18drv/.
"""
import concurrent.futures
import json
import os
import shutil
import subprocess
import sys
import time

from checks import c18 as base
from lib.front import run_jobs
from lib.vlib import COQ, REPO, ROOT, WORK, Check, parse_props

ENG = os.path.join(ROOT, 'engines')
SCRATCH = os.path.join(WORK, 'c18drv')
LIM = 1 << 30                     # every integer of the expected output must be inside (-LIM, LIM)
PROFILE = 'release'               # harness profile used to compile the drivers
STD_MODULES = ['boxed', 'interfaces', 'list', 'map', 'option', 'result', 'set', 'tuples']
ITER_OPS = {'MIter', 'SIter', 'LIter'}
CAP = {'quick': 360, 'thorough': 24000}          # how many of the given sequences are compiled
WASM_EVERY = {'quick': 1, 'thorough': 1}         # every n-th sequence also runs as WebAssembly in headless Chrome

ALL_OPS = {
    'map': ['MIns', 'MRem', 'MGet', 'MHas', 'MUpd', 'MUnion', 'MCUnion', 'MMerge', 'MSplit', 'MFilter', 'MPartition', 'MFold',
            'MIter', 'MForAll', 'MExists', 'MEntries', 'MKeys', 'MMin', 'MMax', 'MMinKey', 'MMaxKey', 'MSize', 'MIsEmpty', 'MMap',
            'MCompare', 'MEqual'],
    'set': ['SIns', 'SRem', 'SHas', 'SUnion', 'SInter', 'SDiff', 'SSubset', 'SDisjoint', 'SSplit', 'SFilter', 'SPartition', 'SFold',
            'SIter', 'SForAll', 'SExists', 'SElements', 'SMin', 'SMax', 'SSize', 'SIsEmpty', 'SFromList', 'SMapf', 'SCompare', 'SEqual'],
    'list': ['LCons', 'LLength', 'LIsEmpty', 'LFirst', 'LRest', 'LFilter', 'LMap', 'LFilterMap', 'LIter', 'LContains', 'LForAll',
             'LExists', 'LFind', 'LFindMap', 'LAppend', 'LRevAppend', 'LFold', 'LFoldRight', 'LBind', 'LFlatten', 'LReverse', 'LOf'],
}

# ----------------------------------------------------------------------------- the samlang driver text

PRELUDE = '''import { Int } from std.boxed;
import { List } from std.list;
import { Map } from std.map;
import { Option } from std.option;
import { Set } from std.set;
import { Pair, Triple } from std.tuples;

class H {
  function p(n: int): unit = Process.println(Str.fromInt(n))

  function fmod(a: int, m: int): int = {
    let r = a % m;
    if r < 0 { r + m } else { r }
  }

  function pb(b: bool): unit = if b { H.p(1) } else { H.p(0) }

  function sgn(x: int): int = if x > 0 { 1 } else if x < 0 { -1 } else { 0 }

  function pred(m: int, r: int, x: int): bool = H.fmod(x, m) == r

  function a(): unit = {
    H.p(0);
    H.p(-7);
  }

  function sep(): unit = H.p(-1)

  function po(o: Option<int>): unit =
    match o {
      None -> H.p(0),
      Some(x) -> {
        H.p(1);
        H.p(x);
      },
    }

  function pok(o: Option<Int>): unit =
    match o {
      Some(x) -> {
        H.p(1);
        H.p(x.value);
      },
      None -> H.p(0),
    }

  function pokv(o: Option<Pair<Int, int>>): unit =
    match o {
      None -> H.p(0),
      Some(kv) -> {
        H.p(1);
        H.p(kv.e0.value);
        H.p(kv.e1);
      },
    }

  function pl(l: List<int>): unit =
    match l {
      Nil -> {  },
      Cons(x, rest) -> {
        H.p(x);
        H.pl(rest);
      },
    }

  function plk(l: List<Int>): unit =
    match l {
      Nil -> {  },
      Cons(x, rest) -> {
        H.p(x.value);
        H.plk(rest);
      },
    }

  function plkv(l: List<Pair<Int, int>>): unit =
    match l {
      Nil -> {  },
      Cons(kv, rest) -> {
        H.p(kv.e0.value);
        H.p(kv.e1);
        H.plkv(rest);
      },
    }

  function updf(mode: int, c: int, o: Option<int>): Option<int> =
    if mode == 0 {
      Option.None<int>()
    } else if mode == 1 {
      Option.Some(c)
    } else if mode == 2 {
      match o {
        None -> Option.None<int>(),
        Some(v) -> Option.Some(v + c),
      }
    } else {
      match o {
        None -> Option.Some(c),
        Some(_) -> Option.None<int>(),
      }
    }

  function mergef(mode: int, a: Option<int>, b: Option<int>): Option<int> =
    if mode == 0 {
      match a {
        Some(_) -> a,
        None -> b,
      }
    } else if mode == 1 {
      match a {
        None -> Option.None<int>(),
        Some(x) -> match b {
          None -> Option.None<int>(),
          Some(y) -> Option.Some(x + y),
        },
      }
    } else {
      match a {
        Some(_) -> match b {
          None -> a,
          Some(_) -> Option.None<int>(),
        },
        None -> match b {
          None -> Option.None<int>(),
          Some(_) -> b,
        },
      }
    }

  function unionf(mode: int, a: int, b: int): Option<int> =
    if mode == 0 { Option.Some(a + b) } else if mode == 1 { Option.None<int>() } else { Option.Some(b) }

  function filtermapf(m: int, r: int, x: int): Option<int> =
    if H.fmod(x, m) == r { Option.Some(x + 1) } else { Option.None<int>() }

  function findmapf(m: int, r: int, x: int): Option<int> =
    if H.fmod(x, m) == r { Option.Some(x * 3) } else { Option.None<int>() }

  function restOf(l: List<int>, r: Option<List<int>>): List<int> =
    match r {
      None -> l,
      Some(x) -> x,
    }

  function mh(t: Map<Int, int>): int =
    match t {
      Empty -> 0,
      Leaf(_, _) -> 1,
      Node(_, _, _, l, r) -> {
        let a = H.mh(l);
        let b = H.mh(r);
        if a >= b { a + 1 } else { b + 1 }
      },
    }

  function mavl(t: Map<Int, int>): bool =
    match t {
      Empty -> true,
      Leaf(_, _) -> true,
      Node(h, _, _, l, r) -> {
        let a = H.mh(l);
        let b = H.mh(r);
        let d = a - b;
        let hh = if a >= b { a + 1 } else { b + 1 };
        H.mavl(l) && H.mavl(r) && h == hh && d <= 2 && d >= -2
      },
    }

  function mb(t: Map<Int, int>): unit =
    match t {
      Empty -> {  },
      Leaf(k, v) -> {
        H.p(k.value);
        H.p(v);
      },
      Node(_, k, v, l, r) -> {
        H.mb(l);
        H.p(k.value);
        H.p(v);
        H.mb(r);
      },
    }

  function me(t: Map<Int, int>): unit = {
    H.p(-8);
    H.mb(t);
    H.p(-9);
    H.pb(H.mavl(t));
  }

  function sh(t: Set<Int>): int =
    match t {
      Empty -> 0,
      Leaf(_) -> 1,
      Node(_, _, l, r) -> {
        let a = H.sh(l);
        let b = H.sh(r);
        if a >= b { a + 1 } else { b + 1 }
      },
    }

  function savl(t: Set<Int>): bool =
    match t {
      Empty -> true,
      Leaf(_) -> true,
      Node(h, _, l, r) -> {
        let a = H.sh(l);
        let b = H.sh(r);
        let d = a - b;
        let hh = if a >= b { a + 1 } else { b + 1 };
        H.savl(l) && H.savl(r) && h == hh && d <= 2 && d >= -2
      },
    }

  function sb(t: Set<Int>): unit =
    match t {
      Empty -> {  },
      Leaf(k) -> H.p(k.value),
      Node(_, k, l, r) -> {
        H.sb(l);
        H.p(k.value);
        H.sb(r);
      },
    }

  function se(t: Set<Int>): unit = {
    H.p(-8);
    H.sb(t);
    H.p(-9);
    H.pb(H.savl(t));
  }

  function le(l: List<int>): unit = {
    H.p(-8);
    H.pl(l);
    H.p(-9);
    H.p(1);
  }
}
'''


def _k(k):
    return 'Int.init(%d)' % k


def _mkmap(kvs):
    return 'Map.empty<Int, int>()' + ''.join('.insert(Int.init(%d), %d)' % (k, v) for k, v in kvs)


def _mkset(ks):
    return 'Set.empty<Int>()' + ''.join('.insert(Int.init(%d))' % k for k in ks)


def _mklist(xs):
    s = 'List.Nil<int>()'
    for x in reversed(xs):
        s = 'List.Cons(%d, %s)' % (x, s)
    return s


def _mkklist(xs):
    s = 'List.Nil<Int>()'
    for x in reversed(xs):
        s = 'List.Cons(Int.init(%d), %s)' % (x, s)
    return s


def _lit(n):
    return '(%d)' % n if n < 0 else '%d' % n


def gen_map_step(i, t, o):
    """returns (statements computing the step, statements printing the observation, new state variable)"""
    k = o[0]
    n = 't%d' % i
    if k == 'MIns':
        return ['let %s = %s.insert(%s, %d);' % (n, t, _k(o[1]), o[2])], [], n
    if k == 'MRem':
        return ['let %s = %s.remove(%s);' % (n, t, _k(o[1]))], [], n
    if k == 'MGet':
        return ['let o%d = %s.get(%s);' % (i, t, _k(o[1]))], ['H.po(o%d);' % i], t
    if k == 'MHas':
        return ['let o%d = %s.containsKey(%s);' % (i, t, _k(o[1]))], ['H.pb(o%d);' % i], t
    if k == 'MUpd':
        return ['let %s = %s.update(%s, (o) -> H.updf(%d, %d, o));' % (n, t, _k(o[1]), o[2], o[3])], [], n
    if k == 'MUnion':
        return ['let u%d = %s;' % (i, _mkmap(o[1])), 'let %s = %s.union(u%d);' % (n, t, i)], [], n
    if k == 'MCUnion':
        return ['let u%d = %s;' % (i, _mkmap(o[2])),
                'let %s = %s.customizedUnion(u%d, (k, a, b) -> H.unionf(%d, a, b));' % (n, t, i, o[1])], [], n
    if k == 'MMerge':
        return ['let u%d = %s;' % (i, _mkmap(o[2])),
                'let %s = %s.merge(u%d, (k, a, b) -> H.mergef(%d, a, b));' % (n, t, i, o[1])], [], n
    if k == 'MSplit':
        pre = ['let (a%d, b%d, c%d) = %s.split(%s);' % (i, i, i, t, _k(o[1])),
               'let f%d = H.mavl(a%d) && H.mavl(c%d);' % (i, i, i)]
        obs = ['H.po(b%d);' % i, 'H.sep();', 'H.mb(a%d);' % i, 'H.sep();', 'H.mb(c%d);' % i, 'H.pb(f%d);' % i]
        return pre, obs, ('a%d' if o[2] == 0 else 'c%d') % i
    if k == 'MFilter':
        return ['let %s = %s.filter((k, v) -> H.pred(%d, %d, k.value + v));' % (n, t, o[1], o[2])], [], n
    if k == 'MPartition':
        pre = ['let (a%d, b%d) = %s.partition((k, v) -> H.pred(%d, %d, k.value + v));' % (i, i, t, o[1], o[2]),
               'let f%d = H.mavl(a%d) && H.mavl(b%d);' % (i, i, i)]
        obs = ['H.mb(a%d);' % i, 'H.sep();', 'H.mb(b%d);' % i, 'H.pb(f%d);' % i]
        return pre, obs, ('a%d' if o[3] == 0 else 'b%d') % i
    if k == 'MFold':
        return ['let o%d = %s.fold(7, (a, k, v) -> H.fmod(a * 31 + H.fmod(k.value, 1000003) * 5 + v, 1000003));' % (i, t)], \
               ['H.p(o%d);' % i], t
    if k == 'MIter':
        # the callback prints what it visits, after the step header
        return [], ['%s.iter((k, v) -> { H.p(k.value); H.p(v); });' % t], t
    if k == 'MForAll':
        return ['let o%d = %s.forAll((k, v) -> H.pred(%d, %d, k.value + v));' % (i, t, o[1], o[2])], ['H.pb(o%d);' % i], t
    if k == 'MExists':
        return ['let o%d = %s.exists((k, v) -> H.pred(%d, %d, k.value + v));' % (i, t, o[1], o[2])], ['H.pb(o%d);' % i], t
    if k == 'MEntries':
        return ['let o%d = %s.entries();' % (i, t)], ['H.plkv(o%d);' % i], t
    if k == 'MKeys':
        return ['let o%d = %s.keys();' % (i, t)], ['H.plk(o%d);' % i], t
    if k in ('MMin', 'MMax'):
        return ['let o%d = %s.%s();' % (i, t, 'min' if k == 'MMin' else 'max')], ['H.pokv(o%d);' % i], t
    if k in ('MMinKey', 'MMaxKey'):
        return ['let o%d = %s.%s();' % (i, t, 'minKey' if k == 'MMinKey' else 'maxKey')], ['H.pok(o%d);' % i], t
    if k == 'MSize':
        return ['let o%d = %s.size();' % (i, t)], ['H.p(o%d);' % i], t
    if k == 'MIsEmpty':
        return ['let o%d = %s.isEmpty();' % (i, t)], ['H.pb(o%d);' % i], t
    if k == 'MMap':
        return ['let %s = %s.map((k, v) -> v * 2 + k.value + %d);' % (n, t, o[1])], [], n
    if k == 'MCompare':
        return ['let u%d = %s;' % (i, _mkmap(o[1])), 'let o%d = H.sgn(%s.compare(u%d, (a, b) -> a - b));' % (i, t, i)], \
               ['H.p(o%d);' % i], t
    if k == 'MEqual':
        return ['let u%d = %s;' % (i, _mkmap(o[1])), 'let o%d = %s.equal(u%d, (a, b) -> a == b);' % (i, t, i)], \
               ['H.pb(o%d);' % i], t
    raise ValueError(k)


def gen_set_step(i, t, o):
    k = o[0]
    n = 't%d' % i
    if k == 'SIns':
        return ['let %s = %s.insert(%s);' % (n, t, _k(o[1]))], [], n
    if k == 'SRem':
        return ['let %s = %s.remove(%s);' % (n, t, _k(o[1]))], [], n
    if k == 'SHas':
        return ['let o%d = %s.contains(%s);' % (i, t, _k(o[1]))], ['H.pb(o%d);' % i], t
    if k in ('SUnion', 'SInter', 'SDiff'):
        m = {'SUnion': 'union', 'SInter': 'intersection', 'SDiff': 'diff'}[k]
        return ['let u%d = %s;' % (i, _mkset(o[1])), 'let %s = %s.%s(u%d);' % (n, t, m, i)], [], n
    if k in ('SSubset', 'SDisjoint'):
        m = {'SSubset': 'subset', 'SDisjoint': 'disjoint'}[k]
        return ['let u%d = %s;' % (i, _mkset(o[1])), 'let o%d = %s.%s(u%d);' % (i, t, m, i)], ['H.pb(o%d);' % i], t
    if k == 'SSplit':
        pre = ['let (a%d, b%d, c%d) = %s.split(%s);' % (i, i, i, t, _k(o[1])),
               'let f%d = H.savl(a%d) && H.savl(c%d);' % (i, i, i)]
        obs = ['H.pb(b%d);' % i, 'H.sep();', 'H.sb(a%d);' % i, 'H.sep();', 'H.sb(c%d);' % i, 'H.pb(f%d);' % i]
        return pre, obs, ('a%d' if o[2] == 0 else 'c%d') % i
    if k == 'SFilter':
        return ['let %s = %s.filter((k) -> H.pred(%d, %d, k.value));' % (n, t, o[1], o[2])], [], n
    if k == 'SPartition':
        pre = ['let (a%d, b%d) = %s.partition((k) -> H.pred(%d, %d, k.value));' % (i, i, t, o[1], o[2]),
               'let f%d = H.savl(a%d) && H.savl(b%d);' % (i, i, i)]
        obs = ['H.sb(a%d);' % i, 'H.sep();', 'H.sb(b%d);' % i, 'H.pb(f%d);' % i]
        return pre, obs, ('a%d' if o[3] == 0 else 'b%d') % i
    if k == 'SFold':
        return ['let o%d = %s.fold(7, (a, k) -> H.fmod(a * 31 + H.fmod(k.value, 1000003) * 5, 1000003));' % (i, t)], \
               ['H.p(o%d);' % i], t
    if k == 'SIter':
        return [], ['%s.iter((k) -> H.p(k.value));' % t], t
    if k == 'SForAll':
        return ['let o%d = %s.forAll((k) -> H.pred(%d, %d, k.value));' % (i, t, o[1], o[2])], ['H.pb(o%d);' % i], t
    if k == 'SExists':
        return ['let o%d = %s.exists((k) -> H.pred(%d, %d, k.value));' % (i, t, o[1], o[2])], ['H.pb(o%d);' % i], t
    if k == 'SElements':
        return ['let o%d = %s.elements();' % (i, t)], ['H.plk(o%d);' % i], t
    if k in ('SMin', 'SMax'):
        return ['let o%d = %s.%s();' % (i, t, 'min' if k == 'SMin' else 'max')], ['H.pok(o%d);' % i], t
    if k == 'SSize':
        return ['let o%d = %s.size();' % (i, t)], ['H.p(o%d);' % i], t
    if k == 'SIsEmpty':
        return ['let o%d = %s.isEmpty();' % (i, t)], ['H.pb(o%d);' % i], t
    if k == 'SFromList':
        return ['let %s = Set.fromList(%s);' % (n, _mkklist(o[1]))], [], n
    if k == 'SMapf':
        _, a, b, m = o
        return ['let %s = %s.map((k) -> Int.init(H.fmod(%s * H.fmod(k.value, %d) + %d, %d)));' % (n, t, _lit(a), m, b, m)], [], n
    if k == 'SCompare':
        return ['let u%d = %s;' % (i, _mkset(o[1])),
                'let o%d = H.sgn(%s.compare(u%d, (a, b) -> a.value - b.value));' % (i, t, i)], ['H.p(o%d);' % i], t
    if k == 'SEqual':
        return ['let u%d = %s;' % (i, _mkset(o[1])),
                'let o%d = %s.equal(u%d, (a, b) -> a.value == b.value);' % (i, t, i)], ['H.pb(o%d);' % i], t
    raise ValueError(k)


def gen_list_step(i, t, o):
    k = o[0]
    n = 't%d' % i
    if k == 'LCons':
        return ['let %s = %s.cons(%d);' % (n, t, o[1])], [], n
    if k == 'LLength':
        return ['let o%d = %s.length();' % (i, t)], ['H.p(o%d);' % i], t
    if k == 'LIsEmpty':
        return ['let o%d = %s.isEmpty();' % (i, t)], ['H.pb(o%d);' % i], t
    if k == 'LFirst':
        return ['let o%d = %s.first();' % (i, t)], ['H.po(o%d);' % i], t
    if k == 'LRest':
        return ['let o%d = %s.rest();' % (i, t), 'let %s = H.restOf(%s, o%d);' % (n, t, i)], ['H.pb(o%d.isSome());' % i], n
    if k == 'LFilter':
        return ['let %s = %s.filter((x) -> H.pred(%d, %d, x));' % (n, t, o[1], o[2])], [], n
    if k == 'LMap':
        return ['let %s = %s.map((x) -> %s * x + %s);' % (n, t, _lit(o[1]), _lit(o[2]))], [], n
    if k == 'LFilterMap':
        return ['let %s = %s.filterMap((x) -> H.filtermapf(%d, %d, x));' % (n, t, o[1], o[2])], [], n
    if k == 'LIter':
        return [], ['%s.iter((x) -> H.p(x));' % t], t
    if k == 'LContains':
        return ['let o%d = %s.contains(%d, (a, b) -> a == b);' % (i, t, o[1])], ['H.pb(o%d);' % i], t
    if k == 'LForAll':
        return ['let o%d = %s.forAll((x) -> H.pred(%d, %d, x));' % (i, t, o[1], o[2])], ['H.pb(o%d);' % i], t
    if k == 'LExists':
        return ['let o%d = %s.exists((x) -> H.pred(%d, %d, x));' % (i, t, o[1], o[2])], ['H.pb(o%d);' % i], t
    if k == 'LFind':
        return ['let o%d = %s.find((x) -> H.pred(%d, %d, x));' % (i, t, o[1], o[2])], ['H.po(o%d);' % i], t
    if k == 'LFindMap':
        return ['let o%d = %s.findMap((x) -> H.findmapf(%d, %d, x));' % (i, t, o[1], o[2])], ['H.po(o%d);' % i], t
    if k == 'LAppend':
        return ['let %s = %s.append(%s);' % (n, t, _mklist(o[1]))], [], n
    if k == 'LRevAppend':
        return ['let %s = %s.reverseAndAppend(%s);' % (n, t, _mklist(o[1]))], [], n
    if k == 'LFold':
        return ['let o%d = %s.fold((a, x) -> H.fmod(a * 31 + x, 1000003), 7);' % (i, t)], ['H.p(o%d);' % i], t
    if k == 'LFoldRight':
        return ['let o%d = %s.foldRight((x, a) -> H.fmod(a * 31 + x, 1000003), 7);' % (i, t)], ['H.p(o%d);' % i], t
    if k == 'LBind':
        body = 'List.of(x + 1)' + '.cons(x)' * o[1]
        return ['let %s = %s.bind((x) -> %s);' % (n, t, body)], [], n
    if k == 'LFlatten':
        return ['let %s = List.flatten(List.Cons(%s, List.Cons(%s, List.Cons(%s, List.Nil<List<int>>()))));'
                % (n, t, _mklist(o[1]), t)], [], n
    if k == 'LReverse':
        return ['let %s = %s.reverse();' % (n, t)], [], n
    if k == 'LOf':
        return ['let %s = List.of(%d);' % (n, o[1])], [], n
    raise ValueError(k)


KIND = {
    'map': ('Map.empty<Int, int>()', gen_map_step, 'H.me(%s);'),
    'set': ('Set.empty<Int>()', gen_set_step, 'H.se(%s);'),
    'list': ('List.nil<int>()', gen_list_step, 'H.le(%s);'),
}


def gen_function(name, tag, kind, ops):
    init, step, endfmt = KIND[kind]
    lines = ['  function %s(): unit = {' % name, '    Process.println("#%s");' % tag, '    let t = %s;' % init]
    t = 't'
    for i, o in enumerate(ops):
        pre, obs, t = step(i, t, o)
        for s in pre + ['H.a();'] + obs + [endfmt % t]:
            lines.append('    ' + s)
    lines.append('  }')
    return '\n'.join(lines)


def gen_program(seqs):
    """seqs: list of (tag, kind, ops) -> text of module Main"""
    funs = [gen_function('s%d' % j, tag, kind, ops) for j, (tag, kind, ops) in enumerate(seqs)]
    main = ['  function main(): unit = {'] + ['    Main.s%d();' % j for j in range(len(seqs))] + ['  }']
    return PRELUDE + '\nclass Main {\n' + '\n\n'.join(funs) + '\n\n' + '\n'.join(main) + '\n}\n'


# ----------------------------------------------------------------------------- expected output

def expected(kind, ops):
    """The specification's flat output, with the state spliced in as the observation of every *Iter step
    (the driver's iter callback prints what it visits).  Also returns the list of (position, length) splices."""
    spec = base.SPECS[kind]
    exp = spec(ops)
    splices = []
    if any(o[0] in ITER_OPS for o in ops):
        out = []
        pos = 0
        for i, o in enumerate(ops):
            if o[0] not in ITER_OPS:
                continue
            lo, hi = len(spec(ops[:i])), len(spec(ops[:i + 1]))
            step = exp[lo:hi]                   # [0, -7, -8] + state + [-9, 1]
            state = step[3:-2]
            out += exp[pos:lo + 2]
            splices.append((len(out), len(state)))
            out += state
            pos = lo + 2
        exp = out + exp[pos:]
    return exp, splices


def unsplice(obs, splices):
    """inverse of the splicing on an observed output (only meaningful up to its first divergence)"""
    out = list(obs)
    for pos, n in reversed(splices):
        if pos + n <= len(out):
            del out[pos:pos + n]
    return out


def safe_prefix(kind, ops):
    """longest prefix of ops whose expected output stays inside (-2^30, 2^30)"""
    spec = base.SPECS[kind]
    exp = spec(ops)
    if all(-LIM < x < LIM for x in exp):
        return len(ops)
    lo, hi = 0, len(ops)                 # invariant: prefix lo is safe, prefix hi is not
    while hi - lo > 1:
        mid = (lo + hi) // 2
        if all(-LIM < x < LIM for x in spec(ops[:mid])):
            lo = mid
        else:
            hi = mid
    return lo


# ----------------------------------------------------------------------------- compile + run

def std_sources():
    d = os.environ.get('VERIF_C18_STD') or os.path.join(REPO, 'std')
    return {'std.' + m: open(os.path.join(d, m + '.sam')).read() for m in STD_MODULES if os.path.exists(os.path.join(d, m + '.sam'))}


def _ts_run(path, timeout_ms):
    try:
        p = subprocess.run(['node', '--stack-size=4000', os.path.join(ENG, 'run_ts.js'), path, str(timeout_ms)],
                           stdout=subprocess.PIPE, stderr=subprocess.PIPE, timeout=timeout_ms / 1000 + 30, text=True)
        line = [l for l in p.stdout.splitlines() if l.startswith('{')]
        if line:
            return json.loads(line[-1])
        return {'lines': [], 'ending': {'kind': 'runner-error', 'detail': (p.stderr or '')[-300:]}}
    except subprocess.TimeoutExpired:
        return {'lines': [], 'ending': {'kind': 'timeout', 'detail': ''}}


def _wasm_run(jobs_file, njobs, timeout_ms):
    """engines/run_wasm.js on a job file.  The runner's per-job timeout timers keep node alive for timeout_ms after
    the last result, so the output is read as it comes and the process is ended once every job has reported."""
    out, engine_ok, t0 = {}, True, time.time()
    p = subprocess.Popen(['node', os.path.join(ENG, 'run_wasm.js'), jobs_file, str(timeout_ms)],
                         stdout=subprocess.PIPE, stderr=subprocess.DEVNULL, text=True)
    try:
        for line in p.stdout:
            if not line.startswith('{'):
                continue
            o = json.loads(line)
            if 'engine' in o:
                engine_ok = False
                break
            out[o['id']] = {'lines': o['lines'], 'ending': o['ending']}
            if len(out) >= njobs:
                break
        secs = time.time() - t0
        try:
            p.wait(timeout=4)                     # lets the runner close the browser
        except subprocess.TimeoutExpired:
            p.terminate()
            try:
                p.wait(timeout=10)
            except subprocess.TimeoutExpired:
                p.kill()
    finally:
        if p.poll() is None:
            p.kill()
    return out, engine_ok, secs


def _compile(job):
    try:
        return run_jobs([job], profile=PROFILE)[0]
    except Exception as e:                                  # noqa: BLE001
        return {'id': job['id'], 'compile': 'harness-error: %s' % str(e)[-400:], 'errors': [], 'text': '', 'front_panic': None}


def _split_output(out, tags):
    """out: engine outcome {lines, ending}; returns {tag: (ints, status)} for every sequence that STARTED;
    status None = ran to its end, else (code, text) for the sequence that was running when the program stopped"""
    res = {}
    cur = None
    for ln in out['lines']:
        if ln.startswith('#'):
            cur = ln[1:]
            res[cur] = ([], None)
        elif cur is not None:
            try:
                res[cur][0].append(int(ln))
            except ValueError:
                res[cur][0].append(LIM * 4)                 # not an integer: can never be expected
    kind = out['ending']['kind']
    if kind != 'return':
        code = 1 if kind == 'panic' else 3
        text = '%s: %s' % (kind, out['ending'].get('detail', ''))
        if cur is None:
            return {}, text
        res[cur] = (res[cur][0] + [code], (code, text))
        return res, text
    return res, None


class Runner:
    """compiles batches of sequences and runs them; a program that stops early (panic ...) is split and the
    sequences that did not start are run again"""

    def __init__(self, tag):
        self.dir = os.path.join(SCRATCH, tag)
        shutil.rmtree(self.dir, ignore_errors=True)
        os.makedirs(self.dir, exist_ok=True)
        self.std = std_sources()
        self.nprog = 0
        self.rejected = []           # (program text path, diagnostics) — a bug of this generator
        self.engine_ok = True
        self.t_compile = self.t_ts = self.t_wasm = 0.0

    def pack(self, seqs, max_lines, max_ops, max_seqs):
        """seqs: list of (tag, kind, ops, nlines)"""
        progs, cur, nl, no = [], [], 0, 0
        for s in seqs:
            if cur and (nl + s[3] > max_lines or no + len(s[2]) > max_ops or len(cur) >= max_seqs):
                progs.append(cur)
                cur, nl, no = [], 0, 0
            cur.append(s)
            nl += s[3] + 1
            no += len(s[2])
        if cur:
            progs.append(cur)
        return progs

    def run(self, progs, wasm_too, timeout_ms=60000):
        """progs: list of lists of (tag, kind, ops, nlines); wasm_too: set of program indices also run in Chrome.
        Returns {'ts': {tag: (ints, status)}, 'wasm': {...}}"""
        results = {'ts': {}, 'wasm': {}}
        pending = [(p, i in wasm_too) for i, p in enumerate(progs)]
        rounds = 0
        while pending and rounds < 6:
            rounds += 1
            jobs = []
            for p, w in pending:
                pid = self.nprog
                self.nprog += 1
                d = os.path.join(self.dir, 'p%d' % pid)
                src = dict(self.std)
                src['Main'] = gen_program([(s[0], s[1], s[2]) for s in p])
                jobs.append(({'id': pid, 'sources': src, 'entries': ['Main'], 'compile': True, 'out_dir': d, 'want_text': True}, p, w, d))
            t0 = time.time()
            with concurrent.futures.ThreadPoolExecutor(max_workers=16) as ex:
                comp = list(ex.map(lambda j: _compile(j[0]), jobs))
            self.t_compile += time.time() - t0
            ok = []
            for (job, p, w, d), r in zip(jobs, comp):
                if r['compile'] == 'ok':
                    ok.append((job, p, w, d))
                    for fn in ('__all__.wat', 'Main.wasm.js', '__samlang_loader__.js'):
                        try:
                            os.remove(os.path.join(d, fn))
                        except OSError:
                            pass
                else:
                    os.makedirs(d, exist_ok=True)
                    with open(os.path.join(d, 'Main.sam'), 'w') as f:
                        f.write(job['sources']['Main'])
                    self.rejected.append({'program': os.path.join(d, 'Main.sam'), 'compile': r['compile'],
                                          'front_panic': r.get('front_panic'), 'diagnostics': (r.get('text') or '')[:1500],
                                          'tags': [s[0] for s in p]})
            wasm_jobs = [(job['id'], p, d) for job, p, w, d in ok if w]
            t0 = time.time()
            with concurrent.futures.ThreadPoolExecutor(max_workers=16) as ex:
                wf = None
                if wasm_jobs and self.engine_ok:
                    jf = os.path.join(self.dir, 'wasm_jobs_%d.json' % rounds)
                    with open(jf, 'w') as f:
                        json.dump([{'id': pid, 'wasm': os.path.join(d, '__all__.wasm')} for pid, _, d in wasm_jobs], f)
                    wf = ex.submit(_wasm_run, jf, len(wasm_jobs), timeout_ms)
                ts_out = list(ex.map(lambda j: _ts_run(os.path.join(j[3], 'Main.ts'), timeout_ms), ok))
                self.t_ts += time.time() - t0
                wasm_out = {}
                if wf is not None:
                    wasm_out, engine_ok, secs = wf.result()
                    self.engine_ok = self.engine_ok and engine_ok
                    self.t_wasm += secs
            nxt = []
            for (job, p, w, d), out in zip(ok, ts_out):
                rest_ts = self._absorb(results['ts'], p, out)
                rest_w = []
                if w and job['id'] in wasm_out:
                    rest_w = self._absorb(results['wasm'], p, wasm_out[job['id']])
                # sequences that did not start in some engine are run again (in that engine only if possible)
                same = [s[0] for s in rest_w] == [s[0] for s in rest_ts]
                if rest_ts:
                    nxt.append((rest_ts, bool(rest_w) and same))
                if rest_w and not (rest_ts and same):
                    nxt.append((rest_w, True))
            if rounds >= 2:
                # a program stopped early twice: from now on one sequence per program, so that this loop ends
                nxt = [([s], w) for p, w in nxt for s in p]
            pending = nxt
        return results

    @staticmethod
    def _absorb(into, p, out):
        got, stop = _split_output(out, [s[0] for s in p])
        for tag, v in got.items():
            if tag not in into:
                into[tag] = v
        if stop is None:
            return []
        rest = [s for s in p if s[0] not in got and s[0] not in into]
        if not got and rest:
            # nothing started at all (invalid module, engine unavailable ...): record the ending on every sequence
            for s in rest:
                into[s[0]] = ([3], (3, stop))
            return []
        return rest


# ----------------------------------------------------------------------------- comparison, shrinking, reporting

def first_divergence(exp, got):
    """position of the first differing integer"""
    i = 0
    while i < min(len(exp), len(got)) and exp[i] == got[i]:
        i += 1
    return i


def diverging_step(kind, ops, got):
    """index of the first operation whose printed step differs from the expected one"""
    exp, _ = expected(kind, ops)
    pos = first_divergence(exp, got)
    lo, hi = 0, len(ops)                 # smallest n such that len(expected(ops[:n])) > pos
    while lo < hi:
        mid = (lo + hi) // 2
        if len(expected(kind, ops[:mid])[0]) > pos:
            hi = mid
        else:
            lo = mid + 1
    return max(0, min(lo, len(ops)) - 1)


def run_simple(tag, items, engines=('ts',), per_program=8):
    """items: list of (kind, ops) -> list of {engine: (ints, status) or None}"""
    r = Runner(tag)
    seqs = []
    for i, (kind, ops) in enumerate(items):
        exp, _ = expected(kind, ops)
        seqs.append((str(i), kind, ops, len(exp)))
    progs = r.pack(seqs, 60000, 600, per_program)
    res = r.run(progs, set(range(len(progs))) if 'wasm' in engines else set())
    return [{e: res[e].get(str(i)) for e in engines} for i in range(len(items))], r


def shrink(kind, ops, engine, rounds=40):
    """greedy shrinking by dropping single operations while the compiled code still deviates from the
    specification; every round is one batch of compiled programs (the candidates of a round run in parallel)"""
    ops = list(ops)
    for _ in range(rounds):
        cands = [ops[:j] + ops[j + 1:] for j in range(len(ops))]
        cands = [c for c in cands if c]
        if not cands:
            break
        outs, _ = run_simple('shrink', [(kind, c) for c in cands], engines=(engine,), per_program=4)
        nxt = None
        for c, o in zip(cands, outs):
            got = o[engine]
            if got is not None and got[0] != expected(kind, c)[0]:
                # keep the candidate up to its first diverging step
                nxt = c[:diverging_step(kind, c, got[0]) + 1]
                break
        if nxt is None:
            break
        ops = nxt
    return ops


HOW = ('compiled driver (checks/c18_driver.py): one integer per printed line; per operation `0 -7 obs.. -8 state.. -9 flag`; '
       'a trailing 1 = the compiled program panicked in that operation, 3 = other abnormal ending; '
       'replay: ./check C18 --replay <this file>  (or python3 -m checks.c18_driver --replay <this file>)')
BACKEND = {'ts': 'TypeScript', 'wasm': 'WebAssembly'}
UNSUPPORTED = {}          # operation kinds met in the input that the driver has no printer for -> count


def make_items(cases, prefix, group, wasm_every, model_observed=None, whats=None):
    """cases: list of (kind, ops) -> items; a sequence is cut at the 32-bit bound (see the module docstring)"""
    items = []
    for i, (kind, ops) in enumerate(cases):
        # an operation kind this driver cannot print (added to checks/c18.py later) ends the sequence; it is counted
        known = next((j for j, o in enumerate(ops) if o[0] not in ALL_OPS[kind]), len(ops))
        if known < len(ops):
            UNSUPPORTED[ops[known][0]] = UNSUPPORTED.get(ops[known][0], 0) + 1
            ops = ops[:known]
        n = safe_prefix(kind, ops)
        items.append({'tag': '%s%d' % (prefix, i), 'kind': kind, 'ops': list(ops[:n]), 'cut': n < len(ops), 'group': group,
                      'wasm': bool(wasm_every) and i % wasm_every == 0,
                      'model': None if model_observed is None else model_observed.get(i),
                      'what': whats[i] if whats else '%s sequence %d' % (group, i)})
    return items


def judge(ck, items, results, max_reports=3):
    stats = {}
    reports = 0
    for it in items:
        kind, ops, g = it['kind'], it['ops'], it['group']
        st = stats.setdefault(g, {'sequences': 0, 'ts_agree': 0, 'ts_deviate': 0, 'wasm_agree': 0, 'wasm_deviate': 0,
                                  'ts_missing': 0, 'wasm_vs_ts_differ': 0, 'cut_at_32bit_bound': 0, 'empty_after_cut': 0})
        st['sequences'] += 1
        st['cut_at_32bit_bound'] += it['cut']
        if not ops:
            st['empty_after_cut'] += 1
            continue
        exp, splices = expected(kind, ops)
        model, model_ok = None, None
        if it['model'] is not None:
            # the model ran the uncut sequence: its output on a prefix of the operations is a prefix of its output
            spec_exp = base.SPECS[kind](ops)
            model = it['model'][:len(spec_exp)] if it['cut'] else it['model']
            model_ok = model == spec_exp
            st['model_compared'] = st.get('model_compared', 0) + 1
        outs = {e: results[e].get(it['tag']) for e in ('ts', 'wasm')}
        if outs['ts'] is None:
            st['ts_missing'] += 1
        if outs['ts'] is not None and outs['wasm'] is not None and outs['ts'][0] != outs['wasm'][0]:
            st['wasm_vs_ts_differ'] += 1
        reported = False
        for e in ('ts', 'wasm'):
            if outs[e] is None:
                continue
            got, status = outs[e]
            ok = got == exp
            st[e + ('_agree' if ok else '_deviate')] += 1
            differs_from_model = False
            if model is not None:
                differs_from_model = (ok != model_ok) or (not ok and not model_ok and unsplice(got, splices) != model)
                if differs_from_model:
                    st['model_vs_compiled_differ'] = st.get('model_vs_compiled_differ', 0) + 1
            if (ok and not differs_from_model) or reported or reports >= max_reports:
                continue
            reported = True
            reports += 1
            if not ok:
                step = diverging_step(kind, ops, got)
                small = shrink(kind, ops[:step + 1], e)
                exp_s, _ = expected(kind, small)
                o_s, _ = run_simple('shrunk', [(kind, small)], engines=('ts', 'wasm'), per_program=1)
                got_s = {en: (v[0][:400] if v else None) for en, v in o_s[0].items()}
                ending = {en: (v[1][1] if v and v[1] else 'return') for en, v in o_s[0].items()}
                both = [en for en, v in o_s[0].items() if v is not None and v[0] != exp_s]
                where = ('both back ends deviate' if len(both) == 2 else
                         'only the %s back end deviates on the shrunk sequence: the cause may be that back end rather than std'
                         % BACKEND.get(both[0] if both else e))
                inp = {'kind': kind, 'ops': [list(o) for o in small], 'layer': 'compiled-driver', 'engine': e}
                ck.property_failure(
                    'the compiled std.%s (real std/*.sam through the real compiler, %s back end) deviates from the finite-%s '
                    'specification at operation %d of %s (shrunk to %d operations; %s)%s'
                    % (kind, BACKEND[e], kind, step, it['what'], len(small), where, '; ending: %s' % status[1] if status else ''),
                    inp, expected={'flat': exp_s[:400]}, observed={'flat': got_s, 'ending': ending}, how=HOW)
            if differs_from_model:
                d_ops, d_model, d_model_ok, d_got, d_ok = ops, model, model_ok, got, ok
                if not ok:
                    # try to state the disagreement on the shrunk sequence: evaluate the translated model on it
                    try:
                        m_s = base.evaluate([(kind, small)], 'drv_shrunk')[0].get(0)
                    except Exception:                        # noqa: BLE001
                        m_s = None
                    c_s = o_s[0].get(e)
                    if m_s is not None and c_s is not None and unsplice(c_s[0], expected(kind, small)[1]) != m_s:
                        d_ops, d_model, d_model_ok, d_got, d_ok = small, m_s, m_s == base.SPECS[kind](small), c_s[0], False
                inp = {'kind': kind, 'ops': [list(o) for o in d_ops], 'layer': 'compiled-driver', 'engine': e}
                ck.disagree('std-dump translator vs compiled std', inp,
                            {'model_flat (Corr.v on the translated std)': d_model[:400], 'model_agrees_with_spec': d_model_ok},
                            {'compiled_flat (%s)' % e: d_got[:400], 'compiled_agrees_with_spec': d_ok,
                             'note': 'the compiled output carries the visited elements as observation of *Iter steps'}, how=HOW)
    return stats


def run_items(ck, items, tag, budget, label):
    """compile, run, compare. budget = (max_lines, max_ops, max_seqs) per program"""
    t0 = time.time()
    r = Runner(tag)
    progs, wasm_idx = [], set()
    for w in (True, False):
        seqs = [(it['tag'], it['kind'], it['ops'], len(expected(it['kind'], it['ops'])[0])) for it in items if it['ops'] and it['wasm'] == w]
        for p in r.pack(seqs, *budget):
            if w:
                wasm_idx.add(len(progs))
            progs.append(p)
    res = r.run(progs, wasm_idx)
    t_run = time.time() - t0
    nfail = len(ck.mon_fail) + len(ck.corr_fail)
    stats = judge(ck, items, res)
    if len(ck.mon_fail) + len(ck.corr_fail) == nfail and not r.rejected and r.nprog > 64:
        shutil.rmtree(r.dir, ignore_errors=True)             # large runs: keep the programs only when something was reported
    out = {'by_group': stats, 'programs_compiled': r.nprog, 'programs_also_run_in_chrome': len(wasm_idx),
           'wasm_engine_available': r.engine_ok,
           'seconds': {'compile': round(r.t_compile, 1), 'node': round(r.t_ts, 1), 'chrome (concurrent with node)': round(r.t_wasm, 1),
                       'compile_and_run': round(t_run, 1), 'total_with_shrinking': round(time.time() - t0, 1)}}
    # a driver that the front end or the compiler refuses is a bug of this generator (or a compiler crash)
    ck.obligation('compiled drivers (%s): every generated driver program is accepted by the real compiler' % label,
                  not r.rejected, json.dumps(r.rejected[:2])[:1500] if r.rejected else '%d programs' % r.nprog)
    missing = sum(s['ts_missing'] for s in stats.values())
    ck.obligation('compiled drivers (%s): every sequence produced output in node' % label, missing == 0,
                  '%d sequences without output' % missing)
    if wasm_idx and not r.engine_ok:
        ck.notes.append('compiled drivers: headless Chrome unavailable, WebAssembly sample not run')
    return out


def generate_cases(tier, seed, excluded):
    """the sequences of checks/c18.py's run(), same PRNG discipline"""
    rng = base.Rng(seed * 1000003 + 17)
    ncase, maxlen = (360, 60) if tier == 'quick' else (24000, 120)
    cases = []
    for i in range(ncase):
        kind = ('map', 'set', 'list')[i % 3] if i % 9 != 8 else 'map'
        n = rng.range(3, maxlen)
        wide = rng.below(4) == 0
        if kind == 'map':
            ops = base.gen_map_ops(rng, n, wide, excluded)
        elif kind == 'set':
            ops = base.gen_set_ops(rng, n, wide, excluded)
        else:
            ops = base.gen_list_ops(rng, min(n, 40), excluded)
        cases.append((kind, ops))
    return cases


def corpus_inputs():
    corpus = os.path.join(ROOT, 'corpus', base.PID)
    inputs = []
    if os.path.isdir(corpus):
        for fn in sorted(os.listdir(corpus)):
            if fn.endswith('.json'):
                inputs += base.load_inputs(os.path.join(corpus, fn))
    return inputs


TRUSTED = ('layer C (testing): checks/c18_driver.py prints each operation sequence as a samlang program over the real std/*.sam '
           '(compiled by the real compiler, run by engines/run_ts.js = type eraser + node, and engines/run_wasm.js = headless '
           'Chrome); the driver\'s own tree walk prints the state; it ties the T-std translator, the compiler pipeline and the '
           'TS prolog / wasm runtime on these programs to the same Python specification')


def driver(ck, tier, seed, sequences=None, model_observed=None, corpus=True):
    """Layer C of C18. sequences: list of (kind, ops) (the `cases` of checks/c18.py; regenerated with the same PRNG
    discipline if None); model_observed: {index: flat output of Corr.mrun/srun/lrun} (optional, enables the
    translator-vs-compiled comparison); corpus: also run corpus/C18 (witnesses of repaired defects), both engines."""
    if sequences is None:
        thms, _, _ = parse_props(os.path.join(COQ, 'theories/C18/Props.v'))
        sequences = generate_cases(tier, seed, base.excluded_ops(thms))
    total = len(sequences)
    cap = CAP[tier if tier in CAP else 'thorough']
    items = []
    if corpus:
        inputs = corpus_inputs()
        items += make_items([(k, o) for k, o, _ in inputs], 'c', 'corpus', 1, None, ['corpus witness: ' + str(w) for _, _, w in inputs])
    items += make_items(sequences[:cap], 'g', 'generated', WASM_EVERY[tier if tier in WASM_EVERY else 'thorough'], model_observed)
    budget = (40000, 500, 12) if tier == 'quick' else (60000, 1200, 24)
    stats = run_items(ck, items, 'gen', budget, 'generated + corpus' if corpus else 'generated')
    covered = {}
    for it in items:
        for o in it['ops']:
            covered.setdefault(it['kind'], set()).add(o[0])
            if it['group'] == 'generated':
                ck.count('compiled-op:' + o[0])
    stats['sequences_given'] = total
    stats['sequences_compiled_cap'] = cap
    stats['op_kinds_covered'] = {k: '%d/%d' % (len(covered.get(k, ())), len(ALL_OPS[k])) for k in ALL_OPS}
    stats['op_kinds_not_run'] = {k: sorted(set(ALL_OPS[k]) - covered.get(k, set())) for k in ALL_OPS}
    stats['op_kinds_without_printer'] = dict(UNSUPPORTED)
    g = stats['by_group'].get('generated', {})
    ck.notes.append('layer C (compiled drivers): %d generated sequences on the real std compiled by the real compiler: node %d agree / %d '
                    'deviate, Chrome %d agree / %d deviate; %d cut at the 32-bit bound; operation kinds covered %s'
                    % (g.get('sequences', 0), g.get('ts_agree', 0), g.get('ts_deviate', 0), g.get('wasm_agree', 0),
                       g.get('wasm_deviate', 0), g.get('cut_at_32bit_bound', 0), stats['op_kinds_covered']))
    ck.extra_cov['compiled_drivers'] = stats
    if TRUSTED not in ck.trusted:
        ck.trusted.append(TRUSTED)
    return stats


def driver_replay(ck, replay_json):
    """runs the operation sequence(s) stored in a replay / corpus file on the compiled std, both engines"""
    inputs = base.load_inputs(replay_json)
    if not inputs:
        ck.notes.append('compiled drivers: no operation sequence in ' + replay_json)
        return None
    items = make_items([(k, o) for k, o, _ in inputs], 'r', 'replay', 1, None, ['replayed input: ' + str(w) for _, _, w in inputs])
    stats = run_items(ck, items, 'replay', (40000, 500, 1), 'replay of ' + os.path.basename(replay_json))
    ck.extra_cov['compiled_drivers_replay'] = stats
    if TRUSTED not in ck.trusted:
        ck.trusted.append(TRUSTED)
    return stats


# ----------------------------------------------------------------------------- standalone

def run(tier, seed, replay=None, with_model=False):
    """standalone test wrapper: runs the monitor, prints a summary, writes NO evidence / replay files"""
    ck = Check(base.PID, tier, seed, level='proof')
    t0 = time.time()
    if replay:
        driver_replay(ck, replay)
    else:
        thms, _, _ = parse_props(os.path.join(COQ, 'theories/C18/Props.v'))
        cases = generate_cases(tier, seed, base.excluded_ops(thms))
        model = None
        if with_model:
            model, errors = base.evaluate(cases[:CAP[tier if tier in CAP else 'thorough']], 'drv')
            for e in errors:
                ck.obligation('model-evaluation', False, e)
        driver(ck, tier, seed, cases, model)
    print(json.dumps(ck.extra_cov, indent=1, default=str))
    for n, ok, d in ck.obls:
        print('obligation %s: %s %s' % ('ok' if ok else 'FAILED', n, d[:600]))
    for mf in ck.mon_fail:
        print('PROPERTY FAILURE:', json.dumps(mf, default=str)[:3000])
    for cf in ck.corr_fail:
        print('DISAGREEMENT:', json.dumps(cf, default=str)[:3000])
    for nt in ck.notes:
        print('note:', nt)
    print('c18_driver: tier=%s seed=%d wall=%.1fs property_failures=%d disagreements=%d'
          % (tier, seed, time.time() - t0, len(ck.mon_fail), len(ck.corr_fail)))
    bad = ck.mon_fail or ck.corr_fail or any(not ok for _, ok, _ in ck.obls)
    return 1 if bad else 0


if __name__ == '__main__':
    import argparse
    ap = argparse.ArgumentParser()
    ap.add_argument('tier', nargs='?', default='quick')
    ap.add_argument('seed', nargs='?', type=int, default=1)
    ap.add_argument('--replay')
    ap.add_argument('--model', action='store_true', help='also evaluate the translated model (Corr.vo must be built)')
    a = ap.parse_args()
    sys.exit(run(a.tier, a.seed, a.replay, a.model))
