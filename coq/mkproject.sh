#!/bin/bash
# Regenerates _CoqProject from the files present (theories/ hand-written, generated/ written by translators)
# and the Makefile when the file list changed.
cd /verif/coq
mkdir -p generated
{
  echo "-Q theories SV"
  echo "-Q generated SVG"
  find theories generated -name '*.v' | LC_ALL=C sort
} > _CoqProject.new
if ! cmp -s _CoqProject.new _CoqProject 2>/dev/null || [ ! -f Makefile ]; then
  mv _CoqProject.new _CoqProject
  coq_makefile -f _CoqProject -o Makefile > /dev/null
else
  rm -f _CoqProject.new
fi
