(* C01 — boolean check, evaluated by vm_compute on what the harness dumps for programs the real
   compiler compiled (the specialised type definitions and the final layout of every enum), that
   implies the hypothesis [wf_layouts] of the theorems.  Definitions only.

   Both dumps are association lists; LOOKUPS TAKE THE FIRST ENTRY for an id.  In addition the
   check demands that no id occurs twice in either list (a repeated id is a defect of the dump),
   and it examines every enum entry of the environment. *)
From Coq Require Import List Arith Bool ZArith.
From SV Require Import C01.Model C01.Typing.
Import ListNotations.

Definition env := list (nat * tdef).
Definition layouts := list (nat * list vrepr).

Fixpoint lookup {A : Type} (l : list (nat * A)) (n : nat) : option A :=
  match l with
  | [] => None
  | (m, x) :: l' => if Nat.eqb m n then Some x else lookup l' n
  end.

Definition defs_of (E : env) (n : nat) : option tdef := lookup E n.
Definition L_of (Ls : layouts) (n : nat) : list vrepr :=
  match lookup Ls n with Some l => l | None => [] end.

Definition ty_eqb (a b : ty) : bool :=
  match a, b with
  | TInt, TInt => true
  | TStr, TStr => true
  | TId n, TId m => Nat.eqb n m
  | _, _ => false
  end.
Fixpoint tys_eqb (a b : list ty) : bool :=
  match a, b with
  | [], [] => true
  | x :: a', y :: b' => ty_eqb x y && tys_eqb a' b'
  | _, _ => false
  end.

Fixpoint nodup_ids (l : list nat) : bool :=
  match l with
  | [] => true
  | x :: l' => negb (existsb (Nat.eqb x) l') && nodup_ids l'
  end.

(* values of type t are always references to heap objects of (a subtype of) type t *)
Definition pointer_type (E : env) (Ls : layouts) (t : nat) : bool :=
  match defs_of E t with
  | Some (DStruct _) => true
  | Some (DEnum _) => forallb is_boxed (L_of Ls t)
  | None => false
  end.

(* one variant of enum e (source fields tys, dumped representation r) *)
Definition variant_ok (E : env) (Ls : layouts) (e : nat) (vs : list (list ty))
           (p : list ty * vrepr) : bool :=
  let (tys, r) := p in
  match r with
  | RInt31 => negb (is_data tys)
  | RBoxed x => is_data tys && tys_eqb x tys
  | RUnboxed t =>
      match tys with
      | [TId t'] =>
          Nat.eqb t' t && Nat.eqb (data_variants vs) 1 && negb (Nat.eqb t e) && pointer_type E Ls t
      | _ => false
      end
  end.

Definition enum_ok (E : env) (Ls : layouts) (e : nat) (vs : list (list ty)) : bool :=
  Nat.eqb (length (L_of Ls e)) (length vs) &&
  forallb (variant_ok E Ls e vs) (combine vs (L_of Ls e)).

Definition entry_ok (E : env) (Ls : layouts) (p : nat * tdef) : bool :=
  let (e, d) := p in
  match d with
  | DStruct _ => true
  | DEnum vs => enum_ok E Ls e vs
  end.

Definition wf_layoutsb (E : env) (Ls : layouts) : bool :=
  nodup_ids (map fst E) && nodup_ids (map fst Ls) && forallb (entry_ok E Ls) E.

(* entry point for the harness *)
Definition check_dump (E : env) (Ls : layouts) : bool := wf_layoutsb E Ls.

(* the snapshot exhibited for enum e by the soundness proof: e itself is unfinished; if e has an
   unboxed variant every other type is known with its true final state, otherwise nothing
   needs to have been known *)
Definition has_unboxed (ls : list vrepr) : bool :=
  existsb (fun r => match r with RUnboxed _ => true | _ => false end) ls.
Definition truth_of (E : env) (Ls : layouts) (n : nat) : option known :=
  match defs_of E n with
  | Some (DStruct _) => Some KStruct
  | Some (DEnum _) => Some (KEnum (L_of Ls n))
  | None => None
  end.
Definition fin_for (E : env) (Ls : layouts) (e n : nat) : option known :=
  if Nat.eqb n e then None
  else if has_unboxed (L_of Ls e) then truth_of E Ls n else None.
