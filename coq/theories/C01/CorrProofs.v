(* C01 — soundness of the boolean dump check of Corr.v. *)
From Coq Require Import List Arith Bool ZArith Lia.
From SV Require Import C01.Model C01.Typing C01.Proofs C01.Corr.
Import ListNotations.

Lemma ty_eqb_eq : forall a b, ty_eqb a b = true -> a = b.
Proof.
  intros a b H. destruct a, b; simpl in H; try discriminate H; try reflexivity.
  apply Nat.eqb_eq in H. subst. reflexivity.
Qed.

Lemma tys_eqb_eq : forall a b, tys_eqb a b = true -> a = b.
Proof.
  intros a; induction a as [|x a IH]; intros b H; destruct b as [|y b]; simpl in H;
    try discriminate H; try reflexivity.
  apply andb_prop in H. destruct H as [Hx Ha].
  apply ty_eqb_eq in Hx. apply IH in Ha. subst. reflexivity.
Qed.

Lemma lookup_In : forall (A : Type) (l : list (nat * A)) n x, lookup l n = Some x -> In (n, x) l.
Proof.
  intros A l; induction l as [|[m y] l IH]; intros n x H; simpl in H.
  - discriminate H.
  - destruct (Nat.eqb m n) eqn:E.
    + apply Nat.eqb_eq in E. injection H as <-. subst. left. reflexivity.
    + right. apply IH. exact H.
Qed.

Lemma forallb_combine_pos : forall (A B : Type) (g : A * B -> bool) (l1 : list A) (l2 : list B),
  forallb g (combine l1 l2) = true ->
  forall k a b, nth_error l1 k = Some a -> nth_error l2 k = Some b -> g (a, b) = true.
Proof.
  intros A B g l1; induction l1 as [|x l1 IH]; intros l2 H k a b Ha Hb.
  - destruct k; discriminate Ha.
  - destruct l2 as [|y l2].
    + destruct k; discriminate Hb.
    + simpl in H. apply andb_prop in H. destruct H as [Hxy Hrest].
      destruct k as [|k]; simpl in Ha, Hb.
      * injection Ha as <-. injection Hb as <-. exact Hxy.
      * eapply IH; eauto.
Qed.

Lemma eq_map_pos : forall (A B : Type) (f : A -> B) (l1 : list A) (l2 : list B),
  length l2 = length l1 ->
  (forall k a b, nth_error l1 k = Some a -> nth_error l2 k = Some b -> b = f a) ->
  l2 = map f l1.
Proof.
  intros A B f l1; induction l1 as [|x l1 IH]; intros l2 Hlen Hpos.
  - destruct l2; [reflexivity|discriminate Hlen].
  - destruct l2 as [|y l2]; [discriminate Hlen|].
    simpl. f_equal.
    + apply (Hpos 0); reflexivity.
    + apply IH.
      * simpl in Hlen. lia.
      * intros k a b Ha Hb. apply (Hpos (S k)); assumption.
Qed.

Lemma variant_spec_no_permit : forall pm dv tys,
  (forall t, pm t = false) -> is_data tys = true -> variant_spec pm dv tys = RBoxed tys.
Proof.
  intros pm dv tys Hpm Hd. unfold variant_spec.
  destruct tys as [|t0 tl]; [discriminate Hd|].
  destruct t0 as [| |n]; try reflexivity.
  destruct tl; try reflexivity.
  rewrite Hpm. rewrite andb_false_r. reflexivity.
Qed.

Lemma fin_for_truthful : forall E Ls e, fin_truthful (defs_of E) (L_of Ls) (fin_for E Ls e).
Proof.
  intros E Ls e n. unfold fin_for, truth_of.
  destruct (Nat.eqb n e).
  { split; [discriminate|]. intros ls H. discriminate H. }
  destruct (has_unboxed (L_of Ls e)).
  2:{ split; [discriminate|]. intros ls H. discriminate H. }
  destruct (defs_of E n) as [[tys|vs']|] eqn:Hd.
  - split; [eauto|]. intros ls H. discriminate H.
  - split; [discriminate|]. intros ls H. injection H as <-. eauto.
  - split; [discriminate|]. intros ls H. discriminate H.
Qed.

Lemma enum_ok_layout : forall E Ls e vs,
  enum_ok E Ls e vs = true -> L_of Ls e = layout_spec (fin_for E Ls e) vs.
Proof.
  intros E Ls e vs Hok. unfold enum_ok in Hok.
  apply andb_prop in Hok. destruct Hok as [Hlen Hall]. apply Nat.eqb_eq in Hlen.
  pose proof (forallb_combine_pos _ _ _ _ _ Hall) as Hpos. clear Hall.
  unfold layout_spec, layout_spec_with.
  apply eq_map_pos; [exact Hlen|].
  intros k tys r Hk Hr.
  pose proof (Hpos k tys r Hk Hr) as Hv. simpl in Hv.
  destruct (has_unboxed (L_of Ls e)) eqn:Hu.
  - (* e has an unboxed variant: it is the only data variant, snapshot = truth *)
    unfold has_unboxed in Hu. apply existsb_exists in Hu. destruct Hu as (r0 & Hin0 & Hr0).
    destruct r0 as [|t0|x0]; try discriminate Hr0.
    apply In_nth_error in Hin0. destruct Hin0 as [k0 Hk0].
    destruct (nth_error vs k0) as [tys0|] eqn:Hvk0.
    2:{ apply nth_error_None in Hvk0.
        assert (k0 < length (L_of Ls e)) by (apply nth_error_Some; rewrite Hk0; discriminate). lia. }
    pose proof (Hpos k0 tys0 _ Hvk0 Hk0) as Hv0. simpl in Hv0.
    destruct tys0 as [|[| |t0'] [|? ?]]; try discriminate Hv0.
    apply andb_prop in Hv0. destruct Hv0 as [Hv0 _].
    apply andb_prop in Hv0. destruct Hv0 as [Hv0 _].
    apply andb_prop in Hv0. destruct Hv0 as [_ Hdv]. apply Nat.eqb_eq in Hdv.
    destruct r as [|t|x].
    + destruct tys; [reflexivity|discriminate Hv].
    + destruct tys as [|[| |t'] [|? ?]]; try discriminate Hv.
      apply andb_prop in Hv. destruct Hv as [Hv Hptr].
      apply andb_prop in Hv. destruct Hv as [Hv Hne].
      apply andb_prop in Hv. destruct Hv as [Htt _].
      apply Nat.eqb_eq in Htt. subst t'.
      apply negb_true_iff in Hne.
      assert (Hp : permit (fin_for E Ls e) (TId t) = true).
      { simpl. unfold fin_for. rewrite Hne.
        assert (Hu' : has_unboxed (L_of Ls e) = true).
        { unfold has_unboxed. apply existsb_exists. exists (RUnboxed t0).
          split; [eapply nth_error_In; eauto|reflexivity]. }
        rewrite Hu'. unfold truth_of. unfold pointer_type in Hptr.
        destruct (defs_of E t) as [[tys'|vs']|]; [reflexivity|exact Hptr|discriminate Hptr]. }
      unfold variant_spec. rewrite Hdv, Hp. reflexivity.
    + exfalso. apply andb_prop in Hv. destruct Hv as [Hd _].
      assert (Hkk : k0 = k).
      { eapply single_data_variant; eauto. }
      subst k0. rewrite Hk0 in Hr. discriminate Hr.
  - (* no unboxed variant: nothing had to be known *)
    assert (Hpm : forall t, permit (fin_for E Ls e) t = false).
    { intros [| |n]; try reflexivity. simpl. unfold fin_for. rewrite Hu.
      destruct (Nat.eqb n e); reflexivity. }
    destruct r as [|t|x].
    + destruct tys; [reflexivity|discriminate Hv].
    + exfalso. unfold has_unboxed in Hu.
      assert (Ht : existsb (fun r => match r with RUnboxed _ => true | _ => false end) (L_of Ls e) = true).
      { apply existsb_exists. exists (RUnboxed t). split; [eapply nth_error_In; eauto|reflexivity]. }
      rewrite Hu in Ht. discriminate Ht.
    + apply andb_prop in Hv. destruct Hv as [Hd Hx]. apply tys_eqb_eq in Hx. subst x.
      symmetry. apply variant_spec_no_permit; assumption.
Qed.

Lemma wf_layoutsb_sound : forall E Ls,
  wf_layoutsb E Ls = true -> wf_layouts (defs_of E) (L_of Ls).
Proof.
  intros E Ls H e vs Hd. unfold wf_layoutsb in H.
  apply andb_prop in H. destruct H as [_ Hall].
  rewrite forallb_forall in Hall.
  pose proof (Hall (e, DEnum vs) (lookup_In _ _ _ _ Hd)) as Hok. simpl in Hok.
  exists (fin_for E Ls e).
  split; [apply enum_ok_layout; exact Hok|].
  split; [unfold fin_for; rewrite Nat.eqb_refl; reflexivity|].
  apply fin_for_truthful.
Qed.

Lemma discriminate_correct_checked : forall E Ls, wf_layoutsb E Ls = true ->
  forall e k args vs, defs_of E e = Some (DEnum vs) ->
  has_type (defs_of E) (VEnum e k args) (TId e) ->
  forall j, j < length vs ->
  (test_variant (L_of Ls) e j (encode (L_of Ls) (VEnum e k args)) = true <-> j = k).
Proof.
  intros E Ls H. apply discriminate_correct. apply wf_layoutsb_sound. exact H.
Qed.

Lemma emitted_test_correct_checked : forall E Ls, wf_layoutsb E Ls = true ->
  forall e k args vs, defs_of E e = Some (DEnum vs) ->
  has_type (defs_of E) (VEnum e k args) (TId e) ->
  forall j, j < length vs ->
  exists b, test_variant_emitted (L_of Ls) e j (encode (L_of Ls) (VEnum e k args)) = Some b /\
            (b = true <-> j = k).
Proof.
  intros E Ls H. apply emitted_test_correct. apply wf_layoutsb_sound. exact H.
Qed.

Lemma encode_injective_checked : forall E Ls, wf_layoutsb E Ls = true ->
  forall t v1 v2, has_type (defs_of E) v1 t -> has_type (defs_of E) v2 t ->
  encode (L_of Ls) v1 = encode (L_of Ls) v2 -> v1 = v2.
Proof.
  intros E Ls H. apply encode_injective. apply wf_layoutsb_sound. exact H.
Qed.
