(* C01 — a concrete environment on which the hypotheses of the theorems hold:
     0  struct S(int)
     1  class Nat(Zero, Succ(Nat))                 self recursion
     2  class A(X, Y(B))    3  class B(P, Q(A))    mutual recursion (A reached first)
     4  Option<S>           = (None, Some(S))      payload unboxed
     5  Option<Option<S>>   = (None, Some(4))      inner unboxed, outer must be boxed
     6  class W(Only(T))    7  class T(I(int), J(Str))   all-boxed enum as unboxed payload
     8  class E(Lft(S), Rgt(S))                    second data variant reverts the first *)
From Coq Require Import List Arith Bool ZArith.
From SV Require Import C01.Model C01.Typing C01.Proofs C01.Corr.
Import ListNotations.

Definition ex_defs (n : nat) : option tdef :=
  match n with
  | 0 => Some (DStruct [TInt])
  | 1 => Some (DEnum [[]; [TId 1]])
  | 2 => Some (DEnum [[]; [TId 3]])
  | 3 => Some (DEnum [[]; [TId 2]])
  | 4 => Some (DEnum [[]; [TId 0]])
  | 5 => Some (DEnum [[]; [TId 4]])
  | 6 => Some (DEnum [[TId 7]])
  | 7 => Some (DEnum [[TInt]; [TStr]])
  | 8 => Some (DEnum [[TId 0]; [TId 0]])
  | _ => None
  end.

Definition ex_L (n : nat) : list vrepr :=
  match n with
  | 1 => [RInt31; RBoxed [TId 1]]
  | 2 => [RInt31; RBoxed [TId 3]]
  | 3 => [RInt31; RBoxed [TId 2]]
  | 4 => [RInt31; RUnboxed 0]
  | 5 => [RInt31; RBoxed [TId 4]]
  | 6 => [RUnboxed 7]
  | 7 => [RBoxed [TInt]; RBoxed [TStr]]
  | 8 => [RBoxed [TId 0]; RBoxed [TId 0]]
  | _ => []
  end.

(* ids still on the specialisation stack (registered, unfinished) when e's layout is decided,
   besides e itself: B is decided while A is unfinished *)
Definition ex_stack (e : nat) : list nat :=
  match e with 3 => [2] | _ => [] end.

(* the snapshot consulted while e's layout is decided *)
Definition ex_fin (e n : nat) : option known :=
  if Nat.eqb n e || existsb (Nat.eqb n) (ex_stack e) then None
  else match ex_defs n with
       | Some (DStruct _) => Some KStruct
       | Some (DEnum _) => Some (KEnum (ex_L n))
       | None => None
       end.

Definition ex_enum_ids : list nat := [1; 2; 3; 4; 5; 6; 7; 8].

Definition ex_variants (e : nat) : list (list ty) :=
  match ex_defs e with Some (DEnum vs) => vs | _ => [] end.

(* the loop run against the snapshots yields exactly ex_L *)
Lemma ex_loop_yields_L :
  map (fun e => choose_layout (ex_fin e) (ex_variants e)) ex_enum_ids = map ex_L ex_enum_ids.
Proof. vm_compute. reflexivity. Qed.

Lemma ex_fin_truthful : forall e, fin_truthful ex_defs ex_L (ex_fin e).
Proof.
  intros e n. unfold ex_fin.
  destruct (Nat.eqb n e || existsb (Nat.eqb n) (ex_stack e)).
  - split; [discriminate|]. intros ls H. discriminate H.
  - destruct (ex_defs n) as [[tys|vs']|] eqn:Hd.
    + split; [eauto|]. intros ls H. discriminate H.
    + split; [discriminate|]. intros ls H. injection H as <-. eauto.
    + split; [discriminate|]. intros ls H. discriminate H.
Qed.

Lemma ex_fin_self : forall e, ex_fin e e = None.
Proof. intros e. unfold ex_fin. rewrite Nat.eqb_refl. reflexivity. Qed.

Lemma ex_wf : wf_layouts ex_defs ex_L.
Proof.
  intros e vs Hd. exists (ex_fin e).
  split; [|split; [apply ex_fin_self|apply ex_fin_truthful]].
  do 9 (destruct e as [|e]; [try discriminate Hd; injection Hd as <-; vm_compute; reflexivity|]).
  discriminate Hd.
Qed.

(* some well-typed values *)
Definition ex_s5 : val := VStruct 0 [VInt 5%Z].
Definition ex_two : val := VEnum 1 1 [VEnum 1 1 [VEnum 1 0 []]].       (* Succ(Succ(Zero)) *)
Definition ex_q_x : val := VEnum 3 1 [VEnum 2 0 []].                    (* B.Q(A.X) *)
Definition ex_some_s : val := VEnum 4 1 [ex_s5].                        (* Some(S(5)) *)
Definition ex_some_none : val := VEnum 5 1 [VEnum 4 0 []].              (* Some(None) *)
Definition ex_some_some : val := VEnum 5 1 [ex_some_s].                 (* Some(Some(S(5))) *)
Definition ex_only_j : val := VEnum 6 0 [VEnum 7 1 [VStr [104; 105]]].  (* Only(J("hi")) *)
Definition ex_rgt : val := VEnum 8 1 [ex_s5].                           (* Rgt(S(5)) *)

Lemma ex_typed :
  has_type ex_defs ex_two (TId 1) /\ has_type ex_defs ex_q_x (TId 3) /\
  has_type ex_defs ex_some_s (TId 4) /\ has_type ex_defs ex_some_none (TId 5) /\
  has_type ex_defs ex_some_some (TId 5) /\ has_type ex_defs ex_only_j (TId 6) /\
  has_type ex_defs ex_rgt (TId 8).
Proof.
  repeat split;
    repeat (first [ apply HT_int | apply HT_str
                  | eapply HT_struct; [reflexivity|]
                  | eapply HT_enum; [reflexivity|reflexivity|]
                  | apply Forall2_nil | apply Forall2_cons ]).
Qed.

(* the same environment in the form the harness dumps it (Corr.v) *)
Definition ex_E : env :=
  [ (0, DStruct [TInt]);
    (1, DEnum [[]; [TId 1]]);
    (2, DEnum [[]; [TId 3]]);
    (3, DEnum [[]; [TId 2]]);
    (4, DEnum [[]; [TId 0]]);
    (5, DEnum [[]; [TId 4]]);
    (6, DEnum [[TId 7]]);
    (7, DEnum [[TInt]; [TStr]]);
    (8, DEnum [[TId 0]; [TId 0]]) ].
Definition ex_Ls : layouts :=
  [ (1, [RInt31; RBoxed [TId 1]]);
    (2, [RInt31; RBoxed [TId 3]]);
    (3, [RInt31; RBoxed [TId 2]]);
    (4, [RInt31; RUnboxed 0]);
    (5, [RInt31; RBoxed [TId 4]]);
    (6, [RUnboxed 7]);
    (7, [RBoxed [TInt]; RBoxed [TStr]]);
    (8, [RBoxed [TId 0]; RBoxed [TId 0]]) ].

(* dumps the check must reject *)
Definition bad_nat_E : env := [ (1, DEnum [[]; [TId 1]]) ].
Definition bad_nat_Ls : layouts := [ (1, [RInt31; RUnboxed 1]) ].             (* old rule *)
Definition bad_ab_E : env := [ (2, DEnum [[]; [TId 3]]); (3, DEnum [[]; [TId 2]]) ].
Definition bad_ab_Ls : layouts :=
  [ (2, [RInt31; RBoxed [TId 3]]); (3, [RInt31; RUnboxed 2]) ].                (* old rule, mutual *)
Definition opt_E : env :=
  [ (0, DStruct [TInt]); (4, DEnum [[]; [TId 0]]); (5, DEnum [[]; [TId 4]]) ].
Definition good_optopt_Ls : layouts :=
  [ (4, [RInt31; RUnboxed 0]); (5, [RInt31; RBoxed [TId 4]]) ].
Definition bad_optopt_Ls : layouts :=                                          (* outer Option unboxed *)
  [ (4, [RInt31; RUnboxed 0]); (5, [RInt31; RUnboxed 4]) ].
Definition two_E : env := [ (0, DStruct [TInt]); (8, DEnum [[TId 0]; [TId 0]]) ].
Definition good_two_data_Ls : layouts := [ (8, [RBoxed [TId 0]; RBoxed [TId 0]]) ].
Definition bad_two_data_Ls : layouts := [ (8, [RUnboxed 0; RBoxed [TId 0]]) ]. (* revert forgotten *)
