(* C01 — model of the enum representation decision
   (crates/samlang-compiler/src/mir_generics_specialization.rs, rewrite_id_type and
   type_permit_enum_boxed_optimization) and of how enum values are built (EnumInit) and
   discriminated (ConditionalDestructure) at run time.  Definitions only. *)
From Coq Require Import List Arith Bool ZArith.
Import ListNotations.

Inductive ty := TInt | TStr | TId (n : nat).

(* source-level type definitions (after generics specialisation: one id per instance) *)
Inductive tdef := DStruct (fields : list ty) | DEnum (variants : list (list ty)).
(* mir::EnumTypeDefinition *)
Inductive vrepr := RInt31 | RUnboxed (t : nat) | RBoxed (tys : list ty).

Definition is_boxed (r : vrepr) : bool := match r with RBoxed _ => true | _ => false end.

(* what is known about a type when a layout decision consults it:
   None = not finished yet (registered and currently being processed, or unknown) *)
Inductive known := KStruct | KEnum (layout : list vrepr).

(* type_permit_enum_boxed_optimization: may a value of this type stand for the variant itself? *)
Definition permit (fin : nat -> option known) (t : ty) : bool :=
  match t with
  | TInt | TStr => false
  | TId n => match fin n with
             | None => false                       (* layout not known yet: be conservative *)
             | Some KStruct => true                (* structs are always pointers *)
             | Some (KEnum ls) => forallb is_boxed ls
             end
  end.

(* the variant loop of rewrite_id_type, line by line:
   acc = variants decided so far (in order), allow = permit_unboxed_optimization,
   pending = already_unused_boxed_optimization (index and payload type of the unboxed variant) *)
Fixpoint upd {A} (l : list A) (i : nat) (x : A) : list A :=
  match l, i with
  | [], _ => []
  | _ :: l', O => x :: l'
  | y :: l', S i' => y :: upd l' i' x
  end.

(* The loop is written over an arbitrary answer function [pm] for
   type_permit_enum_boxed_optimization so that the pre-fix answer (Old.v) can be plugged into the
   very same loop; the compiler's loop is [decide] = [decide_with (permit fin)]. *)
Fixpoint decide_with (pm : ty -> bool) (vs : list (list ty)) (acc : list vrepr)
         (allow : bool) (pending : option (nat * nat)) : list vrepr :=
  match vs with
  | [] => acc
  | [] :: vs' => decide_with pm vs' (acc ++ [RInt31]) allow pending
  | tys :: vs' =>
      let acc1 := match pending with
                  | Some (i, t) => upd acc i (RBoxed [TId t])
                  | None => acc
                  end in
      match allow, pending, tys with
      | true, None, [TId t] =>
          if pm (TId t)
          then decide_with pm vs' (acc1 ++ [RUnboxed t]) false (Some (length acc1, t))
          else decide_with pm vs' (acc1 ++ [RBoxed tys]) false None
      | _, _, _ => decide_with pm vs' (acc1 ++ [RBoxed tys]) false None
      end
  end.

Definition choose_layout_with (pm : ty -> bool) (vs : list (list ty)) : list vrepr :=
  decide_with pm vs [] true None.

Definition decide (fin : nat -> option known) := decide_with (permit fin).
Definition choose_layout (fin : nat -> option known) (vs : list (list ty)) : list vrepr :=
  choose_layout_with (permit fin) vs.

(* the same decision, stated directly *)
Definition is_data (tys : list ty) : bool := match tys with [] => false | _ => true end.
Definition data_variants (vs : list (list ty)) : nat := length (filter is_data vs).
(* representation of one variant, given the number [dv] of data-carrying variants of its enum *)
Definition variant_spec (pm : ty -> bool) (dv : nat) (tys : list ty) : vrepr :=
  match tys with
  | [] => RInt31
  | [TId t] => if Nat.eqb dv 1 && pm (TId t) then RUnboxed t else RBoxed tys
  | _ => RBoxed tys
  end.
Definition layout_spec_with (pm : ty -> bool) (vs : list (list ty)) : list vrepr :=
  map (variant_spec pm (data_variants vs)) vs.
Definition layout_spec (fin : nat -> option known) (vs : list (list ty)) : list vrepr :=
  layout_spec_with (permit fin) vs.

(* ---------------- run-time representation ---------------- *)
Inductive val :=
| VInt (z : Z) | VStr (s : list nat)
| VStruct (n : nat) (fs : list val)
| VEnum (e : nat) (k : nat) (args : list val).

Inductive tname := NStruct (n : nat) | NSub (e : nat) (k : nat).    (* WasmGC struct type of a heap object *)
Inductive rv :=
| RInt (z : Z) | RStr (s : list nat)
| RI31 (n : nat)                                  (* (ref i31) *)
| RRef (tn : tname) (fields : list rv).           (* reference to a struct object *)

Section Enc.
  Variable L : nat -> list vrepr.     (* the layout chosen for each enum type *)

  Fixpoint encode (v : val) : rv :=
    match v with
    | VInt z => RInt z
    | VStr s => RStr s
    | VStruct n fs => RRef (NStruct n) (map encode fs)
    | VEnum e k args =>
        match nth k (L e) RInt31 with
        | RInt31 => RI31 k
        | RUnboxed _ => match args with a :: _ => encode a | [] => RI31 k end
        | RBoxed _ => RRef (NSub e k) (RInt (Z.of_nat (2 * k + 1)) :: map encode args)
        end
    end.

  (* mir::Statement::IsPointer { pointer_type: t } = ref.test (ref $t) *)
  Definition ref_test_struct (t : nat) (v : rv) : bool :=
    match v with
    | RRef (NStruct n) _ => Nat.eqb n t
    | RRef (NSub e _) _ => Nat.eqb e t      (* a variant object is a subtype of its enum type *)
    | _ => false
    end.
  Definition ref_test_sub (e k : nat) (v : rv) : bool :=
    match v with
    | RRef (NSub e' k') _ => Nat.eqb e' e && Nat.eqb k' k
    | _ => false
    end.
  Definition tag_of (v : rv) : option Z :=
    match v with RRef _ (RInt z :: _) => Some z | _ => None end.

  (* the test the compiled match performs for variant j of enum e *)
  Definition test_variant (e j : nat) (v : rv) : bool :=
    match nth j (L e) RInt31 with
    | RInt31 => match v with RI31 n => Nat.eqb n j | _ => false end
    | RUnboxed t => ref_test_struct t v
    | RBoxed _ => ref_test_sub e j v
                  && match tag_of v with Some z => Z.eqb z (Z.of_nat (2 * j + 1)) | None => false end
    end.

  (* The statements actually emitted for a boxed variant: the subtype test guards the tag load
     only when the enum has i31 variants (enum_has_int31_variants); otherwise field 0 of the
     tested value is loaded directly.  None = that load is not defined for the value (it is not
     an object whose first field is an i32). *)
  Definition has_int31 (ls : list vrepr) : bool :=
    existsb (fun r => match r with RInt31 => true | _ => false end) ls.
  Definition test_variant_emitted (e j : nat) (v : rv) : option bool :=
    match nth j (L e) RInt31 with
    | RBoxed _ =>
        if has_int31 (L e) then Some (test_variant e j v)
        else match tag_of v with
             | Some z => Some (Z.eqb z (Z.of_nat (2 * j + 1)))
             | None => None
             end
    | _ => Some (test_variant e j v)
    end.
End Enc.
