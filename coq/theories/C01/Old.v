(* C01 — why the "unfinished type => do not unbox" rule is needed.
   Before the repair, type_permit_enum_boxed_optimization answered "yes, a pointer" for a type
   that was registered but whose definition was not finished yet (a type on the recursion
   stack).  [permit_old] is that answer; it is plugged into the very same loop. *)
From Coq Require Import List Arith Bool ZArith.
From SV Require Import C01.Model C01.Typing.
Import ListNotations.

Definition permit_old (fin : nat -> option known) (t : ty) : bool :=
  match t with
  | TInt | TStr => false
  | TId n => match fin n with
             | None => true                        (* registered, unfinished: assumed a pointer *)
             | Some KStruct => true
             | Some (KEnum ls) => forallb is_boxed ls
             end
  end.

(* ---- class Nat(Zero, Succ(Nat)) ---- *)
Definition nat_id : nat := 1.
Definition nat_variants : list (list ty) := [[]; [TId nat_id]].
Definition nat_defs (n : nat) : option tdef :=
  if Nat.eqb n nat_id then Some (DEnum nat_variants) else None.
(* while Nat's layout is decided nothing is finished (Nat itself is on the stack) *)
Definition nat_fin (n : nat) : option known := None.

Definition nat_L_old (n : nat) : list vrepr :=
  if Nat.eqb n nat_id then choose_layout_with (permit_old nat_fin) nat_variants else [].
Definition nat_L_new (n : nat) : list vrepr :=
  if Nat.eqb n nat_id then choose_layout nat_fin nat_variants else [].

Definition nat_zero : val := VEnum nat_id 0 [].
Definition nat_one : val := VEnum nat_id 1 [nat_zero].

Lemma nat_zero_typed : has_type nat_defs nat_zero (TId nat_id).
Proof. eapply HT_enum; [reflexivity|reflexivity|constructor]. Qed.
Lemma nat_one_typed : has_type nat_defs nat_one (TId nat_id).
Proof.
  eapply HT_enum; [reflexivity|reflexivity|].
  constructor; [exact nat_zero_typed|constructor].
Qed.

Lemma C01_old_rule_refuted :
  choose_layout_with (permit_old nat_fin) nat_variants = [RInt31; RUnboxed nat_id] /\
  choose_layout nat_fin nat_variants = [RInt31; RBoxed [TId nat_id]] /\
  exists v1 v2,
    has_type nat_defs v1 (TId nat_id) /\ has_type nat_defs v2 (TId nat_id) /\
    v1 <> v2 /\
    encode nat_L_old v1 = encode nat_L_old v2 /\
    encode nat_L_new v1 <> encode nat_L_new v2.
Proof.
  split; [vm_compute; reflexivity|].
  split; [vm_compute; reflexivity|].
  exists nat_one, nat_zero.
  split; [exact nat_one_typed|].
  split; [exact nat_zero_typed|].
  split; [discriminate|].
  split; [vm_compute; reflexivity|].
  vm_compute. discriminate.
Qed.

(* ---- mutual recursion: class A(X, Y(B)), class B(P, Q(A)), A reached first ----
   B's layout is decided while A is unfinished; A's layout is decided when B is finished. *)
Definition a_id : nat := 2.
Definition b_id : nat := 3.
Definition a_variants : list (list ty) := [[]; [TId b_id]].
Definition b_variants : list (list ty) := [[]; [TId a_id]].
Definition ab_defs (n : nat) : option tdef :=
  if Nat.eqb n a_id then Some (DEnum a_variants)
  else if Nat.eqb n b_id then Some (DEnum b_variants) else None.
Definition b_fin (n : nat) : option known := None.
Definition b_layout_old : list vrepr := choose_layout_with (permit_old b_fin) b_variants.
Definition a_fin_old (n : nat) : option known :=
  if Nat.eqb n b_id then Some (KEnum b_layout_old) else None.
Definition a_layout_old : list vrepr := choose_layout_with (permit_old a_fin_old) a_variants.
Definition ab_L_old (n : nat) : list vrepr :=
  if Nat.eqb n a_id then a_layout_old else if Nat.eqb n b_id then b_layout_old else [].

Definition a_x : val := VEnum a_id 0 [].
Definition b_p : val := VEnum b_id 0 [].
Definition b_q_x : val := VEnum b_id 1 [a_x].

Lemma old_rule_refuted_mutual :
  b_layout_old = [RInt31; RUnboxed a_id] /\
  a_layout_old = [RInt31; RBoxed [TId b_id]] /\
  has_type ab_defs b_q_x (TId b_id) /\ has_type ab_defs b_p (TId b_id) /\
  b_q_x <> b_p /\
  encode ab_L_old b_q_x = encode ab_L_old b_p /\
  (* the compiled match therefore takes the P arm on Q(X) *)
  test_variant ab_L_old b_id 0 (encode ab_L_old b_q_x) = true.
Proof.
  split; [vm_compute; reflexivity|].
  split; [vm_compute; reflexivity|].
  split.
  { eapply HT_enum; [reflexivity|reflexivity|].
    constructor; [|constructor].
    eapply HT_enum; [reflexivity|reflexivity|constructor]. }
  split.
  { eapply HT_enum; [reflexivity|reflexivity|constructor]. }
  split; [discriminate|].
  split; vm_compute; reflexivity.
Qed.
