(* C01 — proofs about the enum representation decision, the encoding of values and the
   run-time discrimination test. *)
From Coq Require Import List Arith Bool ZArith Lia.
From SV Require Import C01.Model C01.Typing.
Import ListNotations.

(* ------------------------------------------------------------------------------------------ *)
(* (a) the loop computes the direct characterisation                                          *)
(* ------------------------------------------------------------------------------------------ *)

Definition boxed_or_i31 (tys : list ty) : vrepr :=
  match tys with [] => RInt31 | _ => RBoxed tys end.

Lemma upd_app_here : forall (A : Type) (pre post : list A) (x y : A),
  upd (pre ++ x :: post) (length pre) y = pre ++ y :: post.
Proof.
  intros A pre; induction pre as [|p pre IH]; intros post x y; simpl.
  - reflexivity.
  - rewrite IH. reflexivity.
Qed.

Lemma data_variants_nil_cons : forall vs, data_variants ([] :: vs) = data_variants vs.
Proof. reflexivity. Qed.

Lemma data_variants_data_cons : forall t tl vs,
  data_variants ((t :: tl) :: vs) = S (data_variants vs).
Proof. reflexivity. Qed.

(* state 2 of the loop: a boxed data variant has been emitted, nothing is pending *)
Lemma decide_closed : forall pm vs acc,
  decide_with pm vs acc false None = acc ++ map boxed_or_i31 vs.
Proof.
  intros pm vs; induction vs as [|tys vs IH]; intros acc.
  - simpl. rewrite app_nil_r. reflexivity.
  - destruct tys as [|t tl].
    + simpl. rewrite IH. rewrite <- app_assoc. reflexivity.
    + simpl. rewrite IH. rewrite <- app_assoc. reflexivity.
Qed.

(* state 1: exactly one data variant so far, it is unboxed and recorded in [pending] *)
Lemma decide_pending : forall pm vs pre t post,
  decide_with pm vs (pre ++ RUnboxed t :: post) false (Some (length pre, t)) =
  if Nat.eqb (data_variants vs) 0
  then pre ++ RUnboxed t :: post ++ map boxed_or_i31 vs
  else pre ++ RBoxed [TId t] :: post ++ map boxed_or_i31 vs.
Proof.
  intros pm vs; induction vs as [|tys vs IH]; intros pre t post.
  - simpl. rewrite app_nil_r. reflexivity.
  - destruct tys as [|t0 tl].
    + rewrite data_variants_nil_cons.
      change (decide_with pm ([] :: vs) (pre ++ RUnboxed t :: post) false (Some (length pre, t)))
        with (decide_with pm vs ((pre ++ RUnboxed t :: post) ++ [RInt31]) false (Some (length pre, t))).
      rewrite <- app_assoc. rewrite <- app_comm_cons.
      rewrite IH. simpl map.
      rewrite <- !app_assoc. reflexivity.
    + rewrite data_variants_data_cons.
      change (Nat.eqb (S (data_variants vs)) 0) with false.
      change (decide_with pm ((t0 :: tl) :: vs) (pre ++ RUnboxed t :: post) false (Some (length pre, t)))
        with (decide_with pm vs
                (upd (pre ++ RUnboxed t :: post) (length pre) (RBoxed [TId t]) ++ [RBoxed (t0 :: tl)])
                false None).
      rewrite upd_app_here. rewrite decide_closed.
      simpl map. rewrite <- !app_assoc. simpl. reflexivity.
Qed.

Lemma variant_spec_boxed_or_i31 : forall pm vs d,
  data_variants vs = 0 \/ d <> 1 ->
  map (variant_spec pm d) vs = map boxed_or_i31 vs.
Proof.
  intros pm vs; induction vs as [|tys vs IH]; intros d Hd.
  - reflexivity.
  - destruct tys as [|t0 tl].
    + simpl. f_equal. apply IH. exact Hd.
    + destruct Hd as [Hd|Hd].
      * rewrite data_variants_data_cons in Hd. discriminate Hd.
      * simpl map. f_equal.
        -- unfold variant_spec. destruct t0 as [| |t]; try reflexivity.
           destruct tl as [|t1 tl]; try reflexivity.
           destruct (Nat.eqb d 1) eqn:E.
           ++ apply Nat.eqb_eq in E. contradiction.
           ++ reflexivity.
        -- apply IH. right. exact Hd.
Qed.

(* state 0: only payload-free variants so far *)
Lemma decide_open : forall pm vs acc,
  decide_with pm vs acc true None = acc ++ layout_spec_with pm vs.
Proof.
  intros pm vs; induction vs as [|tys vs IH]; intros acc.
  - simpl. rewrite app_nil_r. reflexivity.
  - unfold layout_spec_with in *.
    destruct tys as [|t0 tl].
    + rewrite data_variants_nil_cons. simpl. rewrite IH. rewrite <- app_assoc. reflexivity.
    + rewrite data_variants_data_cons.
      assert (Hrest : map (variant_spec pm (S (data_variants vs))) vs = map boxed_or_i31 vs).
      { apply variant_spec_boxed_or_i31. destruct (data_variants vs); [left; reflexivity | right; lia]. }
      simpl map. rewrite Hrest.
      assert (Hdefault :
        decide_with pm vs (acc ++ [RBoxed (t0 :: tl)]) false None =
        acc ++ RBoxed (t0 :: tl) :: map boxed_or_i31 vs).
      { rewrite decide_closed. rewrite <- app_assoc. reflexivity. }
      destruct t0 as [| |t].
      * exact Hdefault.
      * exact Hdefault.
      * destruct tl as [|t1 tl].
        -- simpl decide_with. unfold variant_spec.
           destruct (pm (TId t)) eqn:Epm.
           ++ pose proof (decide_pending pm vs acc t []) as HP.
              simpl app in HP. rewrite HP.
              destruct (data_variants vs) as [|d]; simpl; reflexivity.
           ++ rewrite andb_false_r. exact Hdefault.
        -- exact Hdefault.
Qed.

Lemma choose_layout_with_spec : forall pm vs, choose_layout_with pm vs = layout_spec_with pm vs.
Proof. intros pm vs. unfold choose_layout_with. rewrite decide_open. reflexivity. Qed.

Lemma choose_layout_spec : forall fin vs, choose_layout fin vs = layout_spec fin vs.
Proof. intros fin vs. apply choose_layout_with_spec. Qed.

(* ------------------------------------------------------------------------------------------ *)
(* facts about layout_spec                                                                    *)
(* ------------------------------------------------------------------------------------------ *)

Lemma layout_spec_length : forall fin vs, length (layout_spec fin vs) = length vs.
Proof. intros. unfold layout_spec, layout_spec_with. apply map_length. Qed.

Lemma nth_layout_spec : forall fin vs k tys,
  nth_error vs k = Some tys ->
  nth k (layout_spec fin vs) RInt31 = variant_spec (permit fin) (data_variants vs) tys.
Proof.
  intros fin vs k tys Hk. unfold layout_spec, layout_spec_with.
  change RInt31 with (variant_spec (permit fin) (data_variants vs) []).
  rewrite map_nth. f_equal. apply nth_error_nth. exact Hk.
Qed.

Lemma variant_spec_i31 : forall pm dv tys, variant_spec pm dv tys = RInt31 -> tys = [].
Proof.
  intros pm dv tys H. destruct tys as [|t0 tl]; [reflexivity|].
  unfold variant_spec in H.
  destruct t0; try discriminate H.
  destruct tl; try discriminate H.
  destruct (Nat.eqb dv 1 && pm (TId n)); discriminate H.
Qed.

Lemma variant_spec_unboxed : forall pm dv tys t,
  variant_spec pm dv tys = RUnboxed t -> tys = [TId t] /\ dv = 1 /\ pm (TId t) = true.
Proof.
  intros pm dv tys t H. unfold variant_spec in H.
  destruct tys as [|t0 tl]; try discriminate H.
  destruct t0 as [| |n]; try discriminate H.
  destruct tl; try discriminate H.
  destruct (Nat.eqb dv 1) eqn:E1; simpl in H; try discriminate H.
  destruct (pm (TId n)) eqn:E2; try discriminate H.
  injection H as ->. apply Nat.eqb_eq in E1. auto.
Qed.

Lemma variant_spec_boxed : forall pm dv tys x,
  variant_spec pm dv tys = RBoxed x -> x = tys /\ is_data tys = true.
Proof.
  intros pm dv tys x H. unfold variant_spec in H.
  destruct tys as [|t0 tl]; try discriminate H.
  split; [|reflexivity].
  destruct t0 as [| |n]; try (injection H as <-; reflexivity).
  destruct tl; try (injection H as <-; reflexivity).
  destruct (Nat.eqb dv 1 && pm (TId n)); try discriminate H.
  injection H as <-; reflexivity.
Qed.

Lemma no_data_variants : forall vs j t,
  data_variants vs = 0 -> nth_error vs j = Some t -> is_data t = false.
Proof.
  intros vs; induction vs as [|tys vs IH]; intros j t H0 Hj.
  - destruct j; discriminate Hj.
  - destruct tys as [|t0 tl].
    + rewrite data_variants_nil_cons in H0. destruct j as [|j]; simpl in Hj.
      * injection Hj as <-. reflexivity.
      * eapply IH; eauto.
    + rewrite data_variants_data_cons in H0. discriminate H0.
Qed.

Lemma single_data_variant : forall vs j k tj tk,
  data_variants vs = 1 ->
  nth_error vs j = Some tj -> nth_error vs k = Some tk ->
  is_data tj = true -> is_data tk = true -> j = k.
Proof.
  intros vs; induction vs as [|tys vs IH]; intros j k tj tk H1 Hj Hk Dj Dk.
  - destruct j; discriminate Hj.
  - destruct tys as [|t0 tl].
    + rewrite data_variants_nil_cons in H1.
      destruct j as [|j]; simpl in Hj.
      { injection Hj as <-. discriminate Dj. }
      destruct k as [|k]; simpl in Hk.
      { injection Hk as <-. discriminate Dk. }
      f_equal. eapply IH; eauto.
    + rewrite data_variants_data_cons in H1. injection H1 as H0.
      destruct j as [|j]; destruct k as [|k]; simpl in Hj, Hk.
      * reflexivity.
      * rewrite (no_data_variants _ _ _ H0 Hk) in Dk. discriminate Dk.
      * rewrite (no_data_variants _ _ _ H0 Hj) in Dj. discriminate Dj.
      * rewrite (no_data_variants _ _ _ H0 Hk) in Dk. discriminate Dk.
Qed.

(* ------------------------------------------------------------------------------------------ *)
(* (c) the discrimination test                                                                *)
(* ------------------------------------------------------------------------------------------ *)

Definition fin_truthful (defs : nat -> option tdef) (L : nat -> list vrepr)
           (fin : nat -> option known) : Prop :=
  forall n,
    (fin n = Some KStruct -> exists tys, defs n = Some (DStruct tys)) /\
    (forall ls, fin n = Some (KEnum ls) -> ls = L n /\ exists vs', defs n = Some (DEnum vs')).

(* a value whose type passed [permit] is, at run time, a reference to a heap object whose
   WasmGC type is that very type (struct) or one of its variant subtypes (all-boxed enum) *)
Lemma permitted_is_pointer : forall defs L, wf_layouts defs L ->
  forall fin, fin_truthful defs L fin ->
  forall t a, permit fin (TId t) = true -> has_type defs a (TId t) ->
  exists tn fl, encode L a = RRef tn fl /\ (tn = NStruct t \/ exists k', tn = NSub t k').
Proof.
  intros defs L Hwf fin Hfin t a Hp Ha.
  inversion Ha as [| | n fs tys Hd Hfs | e k args vs tys Hd Hk Hargs]; subst.
  - simpl. eauto.
  - simpl in Hp. destruct (Hfin t) as [HS HE].
    destruct (fin t) as [[|ls]|] eqn:Ef.
    + destruct (HS eq_refl) as [tys' Hd']. rewrite Hd in Hd'. discriminate Hd'.
    + destruct (HE ls eq_refl) as [-> _].
      destruct (Hwf t vs Hd) as (fin' & HL & _ & _).
      assert (Hlt : k < length (L t)).
      { rewrite HL, layout_spec_length. apply nth_error_Some. rewrite Hk. discriminate. }
      assert (Hb : is_boxed (nth k (L t) RInt31) = true).
      { rewrite forallb_forall in Hp. apply Hp. apply nth_In. exact Hlt. }
      cbn [encode]. destruct (nth k (L t) RInt31) as [|u|x]; try discriminate Hb.
      do 2 eexists. split; [reflexivity|]. right. eexists. reflexivity.
    + discriminate Hp.
Qed.

Lemma permitted_not_self : forall fin e t, fin e = None -> permit fin (TId t) = true -> t <> e.
Proof.
  intros fin e t He Hp ->. simpl in Hp. rewrite He in Hp. discriminate Hp.
Qed.

Lemma discriminate_correct : forall defs L, wf_layouts defs L ->
  forall e k args vs, defs e = Some (DEnum vs) ->
  has_type defs (VEnum e k args) (TId e) ->
  forall j, j < length vs ->
  (test_variant L e j (encode L (VEnum e k args)) = true <-> j = k).
Proof.
  intros defs L Hwf e k args vs Hd Hty j Hj.
  inversion Hty as [| | | e' k' args' vs' tys Hd' Hk Hargs]; subst.
  rewrite Hd in Hd'. injection Hd' as <-.
  destruct (Hwf e vs Hd) as (fin & HL & Hself & Hfin).
  fold (fin_truthful defs L fin) in Hfin.
  destruct (nth_error vs j) as [tj|] eqn:Hnj.
  2:{ apply nth_error_None in Hnj. lia. }
  pose proof (nth_layout_spec fin vs k tys Hk) as Ek.
  pose proof (nth_layout_spec fin vs j tj Hnj) as Ej.
  rewrite <- HL in Ek, Ej.
  (* when the two variants have different representations they are different variants *)
  assert (Hdiff : nth j (L e) RInt31 <> nth k (L e) RInt31 -> j <> k).
  { intros Hne ->. apply Hne. reflexivity. }
  unfold test_variant. cbn [encode].
  destruct (variant_spec (permit fin) (data_variants vs) tys) as [|t|x] eqn:Sk;
  destruct (variant_spec (permit fin) (data_variants vs) tj) as [|t'|x'] eqn:Sj;
  rewrite Ek, Ej in *.
  - (* i31 / i31 *)
    rewrite Nat.eqb_eq. split; intros; subst; reflexivity.
  - (* value is i31, test is ref.test *)
    simpl. split; [discriminate|]. intros Heq. exfalso. apply Hdiff; [discriminate|exact Heq].
  - simpl. split; [discriminate|]. intros Heq. exfalso. apply Hdiff; [discriminate|exact Heq].
  - (* value is an unboxed payload, test is the i31 comparison *)
    apply variant_spec_unboxed in Sk. destruct Sk as (-> & Hdv & Hp).
    inversion Hargs as [|a ty1 args1 tys1 Ha Hrest]; subst.
    destruct (permitted_is_pointer defs L Hwf fin Hfin t a Hp Ha) as (tn & fl & Henc & _).
    rewrite Henc. split; [discriminate|]. intros Heq. exfalso. apply Hdiff; [discriminate|exact Heq].
  - (* unboxed / unboxed: there is only one data variant *)
    pose proof Sk as Sk'. pose proof Sj as Sj'.
    apply variant_spec_unboxed in Sk. destruct Sk as (-> & Hdv & Hp).
    apply variant_spec_unboxed in Sj. destruct Sj as (-> & _ & _).
    assert (Hjk : j = k) by (eapply single_data_variant; eauto).
    subst j. rewrite Hk in Hnj. injection Hnj as <-.
    inversion Hargs as [|a ty1 args1 tys1 Ha Hrest]; subst.
    destruct (permitted_is_pointer defs L Hwf fin Hfin t a Hp Ha) as (tn & fl & Henc & Htn).
    rewrite Henc. split; [reflexivity|]. intros _.
    destruct Htn as [->|[k' ->]]; simpl; apply Nat.eqb_refl.
  - (* value is an unboxed payload, test is for a boxed variant *)
    apply variant_spec_unboxed in Sk. destruct Sk as (-> & Hdv & Hp).
    inversion Hargs as [|a ty1 args1 tys1 Ha Hrest]; subst.
    destruct (permitted_is_pointer defs L Hwf fin Hfin t a Hp Ha) as (tn & fl & Henc & Htn).
    pose proof (permitted_not_self fin e t Hself Hp) as Hne.
    rewrite Henc. split.
    + intros Ht. exfalso. destruct Htn as [->|[k' ->]]; simpl in Ht.
      * discriminate Ht.
      * apply Nat.eqb_neq in Hne. rewrite Hne in Ht. simpl in Ht. discriminate Ht.
    + intros Heq. exfalso. apply Hdiff; [discriminate|exact Heq].
  - (* value is a tagged object, test is the i31 comparison *)
    split; [discriminate|]. intros Heq. exfalso. apply Hdiff; [discriminate|exact Heq].
  - (* value is a tagged object of enum e, test is ref.test for the unboxed payload type *)
    apply variant_spec_unboxed in Sj. destruct Sj as (-> & _ & Hp).
    pose proof (permitted_not_self fin e t' Hself Hp) as Hne.
    simpl. split.
    + intros Ht. apply Nat.eqb_eq in Ht. exfalso. apply Hne. symmetry. exact Ht.
    + intros Heq. exfalso. apply Hdiff; [discriminate|exact Heq].
  - (* boxed / boxed: subtype test and tag comparison *)
    simpl. rewrite Nat.eqb_refl. simpl. split.
    + intros Ht. apply andb_prop in Ht. destruct Ht as [Ht _]. apply Nat.eqb_eq in Ht. symmetry. exact Ht.
    + intros ->. rewrite Nat.eqb_refl. simpl. apply Z.eqb_refl.
Qed.

(* ------------------------------------------------------------------------------------------ *)
(* (d) injectivity of the encoding                                                            *)
(* ------------------------------------------------------------------------------------------ *)

Section ValInd.
  Variable P : val -> Prop.
  Hypothesis Hint : forall z, P (VInt z).
  Hypothesis Hstr : forall s, P (VStr s).
  Hypothesis Hstruct : forall n fs, Forall P fs -> P (VStruct n fs).
  Hypothesis Henum : forall e k args, Forall P args -> P (VEnum e k args).

  Fixpoint val_nested_ind (v : val) : P v :=
    match v with
    | VInt z => Hint z
    | VStr s => Hstr s
    | VStruct n fs =>
        Hstruct n fs
          ((fix go (l : list val) : Forall P l :=
              match l with
              | [] => Forall_nil P
              | x :: l' => Forall_cons x (val_nested_ind x) (go l')
              end) fs)
    | VEnum e k args =>
        Henum e k args
          ((fix go (l : list val) : Forall P l :=
              match l with
              | [] => Forall_nil P
              | x :: l' => Forall_cons x (val_nested_ind x) (go l')
              end) args)
    end.
End ValInd.

Definition inj_at (defs : nat -> option tdef) (L : nat -> list vrepr) (v1 : val) : Prop :=
  forall t v2, has_type defs v1 t -> has_type defs v2 t -> encode L v1 = encode L v2 -> v1 = v2.

Lemma inj_list : forall defs L l1,
  Forall (inj_at defs L) l1 ->
  forall tys l2, Forall2 (has_type defs) l1 tys -> Forall2 (has_type defs) l2 tys ->
  map (encode L) l1 = map (encode L) l2 -> l1 = l2.
Proof.
  intros defs L l1 HF; induction HF as [|x l1 Hx HF IH]; intros tys l2 H1 H2 Hm.
  - inversion H1; subst. inversion H2; subst. reflexivity.
  - inversion H1 as [|x' ty l1' tys' Hxt H1']; subst.
    inversion H2 as [|y ty' l2' tys'' Hyt H2']; subst.
    simpl in Hm. injection Hm as Hh Ht.
    f_equal.
    + eapply Hx; eauto.
    + eapply IH; eauto.
Qed.

Lemma encode_injective_at : forall defs L, wf_layouts defs L -> forall v1, inj_at defs L v1.
Proof.
  intros defs L Hwf v1. induction v1 as [z|s|n fs IH|e k args IH] using val_nested_ind;
    intros t v2 H1 H2 Heq.
  - inversion H1; subst. inversion H2; subst. simpl in Heq. congruence.
  - inversion H1; subst. inversion H2; subst. simpl in Heq. congruence.
  - inversion H1 as [| | n' fs' tys Hd Hfs |]; subst.
    inversion H2 as [| | n' fs2 tys2 Hd2 Hfs2 | e' k2 args2 vs2 tys2 Hd2 Hk2 Hargs2]; subst.
    + rewrite Hd in Hd2. injection Hd2 as <-.
      simpl in Heq. injection Heq as Hm.
      f_equal. eapply inj_list; eauto.
    + rewrite Hd in Hd2. discriminate Hd2.
  - inversion H1 as [| | | e' k' args' vs tys Hd Hk Hargs]; subst.
    inversion H2 as [| | n' fs2 tys2 Hd2 Hfs2 | e' k2 args2 vs2 tys2 Hd2 Hk2 Hargs2]; subst.
    + rewrite Hd in Hd2. discriminate Hd2.
    + rewrite Hd in Hd2. injection Hd2 as <-.
      (* the variants agree: the test for variant k succeeds on both encodings *)
      assert (Hklt : k < length vs) by (apply nth_error_Some; rewrite Hk; discriminate).
      assert (Hkk : k = k2).
      { apply (discriminate_correct defs L Hwf e k2 args2 vs Hd H2 k Hklt).
        rewrite <- Heq.
        apply (discriminate_correct defs L Hwf e k args vs Hd H1 k Hklt). reflexivity. }
      subst k2. rewrite Hk in Hk2. injection Hk2 as <-.
      destruct (Hwf e vs Hd) as (fin & HL & Hself & Hfin).
      pose proof (nth_layout_spec fin vs k tys Hk) as Ek. rewrite <- HL in Ek.
      cbn [encode] in Heq. rewrite Ek in Heq.
      destruct (variant_spec (permit fin) (data_variants vs) tys) as [|t|x] eqn:Sk.
      * apply variant_spec_i31 in Sk. subst tys.
        inversion Hargs; subst. inversion Hargs2; subst. reflexivity.
      * apply variant_spec_unboxed in Sk. destruct Sk as (-> & _ & _).
        inversion Hargs as [|a ty1 r1 r1' Ha Hr]; subst. inversion Hr; subst.
        inversion Hargs2 as [|a2 ty2 r2 r2' Ha2 Hr2]; subst. inversion Hr2; subst.
        inversion IH as [|a' l' Hinj _]; subst.
        f_equal. f_equal. eapply Hinj; eauto.
      * injection Heq as Hm. f_equal. eapply inj_list; eauto.
Qed.

Lemma encode_injective : forall defs L, wf_layouts defs L ->
  forall t v1 v2, has_type defs v1 t -> has_type defs v2 t ->
  encode L v1 = encode L v2 -> v1 = v2.
Proof.
  intros defs L Hwf t v1 v2 H1 H2 Heq. eapply encode_injective_at; eauto.
Qed.

(* ------------------------------------------------------------------------------------------ *)
(* the test as emitted (subtype test omitted when the enum has no i31 variant)                *)
(* ------------------------------------------------------------------------------------------ *)

Lemma has_int31_false : forall ls k, has_int31 ls = false -> k < length ls ->
  nth k ls RInt31 <> RInt31.
Proof.
  intros ls k Hn Hk Heq. unfold has_int31 in Hn.
  assert (Ht : existsb (fun r => match r with RInt31 => true | _ => false end) ls = true).
  { apply existsb_exists. exists (nth k ls RInt31). split.
    - apply nth_In. exact Hk.
    - rewrite Heq. reflexivity. }
  rewrite Hn in Ht. discriminate Ht.
Qed.

Lemma emitted_test_correct : forall defs L, wf_layouts defs L ->
  forall e k args vs, defs e = Some (DEnum vs) ->
  has_type defs (VEnum e k args) (TId e) ->
  forall j, j < length vs ->
  exists b, test_variant_emitted L e j (encode L (VEnum e k args)) = Some b /\ (b = true <-> j = k).
Proof.
  intros defs L Hwf e k args vs Hd Hty j Hj.
  pose proof (discriminate_correct defs L Hwf e k args vs Hd Hty j Hj) as Hdc.
  unfold test_variant_emitted.
  destruct (nth j (L e) RInt31) as [|t'|x'] eqn:Ej.
  - eexists. split; [reflexivity|exact Hdc].
  - eexists. split; [reflexivity|exact Hdc].
  - destruct (has_int31 (L e)) eqn:Hi.
    + eexists. split; [reflexivity|exact Hdc].
    + (* no i31 variant and a boxed variant: every variant is boxed, the tag load is defined *)
      inversion Hty as [| | | e' k' args' vs' tys Hd' Hk Hargs]; subst.
      rewrite Hd in Hd'. injection Hd' as <-.
      destruct (Hwf e vs Hd) as (fin & HL & Hself & Hfin).
      destruct (nth_error vs j) as [tj|] eqn:Hnj.
      2:{ apply nth_error_None in Hnj. lia. }
      pose proof (nth_layout_spec fin vs k tys Hk) as Ek.
      pose proof (nth_layout_spec fin vs j tj Hnj) as Ej'.
      rewrite <- HL in Ek, Ej'. rewrite Ej in Ej'. symmetry in Ej'.
      assert (Hklt : k < length (L e)).
      { rewrite HL, layout_spec_length. apply nth_error_Some. rewrite Hk. discriminate. }
      pose proof (has_int31_false (L e) k Hi Hklt) as Hni.
      cbn [encode].
      destruct (nth k (L e) RInt31) as [|t|x] eqn:Sk.
      * exfalso. apply Hni. reflexivity.
      * exfalso. symmetry in Ek.
        apply variant_spec_unboxed in Ek. destruct Ek as (-> & Hdv & _).
        apply variant_spec_boxed in Ej'. destruct Ej' as (_ & Dj).
        assert (Hjk : j = k) by (eapply single_data_variant; eauto).
        subst j. rewrite Ej in Sk. discriminate Sk.
      * cbn [tag_of]. eexists. split; [reflexivity|].
        rewrite Z.eqb_eq. split; intros H; lia.
Qed.
