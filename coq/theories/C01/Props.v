(* C01 — property theorems for the enum representation decision, the encoding of enum values
   and the run-time discrimination test (model: Model.v, Typing.v). *)
From Coq Require Import List Arith Bool ZArith.
Import ListNotations.
From SV Require Import C01.Model C01.Typing C01.Proofs C01.Old C01.Corr C01.CorrProofs C01.Examples.

(* the imperative variant loop (pending / revert) computes the direct characterisation:
   a variant is unboxed iff it is the only data-carrying variant, has exactly one field and
   type_permit_enum_boxed_optimization holds for that field's type *)
Theorem C01_choose_layout_spec : forall fin vs, choose_layout fin vs = layout_spec fin vs.
Proof. exact choose_layout_spec. Qed.

(* the same for an arbitrary answer function (used for the pre-fix answer below) *)
Theorem C01_choose_layout_with_spec : forall pm vs,
  choose_layout_with pm vs = layout_spec_with pm vs.
Proof. exact choose_layout_with_spec. Qed.

(* the test the compiled match performs for variant j succeeds on the encoding of a variant-k
   value iff j = k *)
Theorem C01_discriminate_correct : forall defs L, wf_layouts defs L ->
  forall e k args vs, defs e = Some (DEnum vs) ->
  has_type defs (VEnum e k args) (TId e) ->
  forall j, j < length vs ->
  (test_variant L e j (encode L (VEnum e k args)) = true <-> j = k).
Proof. exact discriminate_correct. Qed.

(* the statements as emitted (subtype test omitted when the enum has no i31 variant): the tag
   load is defined on every well-typed value and the outcome is the same *)
Theorem C01_emitted_test_correct : forall defs L, wf_layouts defs L ->
  forall e k args vs, defs e = Some (DEnum vs) ->
  has_type defs (VEnum e k args) (TId e) ->
  forall j, j < length vs ->
  exists b, test_variant_emitted L e j (encode L (VEnum e k args)) = Some b /\ (b = true <-> j = k).
Proof. exact emitted_test_correct. Qed.

(* two well-typed values of the same type with the same run-time representation are equal *)
Theorem C01_encode_injective : forall defs L, wf_layouts defs L ->
  forall t v1 v2, has_type defs v1 t -> has_type defs v2 t ->
  encode L v1 = encode L v2 -> v1 = v2.
Proof. exact encode_injective. Qed.

(* the pre-fix answer ("registered but unfinished => pointer") run through the same loop unboxes
   the payload of class Nat(Zero, Succ(Nat)); Succ(Zero) and Zero then have the same run-time
   value, whereas the repaired rule separates them *)
Theorem C01_unfinished_rule_needed :
  choose_layout_with (permit_old nat_fin) nat_variants = [RInt31; RUnboxed nat_id] /\
  choose_layout nat_fin nat_variants = [RInt31; RBoxed [TId nat_id]] /\
  exists v1 v2,
    has_type nat_defs v1 (TId nat_id) /\ has_type nat_defs v2 (TId nat_id) /\
    v1 <> v2 /\
    encode nat_L_old v1 = encode nat_L_old v2 /\
    encode nat_L_new v1 <> encode nat_L_new v2.
Proof. exact C01_old_rule_refuted. Qed.

(* the mutual-recursion witness: with A(X, Y(B)), B(P, Q(A)) the old answer makes B.Q(A.X)
   indistinguishable from B.P and the compiled match takes the P arm *)
Theorem C01_unfinished_rule_needed_mutual :
  b_layout_old = [RInt31; RUnboxed a_id] /\
  a_layout_old = [RInt31; RBoxed [TId b_id]] /\
  has_type ab_defs b_q_x (TId b_id) /\ has_type ab_defs b_p (TId b_id) /\
  b_q_x <> b_p /\
  encode ab_L_old b_q_x = encode ab_L_old b_p /\
  test_variant ab_L_old b_id 0 (encode ab_L_old b_q_x) = true.
Proof. exact old_rule_refuted_mutual. Qed.

(* ---- tie to the compiler: the boolean check run on the harness dumps implies wf_layouts ---- *)
Theorem C01_wf_layoutsb_sound : forall E Ls,
  wf_layoutsb E Ls = true -> wf_layouts (defs_of E) (L_of Ls).
Proof. exact wf_layoutsb_sound. Qed.

Theorem C01_discriminate_correct_checked : forall E Ls, wf_layoutsb E Ls = true ->
  forall e k args vs, defs_of E e = Some (DEnum vs) ->
  has_type (defs_of E) (VEnum e k args) (TId e) ->
  forall j, j < length vs ->
  (test_variant (L_of Ls) e j (encode (L_of Ls) (VEnum e k args)) = true <-> j = k).
Proof. exact discriminate_correct_checked. Qed.

Theorem C01_emitted_test_correct_checked : forall E Ls, wf_layoutsb E Ls = true ->
  forall e k args vs, defs_of E e = Some (DEnum vs) ->
  has_type (defs_of E) (VEnum e k args) (TId e) ->
  forall j, j < length vs ->
  exists b, test_variant_emitted (L_of Ls) e j (encode (L_of Ls) (VEnum e k args)) = Some b /\
            (b = true <-> j = k).
Proof. exact emitted_test_correct_checked. Qed.

Theorem C01_encode_injective_checked : forall E Ls, wf_layoutsb E Ls = true ->
  forall t v1 v2, has_type (defs_of E) v1 t -> has_type (defs_of E) v2 t ->
  encode (L_of Ls) v1 = encode (L_of Ls) v2 -> v1 = v2.
Proof. exact encode_injective_checked. Qed.

(* ---- the hypotheses are satisfiable: the environment of Examples.v ---- *)

(* layouts: Nat, A, B all boxed (recursive payloads); Option<S> unboxed; Option<Option<S>> boxed;
   W(Only(T)) with T all-boxed unboxed; E(Lft(S), Rgt(S)) reverted to boxed *)
Example C01_nonvacuous_layouts :
  map ex_L [1; 2; 3; 4; 5; 6; 7; 8] =
  [ [RInt31; RBoxed [TId 1]]; [RInt31; RBoxed [TId 3]]; [RInt31; RBoxed [TId 2]];
    [RInt31; RUnboxed 0]; [RInt31; RBoxed [TId 4]]; [RUnboxed 7];
    [RBoxed [TInt]; RBoxed [TStr]]; [RBoxed [TId 0]; RBoxed [TId 0]] ].
Proof. vm_compute. reflexivity. Qed.

(* they are what the loop computes against the snapshots ex_fin *)
Example C01_nonvacuous_loop :
  map (fun e => choose_layout (ex_fin e) (ex_variants e)) [1; 2; 3; 4; 5; 6; 7; 8] =
  map ex_L [1; 2; 3; 4; 5; 6; 7; 8].
Proof. vm_compute. reflexivity. Qed.

Example C01_nonvacuous_wf : wf_layouts ex_defs ex_L.
Proof. exact ex_wf. Qed.

Example C01_nonvacuous_typed :
  has_type ex_defs ex_two (TId 1) /\ has_type ex_defs ex_q_x (TId 3) /\
  has_type ex_defs ex_some_s (TId 4) /\ has_type ex_defs ex_some_none (TId 5) /\
  has_type ex_defs ex_some_some (TId 5) /\ has_type ex_defs ex_only_j (TId 6) /\
  has_type ex_defs ex_rgt (TId 8).
Proof. exact ex_typed. Qed.

(* encodings and test outcomes on those values *)
Example C01_nonvacuous_encode :
  encode ex_L ex_some_s = RRef (NStruct 0) [RInt 5] /\
  encode ex_L ex_some_none = RRef (NSub 5 1) [RInt 3; RI31 0] /\
  encode ex_L ex_some_some = RRef (NSub 5 1) [RInt 3; RRef (NStruct 0) [RInt 5]] /\
  encode ex_L ex_only_j = RRef (NSub 7 1) [RInt 3; RStr [104; 105]] /\
  encode ex_L ex_q_x = RRef (NSub 3 1) [RInt 3; RI31 0] /\
  encode ex_L ex_two =
    RRef (NSub 1 1) [RInt 3; RRef (NSub 1 1) [RInt 3; RI31 0]].
Proof. vm_compute. repeat split; reflexivity. Qed.

Example C01_nonvacuous_tests :
  map (fun j => test_variant ex_L 4 j (encode ex_L ex_some_s)) [0; 1] = [false; true] /\
  map (fun j => test_variant ex_L 5 j (encode ex_L ex_some_none)) [0; 1] = [false; true] /\
  map (fun j => test_variant ex_L 3 j (encode ex_L ex_q_x)) [0; 1] = [false; true] /\
  map (fun j => test_variant ex_L 6 j (encode ex_L ex_only_j)) [0] = [true] /\
  map (fun j => test_variant_emitted ex_L 8 j (encode ex_L ex_rgt)) [0; 1] = [Some false; Some true].
Proof. vm_compute. repeat split; reflexivity. Qed.

(* the dump check accepts the environment of Examples.v and rejects the old-rule layouts
   (Nat self recursion; B of the mutual recursion), an unboxed Option<Option<S>> and a
   forgotten revert; a repeated id is rejected as well *)
Example C01_nonvacuous_check_dump :
  check_dump ex_E ex_Ls = true /\
  check_dump bad_nat_E bad_nat_Ls = false /\
  check_dump [(nat_id, DEnum nat_variants)] [(nat_id, [RInt31; RUnboxed nat_id])] = false /\
  check_dump bad_ab_E bad_ab_Ls = false /\
  check_dump opt_E good_optopt_Ls = true /\ check_dump opt_E bad_optopt_Ls = false /\
  check_dump two_E good_two_data_Ls = true /\ check_dump two_E bad_two_data_Ls = false /\
  check_dump (ex_E ++ [(0, DStruct [])]) ex_Ls = false.
Proof. vm_compute. repeat split; reflexivity. Qed.

Print Assumptions C01_choose_layout_spec.
Print Assumptions C01_choose_layout_with_spec.
Print Assumptions C01_discriminate_correct.
Print Assumptions C01_emitted_test_correct.
Print Assumptions C01_encode_injective.
Print Assumptions C01_unfinished_rule_needed.
Print Assumptions C01_unfinished_rule_needed_mutual.
Print Assumptions C01_wf_layoutsb_sound.
Print Assumptions C01_discriminate_correct_checked.
Print Assumptions C01_emitted_test_correct_checked.
Print Assumptions C01_encode_injective_checked.
