(* C01 — source-level typing of values and well-formedness of the final enum layouts.
   Definitions only. *)
From Coq Require Import List Arith Bool ZArith.
From SV Require Import C01.Model.
Import ListNotations.

Section Typing.
  Variable defs : nat -> option tdef.      (* source type definitions, one id per instance *)

  Inductive has_type : val -> ty -> Prop :=
  | HT_int : forall z, has_type (VInt z) TInt
  | HT_str : forall s, has_type (VStr s) TStr
  | HT_struct : forall n fs tys,
      defs n = Some (DStruct tys) ->
      Forall2 has_type fs tys ->
      has_type (VStruct n fs) (TId n)
  | HT_enum : forall e k args vs tys,
      defs e = Some (DEnum vs) ->
      nth_error vs k = Some tys ->
      Forall2 has_type args tys ->
      has_type (VEnum e k args) (TId e).
End Typing.

(* [L] is the final layout of every enum.  Each enum's layout was decided by the loop against
   some snapshot [fin] of what was finished at that moment:
   - the enum itself was not finished (it is registered, its layout is being decided);
   - whatever the snapshot said about another type is the truth about that type. *)
Definition wf_layouts (defs : nat -> option tdef) (L : nat -> list vrepr) : Prop :=
  forall e vs, defs e = Some (DEnum vs) ->
  exists fin,
    L e = layout_spec fin vs /\
    fin e = None /\
    forall n,
      (fin n = Some KStruct -> exists tys, defs n = Some (DStruct tys)) /\
      (forall ls, fin n = Some (KEnum ls) -> ls = L n /\ exists vs', defs n = Some (DEnum vs')).
