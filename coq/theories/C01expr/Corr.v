(* C01 (expression-lowering slice) - definitions evaluated with vm_compute on the cases printed by
   `vh hirexpr-dump` (checks/c01_expr.py), and the witnesses of the refutations in Props.v. *)
From Coq Require Import ZArith NArith List Bool.
Import ListNotations.
From SV Require Import Common.Int32 C01expr.Syntax C01expr.SrcSem C01expr.HirSem C01expr.Lower.

(* ------------------------------------------------------------------ syntactic equality *)
Fixpoint list_eqb {A} (eq : A -> A -> bool) (a b : list A) : bool :=
  match a, b with
  | [], [] => true
  | x :: r, y :: r' => eq x y && list_eqb eq r r'
  | _, _ => false
  end.
Definition fname_eqb (a b : fname) : bool :=
  match a, b with
  | FUser x, FUser y => N.eqb x y
  | FInit x, FInit y => N.eqb x y
  | FConcat, FConcat => true
  | FLam x, FLam y => N.eqb x y
  | FPanic, FPanic => true
  | _, _ => false
  end.
Definition hexpr_eqb (a b : hexpr) : bool :=
  match a, b with
  | HInt x, HInt y => Z.eqb x y
  | HI31, HI31 => true
  | HStr x, HStr y => list_eqb N.eqb x y
  | HVar x, HVar y => N.eqb x y
  | _, _ => false
  end.
Definition binop_eqb (a b : binop) : bool :=
  match a, b with
  | MUL, MUL | DIV, DIV | MOD, MOD | PLUS, PLUS | MINUS, MINUS | LAND, LAND | LOR, LOR | SHL, SHL | SHR, SHR
  | XOR, XOR | LT, LT | LE, LE | GT, GT | GE, GE | EQ, EQ | NE, NE => true
  | _, _ => false
  end.
Definition optname_eqb (a b : option name) : bool :=
  match a, b with Some x, Some y => N.eqb x y | None, None => true | _, _ => false end.
Definition fas_eqb (a b : name * hexpr * hexpr) : bool :=
  N.eqb (fst (fst a)) (fst (fst b)) && hexpr_eqb (snd (fst a)) (snd (fst b)) && hexpr_eqb (snd a) (snd b).
Definition hcallee_eqb (a b : hcallee) : bool :=
  match a, b with
  | HCFn f, HCFn g => fname_eqb f g
  | HCVar x, HCVar y => N.eqb x y
  | _, _ => false
  end.

Fixpoint hstmt_eqb (a b : hstmt) {struct a} : bool :=
  let fix go (x y : list hstmt) : bool :=
    match x, y with
    | [], [] => true
    | s :: r, s' :: r' => hstmt_eqb s s' && go r r'
    | _, _ => false
    end in
  match a, b with
  | HBin x op e1 e2, HBin x' op' e1' e2' => N.eqb x x' && binop_eqb op op' && hexpr_eqb e1 e1' && hexpr_eqb e2 e2'
  | HNot x e, HNot x' e' => N.eqb x x' && hexpr_eqb e e'
  | HCall c args ret, HCall c' args' ret' => hcallee_eqb c c' && list_eqb hexpr_eqb args args' && optname_eqb ret ret'
  | HIf c s1 s2 fas, HIf c' s1' s2' fas' => hexpr_eqb c c' && go s1 s1' && go s2 s2' && list_eqb fas_eqb fas fas'
  | HIndex x e i, HIndex x' e' i' => N.eqb x x' && hexpr_eqb e e' && Nat.eqb i i'
  | HDecl x, HDecl x' => N.eqb x x'
  | HAssign x e, HAssign x' e' => N.eqb x x' && hexpr_eqb e e'
  | HClosure x f e, HClosure x' f' e' => N.eqb x x' && fname_eqb f f' && hexpr_eqb e e'
  | HStruct x es, HStruct x' es' => N.eqb x x' && list_eqb hexpr_eqb es es'
  | HDestr e t bs s1 s2 fas, HDestr e' t' bs' s1' s2' fas' =>
      hexpr_eqb e e' && Nat.eqb t t' && list_eqb optname_eqb bs bs' && go s1 s1' && go s2 s2' && list_eqb fas_eqb fas fas'
  | HUnreachable, HUnreachable => true
  | _, _ => false
  end.
Definition hstmts_eqb : list hstmt -> list hstmt -> bool := list_eqb hstmt_eqb.

(* ------------------------------------------------------------------ names *)
(* checks/c01_expr.py numbers the names: a temporary `_t<K>` is 2K+1, every other name is even *)
Definition tmp_at (d : nat) (k : nat) : name := (2 * N.of_nat (d + k) + 1)%N.
Definition is_tmp (x : name) : bool := N.odd x.
Definition tmp_index (x : name) : nat := N.to_nat (N.div2 x).

(* the temporary indices that occur (defined or used), sorted, without duplicates *)
Fixpoint ins (k : nat) (l : list nat) : list nat :=
  match l with
  | [] => [k]
  | x :: t => if Nat.ltb k x then k :: l else if Nat.eqb k x then l else x :: ins k t
  end.
Definition ins_name (x : name) (l : list nat) : list nat := if is_tmp x then ins (tmp_index x) l else l.
Definition ins_expr (e : hexpr) (l : list nat) : list nat := match e with HVar x => ins_name x l | _ => l end.
Fixpoint ins_stmt (s : hstmt) (l : list nat) {struct s} : list nat :=
  let fix go (ss : list hstmt) (l : list nat) : list nat := match ss with [] => l | s :: t => go t (ins_stmt s l) end in
  match s with
  | HBin x _ e1 e2 => ins_name x (ins_expr e1 (ins_expr e2 l))
  | HNot x e => ins_name x (ins_expr e l)
  | HCall c args ret =>
      let l := match c with HCVar x => ins_name x l | _ => l end in
      let l := fold_right ins_expr l args in
      match ret with Some x => ins_name x l | None => l end
  | HIf c s1 s2 fas =>
      fold_right (fun (fa : name * hexpr * hexpr) l => ins_name (fst (fst fa)) (ins_expr (snd (fst fa)) (ins_expr (snd fa) l)))
                 (go s2 (go s1 (ins_expr c l))) fas
  | HIndex x e _ => ins_name x (ins_expr e l)
  | HDecl x => ins_name x l
  | HAssign x e => ins_name x (ins_expr e l)
  | HClosure x _ e => ins_name x (ins_expr e l)
  | HStruct x es => ins_name x (fold_right ins_expr l es)
  | HDestr e _ bs s1 s2 fas =>
      fold_right (fun (fa : name * hexpr * hexpr) l => ins_name (fst (fst fa)) (ins_expr (snd (fst fa)) (ins_expr (snd fa) l)))
                 (go s2 (go s1 (fold_right (fun (b : option name) l => match b with Some x => ins_name x l | None => l end) (ins_expr e l) bs))) fas
  | HUnreachable => l
  end.
Definition temps_of (ss : list hstmt) (r : hexpr) : list nat := fold_right ins_stmt (ins_expr r []) ss.

Fixpoint index_of (k : nat) (l : list nat) : option nat :=
  match l with
  | [] => None
  | x :: t => if Nat.eqb k x then Some O else match index_of k t with Some i => Some (S i) | None => None end
  end.

(* The supply.  `Heap::alloc_temp_str` names a temporary after the size of the heap's string table, so the indices
   of one body increase in the order of allocation but need not be consecutive (interning any new string in
   between - a synthesized type name, a folded string literal - skips one), and a temporary that is drawn and never
   used (the collector of a unit call, the temporary of a shortcut && / ||) leaves no trace.  Hence: the temporaries
   that OCCUR in the model output (run from a dummy supply) are matched, in increasing order, with those that occur
   in the real statements; the others get fresh names above both. *)
Definition supply (ms rs : list nat) (k : nat) : name :=
  match index_of k ms with
  | Some i => match nth_error rs i with Some r => tmp_at 0 r | None => tmp_at (S (last rs O) + S (last ms O)) k end
  | None => tmp_at (S (last rs O) + S (last ms O)) k
  end.

Definition b2n (b : bool) : N := if b then 1%N else 0%N.

(* ------------------------------------------------------------------ the tie: Lower == real HIR *)
(* One function body: the HIR parameters, the source expression of the body, the real statements and return
   expression.
   row = [ model /= real ; no let rebinds a visible name (Syntax.ns) ; number of temporaries the model draws ;
           number of temporaries that occur ] *)
Definition fcase := (list name * expr * list hstmt * hexpr)%type.

Definition model_with (ver : version) (c : fcase) : list hstmt * hexpr * nat * nat :=
  let '(params, body, real_s, real_r) := c in
  let '(m0_s, m0_r, _) := lower_body ver (tmp_at 0) params body in
  let ms := temps_of m0_s m0_r in
  let rs := temps_of real_s real_r in
  let '(m_s, m_r, n) := lower_body ver (supply ms rs) params body in
  (m_s, m_r, n, length ms).

Definition tie_fn_with (ver : version) (c : fcase) : list N :=
  let '(params, body, real_s, real_r) := c in
  let '(m_s, m_r, n, k) := model_with ver c in
  [ b2n (negb (hstmts_eqb m_s real_s && hexpr_eqb m_r real_r));
    b2n (nsB params body);
    N.of_nat n;
    N.of_nat k ].
Definition tie_fn := tie_fn_with Pinned.
Definition tie_fns (cs : list fcase) : list (list N) := map tie_fn cs.
(* the same against the model of the seeded change (used when a body disagrees: which version does the tree implement?) *)
Definition tie_fns_seeded7 (cs : list fcase) : list (list N) := map (tie_fn_with Seeded7) cs.

(* One synthetic function of a lambda: captured names (order of the map), the lambda's parameters, its body; the real
   parameters, statements and result of the synthetic function.
   row = [ model /= real ; no let of the body rebinds a parameter or a captured name ; temporaries drawn ; that occur ] *)
Definition lcase := (list name * list name * expr * list name * list hstmt * hexpr)%type.
Definition lmodel_with (ver : version) (c : lcase) : list name * list hstmt * hexpr * nat * nat :=
  let '(caps, params, body, real_p, real_s, real_r) := c in
  let '(_, m0_s, m0_r, _) := lambda_fn ver (tmp_at 0) caps params body 0 in
  let ms := temps_of m0_s m0_r in
  let rs := temps_of real_s real_r in
  let '(m_p, m_s, m_r, n) := lambda_fn ver (supply ms rs) caps params body 0 in
  (m_p, m_s, m_r, n, length ms).
Definition tie_lambda (c : lcase) : list N :=
  let '(caps, params, body, real_p, real_s, real_r) := c in
  let '(m_p, m_s, m_r, n, k) := lmodel_with Pinned c in
  [ b2n (negb (list_eqb N.eqb m_p real_p && hstmts_eqb m_s real_s && hexpr_eqb m_r real_r));
    b2n (nsB (params ++ caps) body);
    N.of_nat n;
    N.of_nat k ].
Definition tie_lambdas (cs : list lcase) : list (list N) := map tie_lambda cs.
Definition lmodel_of (c : lcase) : list name * list hstmt * hexpr := fst (fst (lmodel_with Pinned c)).

(* what the model produces (printed by the check next to a disagreement) *)
Definition model_of (c : fcase) : list hstmt * hexpr * nat := fst (model_with Pinned c).

(* ------------------------------------------------------------------ sanity evaluation: SrcSem of the body vs HirSem of the REAL statements *)
(* kinds of values (from the source types, printed by the dump), used to build environments and worlds whose
   answers have the shape the program expects *)
Inductive kind := KInt | KBool | KUnit | KStr | KFn | KRef | KStruct (ks : list kind) | KEnum (vs : list (list kind)).

Fixpoint value_of (k : kind) (h : N) {struct k} : value :=
  match k with
  | KInt => VInt (Z.of_N (h mod 7) - 3)
  | KBool => VInt (Z.of_N (h mod 2))
  | KUnit => VInt 0
  | KStr => VStr [(97 + h mod 3)%N]
  | KFn => VClo (FUser 0%N) (VInt (Z.of_N (h mod 5)))
  | KRef => VRef h
  | KStruct ks =>
      VStruct ((fix go (l : list kind) (i : N) : list value :=
                  match l with [] => [] | k :: t => value_of k (h * 31 + i)%N :: go t (i + 1)%N end) ks 1%N)
  | KEnum vs =>
      match vs with
      | [] => VRef h
      | _ =>
          let t := N.to_nat (h mod N.of_nat (length vs)) in
          VVariant t ((fix pick (l : list (list kind)) (j : nat) : list value :=
                         match l with
                         | [] => []
                         | ks :: r =>
                             if Nat.eqb j t then
                               (fix go (l : list kind) (i : N) : list value :=
                                  match l with [] => [] | k :: t' => value_of k (h * 37 + i)%N :: go t' (i + 1)%N end) ks 1%N
                             else pick r (S j)
                         end) vs O)
      end
  end.

Fixpoint value_eqb (a b : value) {struct a} : bool :=
  let fix go (x y : list value) : bool :=
    match x, y with
    | [], [] => true
    | s :: r, s' :: r' => value_eqb s s' && go r r'
    | _, _ => false
    end in
  match a, b with
  | VInt x, VInt y => Z.eqb x y
  | VStr x, VStr y => list_eqb N.eqb x y
  | VStruct xs, VStruct ys => go xs ys
  | VVariant t xs, VVariant t' ys => Nat.eqb t t' && go xs ys
  | VClo f x, VClo g y => fname_eqb f g && value_eqb x y
  | VRef x, VRef y => N.eqb x y
  | _, _ => false
  end.
Definition event_eqb (a b : event) : bool := fname_eqb (fst a) (fst b) && list_eqb value_eqb (snd a) (snd b).
Definition trace_eqb : trace -> trace -> bool := list_eqb event_eqb.

(* a world from a table (function -> kind of its result; None = does not return), a default kind, and a salt:
   the answer depends on the function and on the length of the history, so that repeated calls differ *)
Definition assocN {A} (x : N) (l : list (N * A)) : option A :=
  match find (fun p => N.eqb x (fst p)) l with Some p => Some (snd p) | None => None end.
Definition table_world (tab : list (N * option kind)) (salt : N) : world :=
  fun tr f vs =>
    match f with
    | FUser g =>
        match assocN g tab with
        | Some None => None
        | Some (Some k) => Some (value_of k (salt + 3 * g + 7 * N.of_nat (length tr))%N)
        | None => Some (value_of KInt (salt + 3 * g + 7 * N.of_nat (length tr))%N)
        end
    | FLam g => Some (value_of KInt (salt + 5 * g + 7 * N.of_nat (length tr))%N)
    | _ => None
    end.

Definition env_of (params : list (name * kind)) (salt : N) : name -> option value :=
  fold_left (fun r pk => upd r (fst pk) (Some (value_of (snd pk) (salt * 13 + fst pk)%N))) params (fun _ => None).

(* 0 = both give the same value and trace; 1 = both end the same way (trap / abort) with the same trace;
   2 = the source run is stuck (nothing claimed); 3 = DISAGREE *)
Definition cmp_sres (a b : sres) : N :=
  match a, b with
  | SFail FStuck, _ => 2%N
  | SVal v tr, SVal v' tr' => if value_eqb v v' && trace_eqb tr tr' then 0%N else 3%N
  | SFail (FTrap tr), SFail (FTrap tr') => if trace_eqb tr tr' then 1%N else 3%N
  | SFail (FAbort tr), SFail (FAbort tr') => if trace_eqb tr tr' then 1%N else 3%N
  | _, _ => 3%N
  end.

Definition countN (l : list N) (k : N) : N := N.of_nat (length (filter (N.eqb k) l)).

(* One body: typed parameters, the source body, the real statements and result, the world table; salts.
   row = [ agree on a value ; agree on a trap / abort ; source stuck ; DISAGREE ] *)
Definition scase := (list (name * kind) * expr * list hstmt * hexpr * list (N * option kind))%type.
Definition sanity_fn (salts : list N) (c : scase) : list N :=
  let '(params, body, real_s, real_r, tab) := c in
  let rows := map (fun salt =>
                     let w := table_world tab salt in
                     let r := env_of params salt in
                     cmp_sres (seval w true r body []) (run_lowered w real_s real_r r [])) salts in
  [countN rows 0; countN rows 1; countN rows 2; countN rows 3].
Definition sanity_fns (salts : list N) (cs : list scase) : list (list N) := map (sanity_fn salts) cs.

(* ------------------------------------------------------------------ witnesses (Props.v) *)
(* source variables 2, 4, ..; temporaries 101, 103, .. *)
Definition tmp0 (k : nat) : name := (101 + 2 * N.of_nat k)%N.
Definition w_one : world := fun _ _ _ => Some (VInt 1).
Definition call0 (f : N) : expr := ECallM EClass (FUser f) ENil false.
Definition env_x (v : value) : name -> option value := fun y => if N.eqb y 2 then Some v else None.

(* seeded change C01-7: `x && (f() || true)` - the right operand has the constant value true and an effect *)
Definition e_seeded7 : expr := EAnd (EVar 2) (EOr (call0 1) (EBool true)).
(* receiver with an effect, then an argument with an effect: f1().f2(f3()) *)
Definition e_order : expr := ECallM (call0 1) (FUser 2) (ECons (call0 3) ENil) false.
(* `{ let x = 1; { let x = 2; if true { 0 } else { 0 } }; x }`: the inner block rebinds x, the constant condition
   leaves a scope on the stack, the pop of the inner block removes that one, and the outer `x` reads the inner x *)
Definition e_rebind : expr :=
  EBlock (BLet (Some 2%N) (EInt 1)
         (BExp (EBlock (BLet (Some 2%N) (EInt 2) (BEndE (EIf (EBool true) (EBlock (BEndE (EInt 0))) (EBlock (BEndE (EInt 0)))))))
         (BEndE (EVar 2)))).
(* every form of the fragment at once *)
Definition e_rich : expr :=
  EBlock (BLet (Some 4%N) (ETuple 9 (ECons (EBin PLUS (EVar 2) (EInt 3)) (ECons (EConcat (EStr [97%N]) (EStr [98%N])) ENil)))
         (BLet None (ECallM EClass (FUser 5) (ECons (EConcat (EField (EVar 4) 1) (EStr [99%N])) ENil) true)
         (BExp (ECallC (EMethod (EVar 4) (FUser 6)) (ECons (EUn UNeg (EField (EVar 4) 0)) ENil) false)
         (BEndE (EIf (EOr (EAnd (EBin LT (EVar 2) (EInt 0)) (call0 7)) (EUn UNot (call0 8)))
                     (EBlock (BEndE (EBin DIV (EInt 10) (EVar 2))))
                     (EIf (EBool false) (EBlock BEndU) (EBlock (BEndE (EInt 7))))))))).
(* `{ let (a, _, b) = (x, f(), x + 1); a - b }`, a = 4, b = 6 *)
Definition e_tuplelet : expr :=
  EBlock (BLetT [4%N; 6%N] [Some 4%N; None; Some 6%N]
                (ETuple 9 (ECons (EVar 2) (ECons (call0 1) (ECons (EBin PLUS (EVar 2) (EInt 1)) ENil))))
                (BEndE (EBin MINUS (EVar 4) (EVar 6)))).
(* `{ let f = (y) -> y + x; f(3) }`: x (2) captured, y = 8, f = 10, the lambda is number 1 *)
Definition e_lambda : expr :=
  EBlock (BLet (Some 10%N) (ELambda 1 [2%N] [8%N] (EBin PLUS (EVar 8) (EVar 2)))
         (BEndE (ECallC (EVar 10) (ECons (EInt 3) ENil) false))).
(* a world that answers a call of the synthetic function 1 by running the model's synthetic function *)
Definition w_lam : world := fun tr f vs =>
  match f, vs with
  | FLam 1, [ctx; a] =>
      let '(ps, ss, re, _) := lambda_fn Pinned tmp0 [2%N] [8%N] (EBin PLUS (EVar 8) (EVar 2)) 50 in
      match run_lowered (fun _ _ _ => None) ss re (upd (upd (fun _ => None) this_name (Some ctx)) 8%N (Some a)) [] with
      | SVal v _ => Some v
      | _ => None
      end
  | _, _ => None
  end.
(* `{ let (a, V1(c)) = x; match a { V0(d) -> if let V0(e) = a { d + e + c } else { 0 }, _ -> f1() } }`
   a = 4, c = 6, d = 8, e = 10 *)
Definition e_pat : expr :=
  EBlock (BLetP (PTuple [PVar 4%N; PVariant 1 [PVar 6%N]]) [4%N; 6%N] (EVar 2)
         (BEndE (EMatch (EVar 4)
                   (ACons (PVariant 0 [PVar 8%N]) [8%N]
                          (EIfLet (PVariant 0 [PVar 10%N]) [10%N] (EVar 4)
                                  (EBlock (BEndE (EBin PLUS (EBin PLUS (EVar 8) (EVar 10)) (EVar 6))))
                                  (EBlock (BEndE (EInt 0))))
                   (ACons PWild [] (call0 1) ANil))))).
Definition v_pat (tag : nat) : value := VStruct [VVariant tag [VInt 3]; VVariant 1 [VInt 9]].
Definition run_body (ver : version) (w : world) (params : list name) (body : expr) (r : name -> option value) : sres :=
  let '(ss, re, _) := lower_body ver tmp0 params body in run_lowered w ss re r [].

(* ------------------------------------------------------------------ lambdas whose ClosureInit is dropped *)
(* the numbers of the lambdas whose ClosureInit survives in the statements, in statement order: the check numbers the
   lambdas of a body provisionally, asks which survive, and pairs those with the real ClosureInit statements (a lambda
   in a dead operand of && / || is lowered - its synthetic function exists - but its statements are dropped) *)
Fixpoint closure_ids_s (s : hstmt) : list N :=
  let fix go (l : list hstmt) : list N := match l with [] => [] | x :: t => closure_ids_s x ++ go t end in
  match s with
  | HClosure _ (FLam l) _ => [l]
  | HIf _ s1 s2 _ => go s1 ++ go s2
  | HDestr _ _ _ s1 s2 _ => go s1 ++ go s2
  | _ => []
  end.
Definition closure_ids (ss : list hstmt) : list N := flat_map closure_ids_s ss.
Definition surviving (c : list name * expr) : list N :=
  let '(params, body) := c in closure_ids (fst (fst (lower_body Pinned (tmp_at 0) params body))).
