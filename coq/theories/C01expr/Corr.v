(* C01 (expression-lowering slice) - definitions evaluated with vm_compute on the cases printed by
   `vh hirexpr-dump` (checks/c01_expr.py), and the witnesses of the refutations in Props.v. *)
From Coq Require Import ZArith NArith List Bool.
Import ListNotations.
From SV Require Import Common.Int32 C01expr.Syntax C01expr.SrcSem C01expr.HirSem C01expr.Lower.

(* ------------------------------------------------------------------ syntactic equality *)
Fixpoint list_eqb {A} (eq : A -> A -> bool) (a b : list A) : bool :=
  match a, b with
  | [], [] => true
  | x :: r, y :: r' => eq x y && list_eqb eq r r'
  | _, _ => false
  end.
Definition fname_eqb (a b : fname) : bool :=
  match a, b with
  | FUser x, FUser y => N.eqb x y
  | FInit x, FInit y => N.eqb x y
  | FConcat, FConcat => true
  | _, _ => false
  end.
Definition hexpr_eqb (a b : hexpr) : bool :=
  match a, b with
  | HInt x, HInt y => Z.eqb x y
  | HI31, HI31 => true
  | HStr x, HStr y => list_eqb N.eqb x y
  | HVar x, HVar y => N.eqb x y
  | _, _ => false
  end.
Definition binop_eqb (a b : binop) : bool :=
  match a, b with
  | MUL, MUL | DIV, DIV | MOD, MOD | PLUS, PLUS | MINUS, MINUS | LAND, LAND | LOR, LOR | SHL, SHL | SHR, SHR
  | XOR, XOR | LT, LT | LE, LE | GT, GT | GE, GE | EQ, EQ | NE, NE => true
  | _, _ => false
  end.
Definition optname_eqb (a b : option name) : bool :=
  match a, b with Some x, Some y => N.eqb x y | None, None => true | _, _ => false end.
Definition fas_eqb (a b : name * hexpr * hexpr) : bool :=
  N.eqb (fst (fst a)) (fst (fst b)) && hexpr_eqb (snd (fst a)) (snd (fst b)) && hexpr_eqb (snd a) (snd b).
Definition hcallee_eqb (a b : hcallee) : bool :=
  match a, b with
  | HCFn f, HCFn g => fname_eqb f g
  | HCVar x, HCVar y => N.eqb x y
  | _, _ => false
  end.

Fixpoint hstmt_eqb (a b : hstmt) {struct a} : bool :=
  let fix go (x y : list hstmt) : bool :=
    match x, y with
    | [], [] => true
    | s :: r, s' :: r' => hstmt_eqb s s' && go r r'
    | _, _ => false
    end in
  match a, b with
  | HBin x op e1 e2, HBin x' op' e1' e2' => N.eqb x x' && binop_eqb op op' && hexpr_eqb e1 e1' && hexpr_eqb e2 e2'
  | HNot x e, HNot x' e' => N.eqb x x' && hexpr_eqb e e'
  | HCall c args ret, HCall c' args' ret' => hcallee_eqb c c' && list_eqb hexpr_eqb args args' && optname_eqb ret ret'
  | HIf c s1 s2 fas, HIf c' s1' s2' fas' => hexpr_eqb c c' && go s1 s1' && go s2 s2' && list_eqb fas_eqb fas fas'
  | HIndex x e i, HIndex x' e' i' => N.eqb x x' && hexpr_eqb e e' && Nat.eqb i i'
  | HDecl x, HDecl x' => N.eqb x x'
  | HAssign x e, HAssign x' e' => N.eqb x x' && hexpr_eqb e e'
  | HClosure x f e, HClosure x' f' e' => N.eqb x x' && fname_eqb f f' && hexpr_eqb e e'
  | HUnreachable, HUnreachable => true
  | _, _ => false
  end.
Definition hstmts_eqb : list hstmt -> list hstmt -> bool := list_eqb hstmt_eqb.

(* ------------------------------------------------------------------ names *)
(* checks/c01_expr.py numbers the names: a temporary `_t<K>` is 2K+1, every other name is even *)
Definition tmp_at (d : nat) (k : nat) : name := (2 * N.of_nat (d + k) + 1)%N.
Definition is_tmp (x : name) : bool := N.odd x.
Definition tmp_index (x : name) : nat := N.to_nat (N.div2 x).

(* smallest temporary index that occurs (defined or used) *)
Definition omin (a b : option nat) : option nat :=
  match a, b with
  | Some x, Some y => Some (Nat.min x y)
  | Some x, None | None, Some x => Some x
  | None, None => None
  end.
Definition mt_name (x : name) : option nat := if is_tmp x then Some (tmp_index x) else None.
Definition mt_expr (e : hexpr) : option nat := match e with HVar x => mt_name x | _ => None end.
Definition mt_list {A} (f : A -> option nat) (l : list A) : option nat := fold_right (fun a acc => omin (f a) acc) None l.
Fixpoint mt_stmt (s : hstmt) : option nat :=
  let fix go (l : list hstmt) : option nat := match l with [] => None | s :: t => omin (mt_stmt s) (go t) end in
  match s with
  | HBin x _ e1 e2 => omin (mt_name x) (omin (mt_expr e1) (mt_expr e2))
  | HNot x e => omin (mt_name x) (mt_expr e)
  | HCall c args ret =>
      omin (match c with HCVar x => mt_name x | _ => None end)
           (omin (mt_list mt_expr args) (match ret with Some x => mt_name x | None => None end))
  | HIf c s1 s2 fas =>
      omin (mt_expr c) (omin (go s1) (omin (go s2)
        (mt_list (fun fa : name * hexpr * hexpr => omin (mt_name (fst (fst fa))) (omin (mt_expr (snd (fst fa))) (mt_expr (snd fa)))) fas)))
  | HIndex x e _ => omin (mt_name x) (mt_expr e)
  | HDecl x => mt_name x
  | HAssign x e => omin (mt_name x) (mt_expr e)
  | HClosure x _ e => omin (mt_name x) (mt_expr e)
  | HUnreachable => None
  end.
Definition mt_body (ss : list hstmt) (r : hexpr) : option nat := omin (mt_list mt_stmt ss) (mt_expr r).

Definition b2n (b : bool) : N := if b then 1%N else 0%N.

(* ------------------------------------------------------------------ the tie: Lower == real HIR *)
(* One function body: the HIR parameters, the source expression of the body, the real statements and return
   expression.  The temporaries of one body are consecutive `_t<K>`; where the run starts is not visible from outside
   (a first temporary may be drawn and never used), so the base is found from the smallest index that occurs: once
   in the model run from base 0, once in the real statements.
   row = [ model /= real ; no let rebinds a visible name (Syntax.ns) ; number of temporaries the model draws ;
           base ] *)
Definition fcase := (list name * expr * list hstmt * hexpr)%type.

Definition tie_fn_with (ver : version) (c : fcase) : list N :=
  let '(params, body, real_s, real_r) := c in
  let '(m0_s, m0_r, _) := lower_body ver (tmp_at 0) params body in
  let d := match mt_body m0_s m0_r, mt_body real_s real_r with
           | Some k, Some K => (K - k)%nat
           | _, _ => O
           end in
  let '(m_s, m_r, n) := lower_body ver (tmp_at d) params body in
  [ b2n (negb (hstmts_eqb m_s real_s && hexpr_eqb m_r real_r));
    b2n (nsB params body);
    N.of_nat n;
    N.of_nat d ].
Definition tie_fn := tie_fn_with Pinned.
Definition tie_fns (cs : list fcase) : list (list N) := map tie_fn cs.
(* the same against the model of the seeded change (used by the sensitivity run: which version does the tree implement?) *)
Definition tie_fns_seeded7 (cs : list fcase) : list (list N) := map (tie_fn_with Seeded7) cs.

(* what the model produces (printed by the check next to a disagreement) *)
Definition model_of (c : fcase) : list hstmt * hexpr * nat :=
  let '(params, body, real_s, real_r) := c in
  let '(m0_s, m0_r, _) := lower_body Pinned (tmp_at 0) params body in
  let d := match mt_body m0_s m0_r, mt_body real_s real_r with
           | Some k, Some K => (K - k)%nat
           | _, _ => O
           end in
  lower_body Pinned (tmp_at d) params body.

(* ------------------------------------------------------------------ sanity evaluation: SrcSem of the body vs HirSem of the REAL statements *)
(* kinds of values (from the source types, printed by the dump), used to build environments and worlds whose
   answers have the shape the program expects *)
Inductive kind := KInt | KBool | KUnit | KStr | KFn | KRef | KStruct (ks : list kind).

Fixpoint value_of (k : kind) (h : N) {struct k} : value :=
  match k with
  | KInt => VInt (Z.of_N (h mod 7) - 3)
  | KBool => VInt (Z.of_N (h mod 2))
  | KUnit => VInt 0
  | KStr => VStr [(97 + h mod 3)%N]
  | KFn => VClo (FUser 0%N) (VInt (Z.of_N (h mod 5)))
  | KRef => VRef h
  | KStruct ks =>
      VStruct ((fix go (l : list kind) (i : N) : list value :=
                  match l with [] => [] | k :: t => value_of k (h * 31 + i)%N :: go t (i + 1)%N end) ks 1%N)
  end.

Fixpoint value_eqb (a b : value) {struct a} : bool :=
  let fix go (x y : list value) : bool :=
    match x, y with
    | [], [] => true
    | s :: r, s' :: r' => value_eqb s s' && go r r'
    | _, _ => false
    end in
  match a, b with
  | VInt x, VInt y => Z.eqb x y
  | VStr x, VStr y => list_eqb N.eqb x y
  | VStruct xs, VStruct ys => go xs ys
  | VClo f x, VClo g y => fname_eqb f g && value_eqb x y
  | VRef x, VRef y => N.eqb x y
  | _, _ => false
  end.
Definition event_eqb (a b : event) : bool := fname_eqb (fst a) (fst b) && list_eqb value_eqb (snd a) (snd b).
Definition trace_eqb : trace -> trace -> bool := list_eqb event_eqb.

(* a world from a table (function -> kind of its result; None = does not return), a default kind, and a salt:
   the answer depends on the function and on the length of the history, so that repeated calls differ *)
Definition assocN {A} (x : N) (l : list (N * A)) : option A :=
  match find (fun p => N.eqb x (fst p)) l with Some p => Some (snd p) | None => None end.
Definition table_world (tab : list (N * option kind)) (salt : N) : world :=
  fun tr f vs =>
    match f with
    | FUser g =>
        match assocN g tab with
        | Some None => None
        | Some (Some k) => Some (value_of k (salt + 3 * g + 7 * N.of_nat (length tr))%N)
        | None => Some (value_of KInt (salt + 3 * g + 7 * N.of_nat (length tr))%N)
        end
    | _ => None
    end.

Definition env_of (params : list (name * kind)) (salt : N) : name -> option value :=
  fold_left (fun r pk => upd r (fst pk) (Some (value_of (snd pk) (salt * 13 + fst pk)%N))) params (fun _ => None).

(* 0 = both give the same value and trace; 1 = both end the same way (trap / abort) with the same trace;
   2 = the source run is stuck (nothing claimed); 3 = DISAGREE *)
Definition cmp_sres (a b : sres) : N :=
  match a, b with
  | SFail FStuck, _ => 2%N
  | SVal v tr, SVal v' tr' => if value_eqb v v' && trace_eqb tr tr' then 0%N else 3%N
  | SFail (FTrap tr), SFail (FTrap tr') => if trace_eqb tr tr' then 1%N else 3%N
  | SFail (FAbort tr), SFail (FAbort tr') => if trace_eqb tr tr' then 1%N else 3%N
  | _, _ => 3%N
  end.

Definition countN (l : list N) (k : N) : N := N.of_nat (length (filter (N.eqb k) l)).

(* One body: typed parameters, the source body, the real statements and result, the world table; salts.
   row = [ agree on a value ; agree on a trap / abort ; source stuck ; DISAGREE ] *)
Definition scase := (list (name * kind) * expr * list hstmt * hexpr * list (N * option kind))%type.
Definition sanity_fn (salts : list N) (c : scase) : list N :=
  let '(params, body, real_s, real_r, tab) := c in
  let rows := map (fun salt =>
                     let w := table_world tab salt in
                     let r := env_of params salt in
                     cmp_sres (seval w true r body []) (run_lowered w real_s real_r r [])) salts in
  [countN rows 0; countN rows 1; countN rows 2; countN rows 3].
Definition sanity_fns (salts : list N) (cs : list scase) : list (list N) := map (sanity_fn salts) cs.
