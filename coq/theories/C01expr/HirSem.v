(* C01 (expression-lowering slice) - executable semantics of the HIR fragment (Syntax.hstmt) over the values,
   world and traces of SrcSem.v.  No fuel: the fragment has no loops, and calls are answered by the world.

   DECISIONS (those of C01pat/Sem.v and C01mir/Sem.v where they overlap)
   * the environment is flat (function-level, as in the WebAssembly lowering): a name assigned inside a branch of
     an IfElse stays assigned.  A name that holds nothing (never assigned, or only declared by
     LateInitDeclaration) cannot be read: FStuck.
   * IntLiteral z is `VInt z`, Int31Zero is `VInt 0`, StringName is the string it names.
   * the condition of an IfElse: 0 is false, anything else is true (htruth); a ConditionalDestructure needs an enum
     value with at least as many payload fields as bindings; Not is defined on 0 and 1; Binary on two ints (rt_binop, traps as
     in SrcSem); IndexedAccess on a struct value that has the field.
   * Call of a function name: the argument values in order, then SrcSem.call_named (world / init / concat); Call of
     a variable: it must hold a function value, whose context is passed first (SrcSem.apply_value).  The returned
     value goes to the return collector if there is one.
   * final assignments of an IfElse are evaluated after the chosen branch, in the environment it leaves. *)
From Coq Require Import ZArith NArith List Bool.
Import ListNotations.
From SV Require Import Common.Int32 C01expr.Syntax C01expr.SrcSem.
Open Scope Z_scope.

Notation henv := (name -> option value) (only parsing).

Definition heval (s : name -> option value) (e : hexpr) : option value :=
  match e with
  | HInt z => Some (VInt z)
  | HI31 => Some (VInt 0)
  | HStr t => Some (VStr t)
  | HVar x => s x
  end.

Fixpoint hevals (s : name -> option value) (es : list hexpr) : option (list value) :=
  match es with
  | [] => Some []
  | e :: t =>
      match heval s e, hevals s t with
      | Some v, Some vs => Some (v :: vs)
      | _, _ => None
      end
  end.

(* the condition of an IfElse: zero is false, anything else is true (the `if` of the target; C01pat/Sem.v `truth` on
   ints).  Lenient on purpose: the statements of patterns are C01pat's, and their theorem is carried over to this
   semantics by a simulation that holds for every statement list only with this reading (ProofsPat.v). *)
Definition htruth (a : value) : bool := match a with VInt 0 => false | _ => true end.

(* the bindings of a ConditionalDestructure: the i-th binding takes the i-th payload field *)
Fixpoint bind_payload (bs : list (option name)) (vs : list value) (s : name -> option value)
  : option (name -> option value) :=
  match bs with
  | [] => Some s
  | b :: bt =>
      match vs with
      | [] => None
      | v :: vt => bind_payload bt vt (match b with Some x => upd s x (Some v) | None => s end)
      end
  end.

Inductive hres := HNext (s : name -> option value) (tr : trace) | HFail (f : fail).

Definition bind_ret (ret : option name) (v : value) (s : name -> option value) : name -> option value :=
  match ret with Some x => upd s x (Some v) | None => s end.

Fixpoint final_assign (first : bool) (fas : list (name * hexpr * hexpr)) (s : name -> option value)
  : option (name -> option value) :=
  match fas with
  | [] => Some s
  | (x, e1, e2) :: t =>
      match heval s (if first then e1 else e2) with
      | Some v => final_assign first t (upd s x (Some v))
      | None => None
      end
  end.

Definition finish (first : bool) (fas : list (name * hexpr * hexpr)) (o : hres) : hres :=
  match o with
  | HNext s tr => match final_assign first fas s with Some s' => HNext s' tr | None => HFail FStuck end
  | o => o
  end.

Definition exec_list (ex : hstmt -> (name -> option value) -> trace -> hres)
  : list hstmt -> (name -> option value) -> trace -> hres :=
  fix go ss s tr :=
    match ss with
    | [] => HNext s tr
    | st :: r => match ex st s tr with HNext s' tr' => go r s' tr' | o => o end
    end.

Section Exec.
  Variable w : world.

  Fixpoint exec (st : hstmt) (s : name -> option value) (tr : trace) {struct st} : hres :=
    match st with
    | HBin x op e1 e2 =>
        match heval s e1, heval s e2 with
        | Some a, Some b =>
            match binop_sem op a b tr with
            | CRet v tr' => HNext (upd s x (Some v)) tr'
            | CFail f => HFail f
            end
        | _, _ => HFail FStuck
        end
    | HNot x e =>
        match heval s e with
        | Some a => match not_sem a with Some v => HNext (upd s x (Some v)) tr | None => HFail FStuck end
        | None => HFail FStuck
        end
    | HCall c args ret =>
        match hevals s args with
        | None => HFail FStuck
        | Some vs =>
            match (match c with
                   | HCFn f => call_named w f vs tr
                   | HCVar x => match s x with Some fv => apply_value w fv vs tr | None => CFail FStuck end
                   end) with
            | CRet v tr' => HNext (bind_ret ret v s) tr'
            | CFail f => HFail f
            end
        end
    | HIf c s1 s2 fas =>
        match heval s c with
        | Some cv =>
            if htruth cv then finish true fas (exec_list exec s1 s tr)
            else finish false fas (exec_list exec s2 s tr)
        | None => HFail FStuck
        end
    | HDestr e tag bs s1 s2 fas =>
        match heval s e with
        | Some (VVariant t vs) =>
            if Nat.eqb t tag then
              match bind_payload bs vs s with
              | Some s1' => finish true fas (exec_list exec s1 s1' tr)
              | None => HFail FStuck
              end
            else finish false fas (exec_list exec s2 s tr)
        | _ => HFail FStuck
        end
    | HIndex x e i =>
        match heval s e with
        | Some a => match field_sem a i with Some v => HNext (upd s x (Some v)) tr | None => HFail FStuck end
        | None => HFail FStuck
        end
    | HDecl x => HNext (upd s x None) tr
    | HAssign x e => match heval s e with Some v => HNext (upd s x (Some v)) tr | None => HFail FStuck end
    | HClosure x f e => match heval s e with Some v => HNext (upd s x (Some (VClo f v))) tr | None => HFail FStuck end
    | HStruct x es => match hevals s es with Some vs => HNext (upd s x (Some (VStruct vs))) tr | None => HFail FStuck end
    | HUnreachable => HFail FStuck
    end.

  Definition exec_block : list hstmt -> (name -> option value) -> trace -> hres := exec_list exec.

  (* a lowered body: run the statements, then read the result expression *)
  Definition run_lowered (ss : list hstmt) (r : hexpr) (s : name -> option value) (tr : trace) : sres :=
    match exec_block ss s tr with
    | HNext s' tr' => match heval s' r with Some v => SVal v tr' | None => SFail FStuck end
    | HFail f => SFail f
    end.
End Exec.
