(* C01 (expression-lowering slice) - crates/samlang-compiler/src/hir_lowering.rs, `ExpressionLoweringManager::lower`
   (205-239) and the functions it dispatches to, statement by statement:
     lower_field_access 250-276, lower_method_access 278-323, lower_unary 325-341, lower_tuple 343-381,
     lower_fn_call 383-475, lower_binary 477-591, lower_if_else 593-651, lower_if_else_or_block 653-661,
     lower_match 884-957 and the Guard case of lower_if_else, with lower_matching_pattern 663-882 taken from
     theories/C01pat/Lower.v (`lower_guard`, embedded statement by statement: `guard` below),
     lower_lambda 1071-1136 with create_synthetic_lambda_function 959-1069,
     lower_block 1138-1170 (Declaration with an Id / Wildcard / flat Tuple pattern - the Tuple arm of
     lower_matching_pattern 670-717 with Id / Wildcard elements -, Expression, final expression).

   STATE of the manager that the modelled functions read or write:
   * `heap.alloc_temp_str()` through allocate_temp_variable: `tmp k` is the k-th name it hands out, the state is
     the counter n.  The ORDER of the allocations is part of the model (it decides which name each statement
     defines): lower_fn_call and lower_tuple draw the return collector BEFORE lowering anything, the && / || arms
     draw their temporary BEFORE the operands (also when a shortcut then leaves it unused), the arithmetic arm,
     `::`, unary operators and field access AFTER their operands, lower_if_else after the condition, a `let` its
     late-init variables after the assigned expression (a tuple pattern then one per element, LAST element first),
     lower_lambda the closure variable, the context variable, a name for a captured `_this`, then the body's.
     NOTE the names: `Heap::alloc_temp_str` calls a temporary `_t<size of the heap's string table>`, so interning
     any new string (a synthesized type name, the number of a synthetic function, a folded literal) skips an index:
     the temporaries of one body are increasing, not consecutive.  The model is parametric in `tmp`.
   * `variable_cx: LocalStackedContext<PStr, hir::Expression>` (samlang-collections local_stacked_context.rs):
     a stack of maps; `get` searches from the top, `insert` writes into the top map, push_scope / pop_scope.
     Every bind_value call of the modelled functions passes `Expression::var_name(..)`, so a scope maps source
     names to HIR variable NAMES.  The bind_value calls that enter a temporary under its own name
     (lower_field_access, lower_method_access, lower_if_else after the pop) are not modelled: a source program cannot
     spell a temporary (`_t<k>`), so they are never read back.
     NOTE lower_if_else: push_scope() at the top, pop_scope() only on the path that emits the IfElse.  When the
     condition lowers to the literal 1 or 0 the function returns early and the scope it pushed STAYS on the stack;
     the pop_scope of the enclosing block then removes that one instead of its own.  The model keeps this
     (`scopes` below is the real stack, not an abstraction); Proofs.v shows it harmless exactly because no `let`
     rebinds a visible name (Syntax.ns).

   VERSION switch: `Seeded7` = /verif/seeded/C01-7/patch.diff applied (two early returns in the && / || arms). *)
From Coq Require Import ZArith NArith List Bool.
Import ListNotations.
From SV Require Import Common.Int32 C01expr.Syntax C01expr.SrcSem C01expr.HirSem.
From SV Require C01pat.Sem C01pat.Lower.

Inductive version := Pinned | Seeded7.

(* ------------------------------------------------------------------ patterns: C01pat's model, embedded *)
(* `lower_matching_pattern` (663-882) is modelled in theories/C01pat/Lower.v over a statement type of its own; its
   output is embedded here form by form.  (SPanic is lower_match's fall-through there; the match of this file builds
   the real call, so the embedding never meets it.) *)
Definition emb_e (e : C01pat.Syntax.expr) : hexpr :=
  match e with C01pat.Syntax.EInt z => HInt z | C01pat.Syntax.EVar x => HVar x end.
Definition emb_fa (fa : name * C01pat.Syntax.expr * C01pat.Syntax.expr) : name * hexpr * hexpr :=
  (fst (fst fa), emb_e (snd (fst fa)), emb_e (snd fa)).
Fixpoint emb (s : C01pat.Syntax.stmt) : hstmt :=
  let fix go (l : list C01pat.Syntax.stmt) : list hstmt := match l with [] => [] | x :: t => emb x :: go t end in
  match s with
  | SIndex x e i => HIndex x (emb_e e) i
  | SDestr e tag bs s1 s2 fas => HDestr (emb_e e) tag bs (go s1) (go s2) (map emb_fa fas)
  | SIf c s1 s2 fas => HIf (emb_e c) (go s1) (go s2) (map emb_fa fas)
  | SDecl x => HDecl x
  | SAssign x e => HAssign x (emb_e e)
  | SPanic _ => HUnreachable
  end.
Definition embs (ss : list C01pat.Syntax.stmt) : list hstmt := map emb ss.
(* the matched expression as the pattern model sees it.  A string or class-object scrutinee has no counterpart
   there; by Syntax.site_ok the pattern is then a wildcard (which does not mention the expression) or structured
   (which a string / class object cannot match: an ill-typed situation) *)
Definition pe (r : hexpr) : C01pat.Syntax.expr :=
  match r with HVar x => C01pat.Syntax.EVar x | HInt z => C01pat.Syntax.EInt z | _ => C01pat.Syntax.EInt 0 end.


Notation scope := (list (name * name)) (only parsing).
Notation scopes := (list (list (name * name))) (only parsing).

Fixpoint assoc (x : name) (s : list (name * name)) : option name :=
  match s with
  | [] => None
  | (y, v) :: t => if N.eqb x y then Some v else assoc x t
  end.

(* LocalStackedContext::get *)
Fixpoint resolve (cx : list (list (name * name))) (x : name) : option name :=
  match cx with
  | [] => None
  | s :: rest => match assoc x s with Some v => Some v | None => resolve rest x end
  end.

(* LocalStackedContext::insert (HashMap::insert into the top map: a later entry for the same key wins) *)
Definition insert (cx : list (list (name * name))) (x v : name) : list (list (name * name)) :=
  match cx with
  | [] => []                      (* `stack[len - 1]` on an empty stack: out of bounds, never reached (new() starts with one map) *)
  | s :: rest => ((x, v) :: s) :: rest
  end.
Definition push (cx : list (list (name * name))) : list (list (name * name)) := [] :: cx.
Definition pop (cx : list (list (name * name))) : list (list (name * name)) := tl cx.

(* resolve_variable: `self.variable_cx.get(name).unwrap().dupe()`; the unwrap() of None is a panic of the
   compiler - the model answers with the name itself there (never reached for a checked program: I_res in Proofs.v) *)
Definition resolve_variable (cx : list (list (name * name))) (x : name) : hexpr :=
  match resolve cx x with Some y => HVar y | None => HVar x end.

Definition is_lit (e : hexpr) (z : Z) : bool := match e with HInt v => Z.eqb v z | _ => false end.

(* `if let (E::Literal(_, Literal::String(s1)), E::Literal(_, Literal::String(s2))) = (e1, e2)` *)
Definition str_lits (a b : expr) : option (list N * list N) :=
  match a, b with EStr x, EStr y => Some (x, y) | _, _ => None end.

Fixpoint index_of (x : name) (l : list name) : option nat :=
  match l with
  | [] => None
  | y :: t => if N.eqb x y then Some O else match index_of x t with Some k => Some (S k) | None => None end
  end.

Notation res := (list hstmt * hexpr * nat * list (list (name * name)))%type (only parsing).
Notation resl := (list hstmt * list hexpr * nat * list (list (name * name)))%type (only parsing).

Section Lower.
  Variable ver : version.
  Variable tmp : nat -> name.

  (* the && arm once both operands are lowered (t = the temporary drawn first) *)
  Definition and_result (t : name) (s1 : list hstmt) (e1 : hexpr) (s2 : list hstmt) (e2 : hexpr) : list hstmt * hexpr :=
    match e1 with
    | HInt v => if negb (Z.eqb v 0) then (s1 ++ s2, e2) else (s1, ZERO)
    | _ =>
        match ver, e2 with
        | Seeded7, HInt v => (s1, if negb (Z.eqb v 0) then e1 else ZERO)       (* the seeded shortcut: s2 is lost *)
        | _, _ => (s1 ++ [HIf e1 s2 [] [(t, e2, ZERO)]], HVar t)
        end
    end.

  Definition or_result (t : name) (s1 : list hstmt) (e1 : hexpr) (s2 : list hstmt) (e2 : hexpr) : list hstmt * hexpr :=
    match e1 with
    | HInt v => if negb (Z.eqb v 0) then (s1, ONE) else (s1 ++ s2, e2)
    | _ =>
        match ver, e2 with
        | Seeded7, HInt v => (s1, if negb (Z.eqb v 0) then ONE else e1)
        | _, _ => (s1 ++ [HIf e1 [] s2 [(t, ONE, e2)]], HVar t)
        end
    end.

  (* `binding_names`: the j-th key of pattern.bindings() gets the j-th temporary drawn from counter n on
     (a variable of the pattern that is not a key: `unwrap()` would panic; ruled out by Syntax.ns) *)
  Definition bn_of (bs : list name) (n : nat) (x : name) : name :=
    match index_of x bs with Some k => tmp (n + k) | None => tmp n end.

  (* lower_matching_pattern on a Tuple pattern whose elements are Id / Wildcard (670-717, 842-851):
       for (index, nested) in elements.iter().enumerate().rev() {
         let name = self.allocate_temp_variable();
         (stmts, ONE) = Id: [LateInitAssignment binding_names[x] := Variable(name)] / Wildcard: []
         stmts.insert(0, IndexedAccess { name, pointer_expression, index });  stmts.append(acc)   // condition is ONE
     the LAST element draws first: element i of m draws number (m - 1 - i) after `base` *)
  Fixpoint tuple_stmts (e : hexpr) (bn : name -> name) (els : list (option name)) (i : nat) (base m : nat) : list hstmt :=
    match els with
    | [] => []
    | el :: t =>
        let x := tmp (base + (m - 1 - i)) in
        HIndex x e i :: (match el with Some v => [HAssign (bn v) (HVar x)] | None => [] end) ++ tuple_stmts e bn t (S i) base m
    end.

  (* the bind_value calls of the Declaration case, one per key, in order *)
  Fixpoint insert_all (cx : list (list (name * name))) (bs : list name) (n : nat) : list (list (name * name)) :=
    match bs with
    | [] => cx
    | x :: t => insert_all (insert cx x (tmp n)) t (S n)
    end.

  (* create_synthetic_lambda_function: the name a captured variable has inside the body - itself, except `_this`
     (the first parameter of the synthetic function is `_this`, the context), which gets the temporary drawn at n1 *)
  Definition body_name (n1 : nat) (c : name) : name := if N.eqb c this_name then tmp n1 else c.
  (* the scope stack of the manager made for the body: `ExpressionLoweringManager::new` with the lambda's parameters
     and the captured variables under their body names (the enclosing manager's defined_variables are chained in too;
     they are not modelled: every free variable of a checked body is a parameter or captured, theories/C15v), then
     `_this` rebound to its body name when it is captured *)
  Definition lambda_cx (caps params : list name) (n1 : nat) : list (list (name * name)) :=
    let base := [rev (map (fun p => (p, p)) (params ++ map (body_name n1) caps))] in
    if memb this_name caps then insert base this_name (tmp n1) else base.

  (* one pattern site (a `let p`, the guard of an `if let`, a match arm): the LateInitDeclarations of the keys, then
     the statements of the pattern, and its condition = C01pat.Lower.lower_guard on the lowered scrutinee *)
  Definition guard (p : pat) (bs : list name) (r : hexpr) (n : nat) : list hstmt * hexpr * nat :=
    let '(ss, c, n1) := C01pat.Lower.lower_guard tmp p bs (pe r) n in (embs ss, emb_e c, n1).

  Fixpoint lower (e : expr) (cx : list (list (name * name))) (n : nat) {struct e} : res :=
    match e with
    | EInt z => ([], HInt z, n, cx)
    | EBool b => ([], if b then ONE else ZERO, n, cx)
    | EStr s => ([], HStr s, n, cx)
    | EVar x => ([], resolve_variable cx x, n, cx)
    | EClass => ([], HI31, n, cx)
    | EUn op a =>
        let '(s, r, n1, cx1) := lower a cx n in
        let x := tmp n1 in
        (s ++ [match op with UNot => HNot x r | UNeg => HBin x MINUS ZERO r end], HVar x, S n1, cx1)
    | EBin op a b =>
        let '(s1, r1, n1, cx1) := lower a cx n in
        let '(s2, r2, n2, cx2) := lower b cx1 n1 in
        let x := tmp n2 in
        (s1 ++ s2 ++ [HBin x op r1 r2], HVar x, S n2, cx2)
    | EAnd a b =>
        let t := tmp n in
        let '(s1, r1, n1, cx1) := lower a cx (S n) in
        let '(s2, r2, n2, cx2) := lower b cx1 n1 in
        let '(ss, r) := and_result t s1 r1 s2 r2 in
        (ss, r, n2, cx2)
    | EOr a b =>
        let t := tmp n in
        let '(s1, r1, n1, cx1) := lower a cx (S n) in
        let '(s2, r2, n2, cx2) := lower b cx1 n1 in
        let '(ss, r) := or_result t s1 r1 s2 r2 in
        (ss, r, n2, cx2)
    | EConcat a b =>
        match str_lits a b with
        | Some (x, y) => ([], HStr (x ++ y), n, cx)          (* two literals: folded, nothing is allocated *)
        | None =>
            let '(s1, r1, n1, cx1) := lower a cx n in
            let '(s2, r2, n2, cx2) := lower b cx1 n1 in
            let x := tmp n2 in
            (s1 ++ s2 ++ [HCall (HCFn FConcat) [r1; r2] (Some x)], HVar x, S n2, cx2)
        end
    | ECallM o f args void =>
        let ret := tmp n in
        let '(s0, r0, n1, cx1) := lower o cx (S n) in
        let '(sa, ra, n2, cx2) := lower_args args cx1 n1 in
        (s0 ++ sa ++ [HCall (HCFn f) (r0 :: ra) (if void then None else Some ret)],
         if void then ZERO else HVar ret, n2, cx2)
    | ECallC c args void =>
        (* `.as_variable().duped().unwrap()` on the lowered callee: a callee that is not a variable makes the
           compiler itself panic (no literal has a function type, so never for a checked program); the model puts a
           statement that cannot run in the place of the call *)
        let ret := tmp n in
        let '(s0, r0, n1, cx1) := lower c cx (S n) in
        let '(sa, ra, n2, cx2) := lower_args args cx1 n1 in
        (s0 ++ sa ++ [match r0 with
                      | HVar fx => HCall (HCVar fx) ra (if void then None else Some ret)
                      | _ => HUnreachable
                      end],
         if void then ZERO else HVar ret, n2, cx2)
    | EMethod o f =>
        let '(s, r, n1, cx1) := lower o cx n in
        let x := tmp n1 in
        (s ++ [HClosure x f r], HVar x, S n1, cx1)
    | EField o i =>
        let '(s, r, n1, cx1) := lower o cx n in
        let x := tmp n1 in
        (s ++ [HIndex x r i], HVar x, S n1, cx1)
    | ETuple c es =>
        let ret := tmp n in
        let '(sa, ra, n1, cx1) := lower_args es cx (S n) in
        (sa ++ [HCall (HCFn (FInit c)) (ZERO :: ra) (Some ret)], HVar ret, n1, cx1)
    | EIf c e1 e2 =>
        let '(sc, rc, n1, cx1) := lower c (push cx) n in
        if is_lit rc 1 then
          let '(s, r, n2, cx2) := lower e1 cx1 n1 in (sc ++ s, r, n2, cx2)          (* early return: no pop_scope *)
        else if is_lit rc 0 then
          let '(s, r, n2, cx2) := lower e2 cx1 n1 in (sc ++ s, r, n2, cx2)          (* early return: no pop_scope *)
        else
          let fv := tmp n1 in
          let '(s1, r1, n2, cx2) := lower e1 cx1 (S n1) in
          let '(s2, r2, n3, cx3) := lower e2 cx2 n2 in
          (sc ++ [HIf rc s1 s2 [(fv, r1, r2)]], HVar fv, n3, pop cx3)
    | EBlock b =>
        let '(s, r, n1, cx1) := lower_blk b (push cx) n in
        (s, r, n1, pop cx1)
    | EMatch e cs =>
        (* lower_match 884-957: the matched expression, the collector of the fall-through panic, then the arms *)
        let '(se, re, n1, cx1) := lower e cx n in
        let '(ss, r, n2, cx2) := lower_arms cs re (tmp n1) cx1 (S n1) in
        (se ++ ss, r, n2, cx2)
    | EIfLet p bs e e1 e2 =>
        (* lower_if_else with a Guard: as EIf, the condition being the one the pattern returns; the keys are bound
           in the scope pushed at the top (visible while both branches are lowered) *)
        let '(se, re, n1, cx1) := lower e (push cx) n in
        let '(gs, gc, n2) := guard p bs re n1 in
        let cx2 := insert_all cx1 bs n1 in
        if is_lit gc 1 then
          let '(s, r, n3, cx3) := lower e1 cx2 n2 in (se ++ gs ++ s, r, n3, cx3)       (* early return: no pop_scope *)
        else if is_lit gc 0 then
          let '(s, r, n3, cx3) := lower e2 cx2 n2 in (se ++ gs ++ s, r, n3, cx3)       (* early return: no pop_scope *)
        else
          let fv := tmp n2 in
          let '(s1, r1, n3, cx3) := lower e1 cx2 (S n2) in
          let '(s2, r2, n4, cx4) := lower e2 cx3 n3 in
          (se ++ gs ++ [HIf gc s1 s2 [(fv, r1, r2)]], HVar fv, n4, pop cx4)
    | ELambda l caps params body =>
        (* lower_lambda 1071-1136: the captured variables resolved in the order of the map; the closure variable is
           drawn first, then (if anything is captured) the context variable and its StructInit; then
           create_synthetic_lambda_function 959-1069 draws a name for a captured `_this` and lowers the body with a
           manager of its own (new scope stack) that draws from the SAME counter; then the ClosureInit.
           The body's statements go to the synthetic function (lambda_fn below), not here. *)
        let clo := tmp n in
        let captured := map (resolve_variable cx) caps in
        let '(ctx_s, ctx, n1) :=
          match caps with
          | [] => ([], HI31, S n)
          | _ => ([HStruct (tmp (S n)) captured], HVar (tmp (S n)), S (S n))
          end in
        let n2 := if memb this_name caps then S n1 else n1 in
        let '(_, _, n3, _) := lower body (lambda_cx caps params n1) n2 in
        (ctx_s ++ [HClosure clo (FLam l) ctx], HVar clo, n3, cx)
    end
  with lower_args (es : exprs) (cx : list (list (name * name))) (n : nat) {struct es} : resl :=
    match es with
    | ENil => ([], [], n, cx)
    | ECons e t =>
        let '(s1, r1, n1, cx1) := lower e cx n in
        let '(s2, r2, n2, cx2) := lower_args t cx1 n1 in
        (s1 ++ s2, r1 :: r2, n2, cx2)
    end
  with lower_arms (cs : arms) (re : hexpr) (coll : name) (cx : list (list (name * name))) (n : nat) {struct cs} : res :=
    (* `for case in expression.cases.iter().rev()`: the LAST arm is lowered first (structural recursion: the tail
       first), each arm wraps what has been built in the else branch of its IfElse; the innermost else is the call
       Process.panic(0, "") into the collector *)
    match cs with
    | ANil => ([HCall (HCFn FPanic) [ZERO; HStr []] (Some coll)], HVar coll, n, cx)
    | ACons p bs body t =>
        let '(acc_s, acc_e, n1, cx1) := lower_arms t re coll cx n in
        let ft := tmp n1 in
        let '(gs, gc, n2) := guard p bs re (S n1) in
        let '(sb, rb, n3, cx3) := lower body (insert_all (push cx1) bs (S n1)) n2 in
        (gs ++ [HIf gc sb acc_s [(ft, rb, acc_e)]], HVar ft, n3, pop cx3)
    end
  with lower_blk (b : blk) (cx : list (list (name * name))) (n : nat) {struct b} : res :=
    match b with
    | BEndU => ([], ZERO, n, cx)
    | BEndE e => lower e cx n
    | BLet (Some x) e b =>
        (* assigned expression; one late-init variable for the one key of pattern.bindings(); the Id pattern is
           one LateInitAssignment (lower_matching_pattern 842-848) *)
        let '(s1, r1, n1, cx1) := lower e cx n in
        let t := tmp n1 in
        let '(s2, r2, n2, cx2) := lower_blk b (insert cx1 x t) (S n1) in
        (s1 ++ [HDecl t; HAssign t r1] ++ s2, r2, n2, cx2)
    | BLet None e b =>
        (* Wildcard: no binding, no statement (849-851) *)
        let '(s1, r1, n1, cx1) := lower e cx n in
        let '(s2, r2, n2, cx2) := lower_blk b cx1 n1 in
        (s1 ++ s2, r2, n2, cx2)
    | BLetT bs els e b =>
        (* assigned expression; one late-init variable per key, declared in key order; then the pattern *)
        let '(s1, r1, n1, cx1) := lower e cx n in
        let k := length bs in
        let m := length els in
        let decls := map (fun j => HDecl (tmp (n1 + j))) (seq 0 k) in
        let pat := tuple_stmts r1 (bn_of bs n1) els 0 (n1 + k) m in
        let '(s2, r2, n2, cx2) := lower_blk b (insert_all cx1 bs n1) (n1 + k + m) in
        (s1 ++ decls ++ pat ++ s2, r2, n2, cx2)
    | BLetP p bs e b =>
        (* the general Declaration: assigned expression, declarations + pattern (condition dropped), the rest *)
        let '(s1, r1, n1, cx1) := lower e cx n in
        let '(gs, _, n2) := guard p bs r1 n1 in
        let '(s2, r2, n3, cx2) := lower_blk b (insert_all cx1 bs n1) n2 in
        (s1 ++ gs ++ s2, r2, n3, cx2)
    | BExp e b =>
        let '(s1, _, n1, cx1) := lower e cx n in
        let '(s2, r2, n2, cx2) := lower_blk b cx1 n1 in
        (s1 ++ s2, r2, n2, cx2)
    end.

  (* a function body: `ExpressionLoweringManager::new` binds every parameter to itself in the one initial scope,
     then lower_source_expression *)
  Definition initial_cx (params : list name) : list (list (name * name)) :=
    [rev (map (fun p => (p, p)) params)].

  Definition lower_body (params : list name) (body : expr) : list hstmt * hexpr * nat :=
    let '(s, r, n, _) := lower body (initial_cx params) 0 in (s, r, n).

  (* the synthetic function of a lambda, made when the counter stands at n1 (after the closure and context variables):
     parameters `_this` (the context) and the lambda's; one IndexedAccess per captured variable, then the body *)
  Fixpoint loads (n1 : nat) (caps : list name) (i : nat) : list hstmt :=
    match caps with
    | [] => []
    | c :: t => HIndex (body_name n1 c) (HVar this_name) i :: loads n1 t (S i)
    end.
  Definition lambda_fn (caps params : list name) (body : expr) (n1 : nat) : list name * list hstmt * hexpr * nat :=
    let n2 := if memb this_name caps then S n1 else n1 in
    let '(s, r, n3, _) := lower body (lambda_cx caps params n1) n2 in
    (this_name :: params, loads n1 caps 0 ++ s, r, n3).
End Lower.

(* ------------------------------------------------------------------ vocabulary of the theorems (Proofs*.v, Props.v) *)
(* scope stack: the keys of the scopes ex / of the bindings s are among B *)
Definition keys_in (B : list name) (ex : list (list (name * name))) : Prop :=
  forall s, In s ex -> forall x y, In (x, y) s -> In x B.
Definition keys_of (B : list name) (s : list (name * name)) : Prop := forall x y, In (x, y) s -> In x B.
(* what lowering an EXPRESSION may do to the stack: leave scopes on top whose keys are names bound inside it
   (the scopes lower_if_else does not pop) *)
Definition extE (B : list name) (cx cx' : list (list (name * name))) : Prop :=
  exists ex, cx' = ex ++ cx /\ keys_in B ex.
(* ... and the statements of a BLOCK (run after its push_scope): also add bindings to the top scope *)
Definition extB (B : list name) (cx cx' : list (list (name * name))) : Prop :=
  exists ex nw s rest, cx = s :: rest /\ cx' = ex ++ (nw ++ s) :: rest /\ keys_in B ex /\ keys_of B nw.

Section Vocabulary.
  Variable tmp : nat -> name.

  (* y is not a temporary drawn from counter n on *)
  Definition low (n : nat) (y : name) : Prop := forall i, (n <= i)%nat -> tmp i <> y.
  (* the statements lowered from counter n on write at most temporaries drawn from n on (n' = the counter afterwards;
     the pattern statements taken from C01pat come with this bound only) *)
  Definition frame (n n' : nat) (s s' : name -> option value) : Prop := forall y, low n y -> s' y = s y.
  (* a result expression that no later statement overwrites *)
  Definition stable (n : nat) (r : hexpr) : Prop := match r with HVar y => low n y | _ => True end.

  (* every visible source variable resolves to a HIR variable that holds its value and that no later statement
     writes (it is not a temporary still to be drawn) *)
  Definition inv (r : name -> option value) (cx : list (list (name * name))) (s : name -> option value) (n : nat) : Prop :=
    forall x v, r x = Some v -> exists y, resolve cx x = Some y /\ s y = Some v /\ low n y.
  Definition dom_in (r : name -> option value) (D : list name) : Prop := forall x, r x <> None -> In x D.

  (* what the statements ss with result expression re must do from environment s and history tr, given what the source
     evaluation does: the same value and history, writing only the temporaries drawn, leaving a stable result; or
     the same abnormal end (nothing is claimed of a source run that is stuck: ill-typed, excluded by the checker) *)
  Definition sound (w : world) (s : name -> option value) (tr : trace) (n n' : nat) (ss : list hstmt) (re : hexpr) (o : sres) : Prop :=
    match o with
    | SVal v tr' => exists s', exec_block w ss s tr = HNext s' tr' /\ heval s' re = Some v /\ frame n n' s s' /\ stable n' re
    | SFail f => f <> FStuck -> exec_block w ss s tr = HFail f
    end.
  Definition sound_l (w : world) (s : name -> option value) (tr : trace) (n n' : nat) (ss : list hstmt) (rs : list hexpr) (o : lres) : Prop :=
    match o with
    | LVal vs tr' => exists s', exec_block w ss s tr = HNext s' tr' /\ hevals s' rs = Some vs /\ frame n n' s s' /\ Forall (stable n') rs
    | LFail f => f <> FStuck -> exec_block w ss s tr = HFail f
    end.
End Vocabulary.

(* same outcome: value and history, or the same abnormal end with the same history *)
Definition agrees (src : sres) (hir : sres) : Prop :=
  match src with
  | SFail FStuck => True
  | o => hir = o
  end.

(* ------------------------------------------------------------------ "the statements of every sub-expression are present, in order" *)
(* `flat` lists the primitive statements of a statement list in textual order (an IfElse contributes the statements of
   its branches, then itself without them); `parts e cx n` lists the statement lists `lower` obtains for the DIRECT
   sub-expressions of e (each lowered with the counter and scope stack it really gets), in evaluation order, leaving
   out exactly those the lowering itself shows dead: the right operand of `&&` / `||` when the left one lowers to a
   deciding literal, the branch of an `if` whose condition lowers to the other literal. *)
Fixpoint flat_stmt (s : hstmt) : list hstmt :=
  match s with
  | HIf c s1 s2 fas =>
      (fix go (l : list hstmt) : list hstmt := match l with [] => [] | x :: r => flat_stmt x ++ go r end) s1 ++
      (fix go (l : list hstmt) : list hstmt := match l with [] => [] | x :: r => flat_stmt x ++ go r end) s2 ++
      [HIf c [] [] fas]
  | _ => [s]
  end.
Definition flat (ss : list hstmt) : list hstmt := flat_map flat_stmt ss.

(* l consists of the blocks ps, in this order, with anything in between *)
Fixpoint blocks (ps : list (list hstmt)) (l : list hstmt) : Prop :=
  match ps with
  | [] => True
  | p :: t => exists a b, l = a ++ p ++ b /\ blocks t b
  end.

Section Parts.
  Variable ver : version.
  Variable tmp : nat -> name.

  Fixpoint parts_args (es : exprs) (cx : list (list (name * name))) (n : nat) : list (list hstmt) :=
    match es with
    | ENil => []
    | ECons e t => let '(s1, _, n1, cx1) := lower ver tmp e cx n in s1 :: parts_args t cx1 n1
    end.

  Fixpoint parts_blk (b : blk) (cx : list (list (name * name))) (n : nat) : list (list hstmt) :=
    match b with
    | BEndU => []
    | BEndE e => let '(s1, _, _, _) := lower ver tmp e cx n in [s1]
    | BLet (Some x) e b => let '(s1, _, n1, cx1) := lower ver tmp e cx n in s1 :: parts_blk b (insert cx1 x (tmp n1)) (S n1)
    | BLet None e b => let '(s1, _, n1, cx1) := lower ver tmp e cx n in s1 :: parts_blk b cx1 n1
    | BLetT bs els e b =>
        let '(s1, _, n1, cx1) := lower ver tmp e cx n in
        s1 :: parts_blk b (insert_all tmp cx1 bs n1) (n1 + length bs + length els)
    | BLetP p bs e b =>
        let '(s1, r1, n1, cx1) := lower ver tmp e cx n in
        let '(_, _, n2) := guard tmp p bs r1 n1 in
        s1 :: parts_blk b (insert_all tmp cx1 bs n1) n2
    | BExp e b => let '(s1, _, n1, cx1) := lower ver tmp e cx n in s1 :: parts_blk b cx1 n1
    end.

  Definition decides (e : hexpr) (zero : bool) : bool :=
    match e with HInt v => if zero then Z.eqb v 0 else negb (Z.eqb v 0) | _ => false end.

  Definition parts (e : expr) (cx : list (list (name * name))) (n : nat) : list (list hstmt) :=
    match e with
    | EInt _ | EBool _ | EStr _ | EVar _ | EClass => []
    | EUn _ a | EMethod a _ | EField a _ => let '(s1, _, _, _) := lower ver tmp a cx n in [s1]
    | EBin _ a b =>
        let '(s1, _, n1, cx1) := lower ver tmp a cx n in
        let '(s2, _, _, _) := lower ver tmp b cx1 n1 in [s1; s2]
    | EConcat a b =>
        match str_lits a b with
        | Some _ => []
        | None =>
            let '(s1, _, n1, cx1) := lower ver tmp a cx n in
            let '(s2, _, _, _) := lower ver tmp b cx1 n1 in [s1; s2]
        end
    | EAnd a b =>
        let '(s1, r1, n1, cx1) := lower ver tmp a cx (S n) in
        let '(s2, _, _, _) := lower ver tmp b cx1 n1 in
        if decides r1 true then [s1] else [s1; s2]          (* `false && b`: b is dead *)
    | EOr a b =>
        let '(s1, r1, n1, cx1) := lower ver tmp a cx (S n) in
        let '(s2, _, _, _) := lower ver tmp b cx1 n1 in
        if decides r1 false then [s1] else [s1; s2]         (* `true || b`: b is dead *)
    | ECallM o _ args _ | ECallC o args _ =>
        let '(s0, _, n1, cx1) := lower ver tmp o cx (S n) in s0 :: parts_args args cx1 n1
    | ETuple _ es => parts_args es cx (S n)
    | EIf c e1 e2 =>
        let '(sc, rc, n1, cx1) := lower ver tmp c (push cx) n in
        if is_lit rc 1 then let '(s1, _, _, _) := lower ver tmp e1 cx1 n1 in [sc; s1]
        else if is_lit rc 0 then let '(s2, _, _, _) := lower ver tmp e2 cx1 n1 in [sc; s2]
        else
          let '(s1, _, n2, cx2) := lower ver tmp e1 cx1 (S n1) in
          let '(s2, _, _, _) := lower ver tmp e2 cx2 n2 in [sc; s1; s2]
    | EBlock b => parts_blk b (push cx) n
    | EMatch e _ => let '(se, _, _, _) := lower ver tmp e cx n in [se]      (* the arms: C01pat's lower_match theorems *)
    | EIfLet _ _ e _ _ => let '(se, _, _, _) := lower ver tmp e (push cx) n in [se]
    | ELambda _ _ _ _ => []
    end.

  Definition stmts_of (x : list hstmt * hexpr * nat * list (list (name * name))) : list hstmt := fst (fst (fst x)).
  Definition stmts_of_l (x : list hstmt * list hexpr * nat * list (list (name * name))) : list hstmt := fst (fst (fst x)).
End Parts.
