(* C01 (expression-lowering slice) - crates/samlang-compiler/src/hir_lowering.rs, `ExpressionLoweringManager::lower`
   (205-239) and the functions it dispatches to, statement by statement:
     lower_field_access 250-276, lower_method_access 278-323, lower_unary 325-341, lower_tuple 343-381,
     lower_fn_call 383-475, lower_binary 477-591, lower_if_else 593-651, lower_if_else_or_block 653-661,
     lower_block 1138-1170 (Declaration with an Id / Wildcard pattern, Expression, final expression).

   STATE of the manager that the modelled functions read or write:
   * `heap.alloc_temp_str()` through allocate_temp_variable: `tmp k` is the k-th name it hands out, the state is
     the counter n.  The ORDER of the allocations is part of the model (it decides which name each statement
     defines): lower_fn_call and lower_tuple draw the return collector BEFORE lowering anything, the && / || arms
     draw their temporary BEFORE the operands (also when a shortcut then leaves it unused), the arithmetic arm,
     `::`, unary operators and field access AFTER their operands, lower_if_else after the condition.
   * `variable_cx: LocalStackedContext<PStr, hir::Expression>` (samlang-collections local_stacked_context.rs):
     a stack of maps; `get` searches from the top, `insert` writes into the top map, push_scope / pop_scope.
     Every bind_value call of the modelled functions passes `Expression::var_name(..)`, so a scope maps source
     names to HIR variable NAMES.  The bind_value calls that enter a temporary under its own name
     (lower_field_access, lower_method_access, lower_if_else after the pop) are not modelled: a source program cannot
     spell a temporary (`_t<k>`), so they are never read back.
     NOTE lower_if_else: push_scope() at the top, pop_scope() only on the path that emits the IfElse.  When the
     condition lowers to the literal 1 or 0 the function returns early and the scope it pushed STAYS on the stack;
     the pop_scope of the enclosing block then removes that one instead of its own.  The model keeps this
     (`scopes` below is the real stack, not an abstraction); Proofs.v shows it harmless exactly because no `let`
     rebinds a visible name (Syntax.ns).

   VERSION switch: `Seeded7` = /verif/seeded/C01-7/patch.diff applied (two early returns in the && / || arms). *)
From Coq Require Import ZArith NArith List Bool.
Import ListNotations.
From SV Require Import Common.Int32 C01expr.Syntax.

Inductive version := Pinned | Seeded7.

Notation scope := (list (name * name)) (only parsing).
Notation scopes := (list (list (name * name))) (only parsing).

Fixpoint assoc (x : name) (s : list (name * name)) : option name :=
  match s with
  | [] => None
  | (y, v) :: t => if N.eqb x y then Some v else assoc x t
  end.

(* LocalStackedContext::get *)
Fixpoint resolve (cx : list (list (name * name))) (x : name) : option name :=
  match cx with
  | [] => None
  | s :: rest => match assoc x s with Some v => Some v | None => resolve rest x end
  end.

(* LocalStackedContext::insert (HashMap::insert into the top map: a later entry for the same key wins) *)
Definition insert (cx : list (list (name * name))) (x v : name) : list (list (name * name)) :=
  match cx with
  | [] => []                      (* `stack[len - 1]` on an empty stack: out of bounds, never reached (new() starts with one map) *)
  | s :: rest => ((x, v) :: s) :: rest
  end.
Definition push (cx : list (list (name * name))) : list (list (name * name)) := [] :: cx.
Definition pop (cx : list (list (name * name))) : list (list (name * name)) := tl cx.

(* resolve_variable: `self.variable_cx.get(name).unwrap().dupe()`; the unwrap() of None is a panic of the
   compiler - the model answers with the name itself there (never reached for a checked program: I_res in Proofs.v) *)
Definition resolve_variable (cx : list (list (name * name))) (x : name) : hexpr :=
  match resolve cx x with Some y => HVar y | None => HVar x end.

Definition is_lit (e : hexpr) (z : Z) : bool := match e with HInt v => Z.eqb v z | _ => false end.

(* `if let (E::Literal(_, Literal::String(s1)), E::Literal(_, Literal::String(s2))) = (e1, e2)` *)
Definition str_lits (a b : expr) : option (list N * list N) :=
  match a, b with EStr x, EStr y => Some (x, y) | _, _ => None end.

Notation res := (list hstmt * hexpr * nat * list (list (name * name)))%type (only parsing).
Notation resl := (list hstmt * list hexpr * nat * list (list (name * name)))%type (only parsing).

Section Lower.
  Variable ver : version.
  Variable tmp : nat -> name.

  (* the && arm once both operands are lowered (t = the temporary drawn first) *)
  Definition and_result (t : name) (s1 : list hstmt) (e1 : hexpr) (s2 : list hstmt) (e2 : hexpr) : list hstmt * hexpr :=
    match e1 with
    | HInt v => if negb (Z.eqb v 0) then (s1 ++ s2, e2) else (s1, ZERO)
    | _ =>
        match ver, e2 with
        | Seeded7, HInt v => (s1, if negb (Z.eqb v 0) then e1 else ZERO)       (* the seeded shortcut: s2 is lost *)
        | _, _ => (s1 ++ [HIf e1 s2 [] [(t, e2, ZERO)]], HVar t)
        end
    end.

  Definition or_result (t : name) (s1 : list hstmt) (e1 : hexpr) (s2 : list hstmt) (e2 : hexpr) : list hstmt * hexpr :=
    match e1 with
    | HInt v => if negb (Z.eqb v 0) then (s1, ONE) else (s1 ++ s2, e2)
    | _ =>
        match ver, e2 with
        | Seeded7, HInt v => (s1, if negb (Z.eqb v 0) then ONE else e1)
        | _, _ => (s1 ++ [HIf e1 [] s2 [(t, ONE, e2)]], HVar t)
        end
    end.

  Fixpoint lower (e : expr) (cx : list (list (name * name))) (n : nat) {struct e} : res :=
    match e with
    | EInt z => ([], HInt z, n, cx)
    | EBool b => ([], if b then ONE else ZERO, n, cx)
    | EStr s => ([], HStr s, n, cx)
    | EVar x => ([], resolve_variable cx x, n, cx)
    | EClass => ([], HI31, n, cx)
    | EUn op a =>
        let '(s, r, n1, cx1) := lower a cx n in
        let x := tmp n1 in
        (s ++ [match op with UNot => HNot x r | UNeg => HBin x MINUS ZERO r end], HVar x, S n1, cx1)
    | EBin op a b =>
        let '(s1, r1, n1, cx1) := lower a cx n in
        let '(s2, r2, n2, cx2) := lower b cx1 n1 in
        let x := tmp n2 in
        (s1 ++ s2 ++ [HBin x op r1 r2], HVar x, S n2, cx2)
    | EAnd a b =>
        let t := tmp n in
        let '(s1, r1, n1, cx1) := lower a cx (S n) in
        let '(s2, r2, n2, cx2) := lower b cx1 n1 in
        let '(ss, r) := and_result t s1 r1 s2 r2 in
        (ss, r, n2, cx2)
    | EOr a b =>
        let t := tmp n in
        let '(s1, r1, n1, cx1) := lower a cx (S n) in
        let '(s2, r2, n2, cx2) := lower b cx1 n1 in
        let '(ss, r) := or_result t s1 r1 s2 r2 in
        (ss, r, n2, cx2)
    | EConcat a b =>
        match str_lits a b with
        | Some (x, y) => ([], HStr (x ++ y), n, cx)          (* two literals: folded, nothing is allocated *)
        | None =>
            let '(s1, r1, n1, cx1) := lower a cx n in
            let '(s2, r2, n2, cx2) := lower b cx1 n1 in
            let x := tmp n2 in
            (s1 ++ s2 ++ [HCall (HCFn FConcat) [r1; r2] (Some x)], HVar x, S n2, cx2)
        end
    | ECallM o f args void =>
        let ret := tmp n in
        let '(s0, r0, n1, cx1) := lower o cx (S n) in
        let '(sa, ra, n2, cx2) := lower_args args cx1 n1 in
        (s0 ++ sa ++ [HCall (HCFn f) (r0 :: ra) (if void then None else Some ret)],
         if void then ZERO else HVar ret, n2, cx2)
    | ECallC c args void =>
        let ret := tmp n in
        let '(s0, r0, n1, cx1) := lower c cx (S n) in
        match r0 with
        | HVar fx =>
            let '(sa, ra, n2, cx2) := lower_args args cx1 n1 in
            (s0 ++ sa ++ [HCall (HCVar fx) ra (if void then None else Some ret)],
             if void then ZERO else HVar ret, n2, cx2)
        | _ => (s0 ++ [HUnreachable], ZERO, n1, cx1)             (* `.as_variable().duped().unwrap()` panics *)
        end
    | EMethod o f =>
        let '(s, r, n1, cx1) := lower o cx n in
        let x := tmp n1 in
        (s ++ [HClosure x f r], HVar x, S n1, cx1)
    | EField o i =>
        let '(s, r, n1, cx1) := lower o cx n in
        let x := tmp n1 in
        (s ++ [HIndex x r i], HVar x, S n1, cx1)
    | ETuple c es =>
        let ret := tmp n in
        let '(sa, ra, n1, cx1) := lower_args es cx (S n) in
        (sa ++ [HCall (HCFn (FInit c)) (ZERO :: ra) (Some ret)], HVar ret, n1, cx1)
    | EIf c e1 e2 =>
        let '(sc, rc, n1, cx1) := lower c (push cx) n in
        if is_lit rc 1 then
          let '(s, r, n2, cx2) := lower e1 cx1 n1 in (sc ++ s, r, n2, cx2)          (* early return: no pop_scope *)
        else if is_lit rc 0 then
          let '(s, r, n2, cx2) := lower e2 cx1 n1 in (sc ++ s, r, n2, cx2)          (* early return: no pop_scope *)
        else
          let fv := tmp n1 in
          let '(s1, r1, n2, cx2) := lower e1 cx1 (S n1) in
          let '(s2, r2, n3, cx3) := lower e2 cx2 n2 in
          (sc ++ [HIf rc s1 s2 [(fv, r1, r2)]], HVar fv, n3, pop cx3)
    | EBlock b =>
        let '(s, r, n1, cx1) := lower_blk b (push cx) n in
        (s, r, n1, pop cx1)
    end
  with lower_args (es : exprs) (cx : list (list (name * name))) (n : nat) {struct es} : resl :=
    match es with
    | ENil => ([], [], n, cx)
    | ECons e t =>
        let '(s1, r1, n1, cx1) := lower e cx n in
        let '(s2, r2, n2, cx2) := lower_args t cx1 n1 in
        (s1 ++ s2, r1 :: r2, n2, cx2)
    end
  with lower_blk (b : blk) (cx : list (list (name * name))) (n : nat) {struct b} : res :=
    match b with
    | BEndU => ([], ZERO, n, cx)
    | BEndE e => lower e cx n
    | BLet (Some x) e b =>
        (* assigned expression; one late-init variable for the one key of pattern.bindings(); the Id pattern is
           one LateInitAssignment (lower_matching_pattern 842-848) *)
        let '(s1, r1, n1, cx1) := lower e cx n in
        let t := tmp n1 in
        let '(s2, r2, n2, cx2) := lower_blk b (insert cx1 x t) (S n1) in
        (s1 ++ [HDecl t; HAssign t r1] ++ s2, r2, n2, cx2)
    | BLet None e b =>
        (* Wildcard: no binding, no statement (849-851) *)
        let '(s1, r1, n1, cx1) := lower e cx n in
        let '(s2, r2, n2, cx2) := lower_blk b cx1 n1 in
        (s1 ++ s2, r2, n2, cx2)
    | BExp e b =>
        let '(s1, _, n1, cx1) := lower e cx n in
        let '(s2, r2, n2, cx2) := lower_blk b cx1 n1 in
        (s1 ++ s2, r2, n2, cx2)
    end.

  (* a function body: `ExpressionLoweringManager::new` binds every parameter to itself in the one initial scope,
     then lower_source_expression *)
  Definition initial_cx (params : list name) : list (list (name * name)) :=
    [rev (map (fun p => (p, p)) params)].

  Definition lower_body (params : list name) (body : expr) : list hstmt * hexpr * nat :=
    let '(s, r, n, _) := lower body (initial_cx params) 0 in (s, r, n).
End Lower.
